#!/bin/sh
# build the clang-14 frontend plugin (offline; ~20 s)
set -e
cd "$(dirname "$0")"
mkdir -p build
clang++ $(llvm-config-14 --cxxflags) -fPIC -shared -fno-rtti -O1 plugin/gm2facts.cc -o build/gm2facts.so
echo "gm2facts plugin built"
