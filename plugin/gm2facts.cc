// gm2facts -- clang-14 frontend plugin: dump a compact, type-resolved JSON
// description (typed statement trees, resolved callees, CFGs, records, enums,
// globals) of every declaration whose definition lies under a given root.
//
// usage: clang++ -fsyntax-only -fplugin=gm2facts.so
//          -Xclang -plugin-arg-gm2facts -Xclang root=/repo
//          -Xclang -plugin-arg-gm2facts -Xclang out=/path/tu.json  file.cpp
//
// Nothing in the analysed code is executed.

#include "clang/AST/ASTConsumer.h"
#include "clang/AST/ASTContext.h"
#include "clang/AST/DeclCXX.h"
#include "clang/AST/DeclTemplate.h"
#include "clang/AST/ExprCXX.h"
#include "clang/AST/Mangle.h"
#include "clang/AST/RecursiveASTVisitor.h"
#include "clang/AST/StmtCXX.h"
#include "clang/Analysis/CFG.h"
#include "clang/Frontend/CompilerInstance.h"
#include "clang/Frontend/FrontendPluginRegistry.h"
#include "clang/Lex/Lexer.h"
#include "llvm/ADT/DenseMap.h"
#include "llvm/ADT/SmallString.h"
#include "llvm/Support/JSON.h"
#include "llvm/Support/raw_ostream.h"

#include <deque>
#include <map>
#include <set>
#include <string>
#include <vector>

using namespace clang;
namespace json = llvm::json;

namespace {

struct Options {
  std::string root = "/repo";
  std::string out = "gm2facts.json";
  bool cfg = true;
};

class Emitter {
public:
  Emitter(ASTContext &Ctx, const Options &Opt, llvm::raw_ostream &OS)
      : Ctx(Ctx), SM(Ctx.getSourceManager()), LO(Ctx.getLangOpts()), Opt(Opt),
        J(OS, 0), Mangler(Ctx.createMangleContext()) {}

  ASTContext &Ctx;
  SourceManager &SM;
  const LangOptions &LO;
  const Options &Opt;
  json::OStream J;
  std::unique_ptr<MangleContext> Mangler;

  std::map<std::string, int> TypeIdx;
  std::vector<std::string> Types;
  llvm::DenseMap<const Decl *, int> DeclIds;
  llvm::DenseMap<const Stmt *, int> StmtIds;
  int NextStmt = 0;
  std::deque<const FunctionDecl *> LambdaQueue;
  std::set<const FunctionDecl *> Emitted;
  std::set<const FunctionDecl *> Queued;

  // ---- helpers ---------------------------------------------------------
  std::string fileOf(SourceLocation L) {
    if (L.isInvalid()) return "";
    SourceLocation E = SM.getExpansionLoc(L);
    return SM.getFilename(E).str();
  }
  bool inRoot(SourceLocation L) {
    std::string F = fileOf(L);
    return F.compare(0, Opt.root.size(), Opt.root) == 0;
  }
  std::string rel(const std::string &F) {
    if (F.compare(0, Opt.root.size(), Opt.root) == 0) {
      std::string R = F.substr(Opt.root.size());
      while (!R.empty() && R[0] == '/') R.erase(0, 1);
      return R;
    }
    return F;
  }
  unsigned lineOf(SourceLocation L) {
    if (L.isInvalid()) return 0;
    return SM.getExpansionLineNumber(L);
  }
  int typeId(QualType T) {
    if (T.isNull()) return -1;
    std::string S = T.getCanonicalType().getAsString(Ctx.getPrintingPolicy());
    auto It = TypeIdx.find(S);
    if (It != TypeIdx.end()) return It->second;
    int I = Types.size();
    Types.push_back(S);
    TypeIdx[S] = I;
    return I;
  }
  int declId(const Decl *D) {
    D = D->getCanonicalDecl();
    auto It = DeclIds.find(D);
    if (It != DeclIds.end()) return It->second;
    int I = DeclIds.size() + 1;
    DeclIds[D] = I;
    return I;
  }
  std::string mangled(const FunctionDecl *FD) {
    if (!FD) return "";
    if (FD->isDependentContext()) return "";
    std::string S;
    llvm::raw_string_ostream OS(S);
    if (auto *CD = dyn_cast<CXXConstructorDecl>(FD)) {
      Mangler->mangleName(GlobalDecl(CD, Ctor_Complete), OS);
    } else if (auto *DD = dyn_cast<CXXDestructorDecl>(FD)) {
      Mangler->mangleName(GlobalDecl(DD, Dtor_Complete), OS);
    } else if (Mangler->shouldMangleDeclName(FD)) {
      Mangler->mangleName(GlobalDecl(FD), OS);
    } else {
      OS << FD->getNameAsString();
    }
    return OS.str();
  }
  std::string qname(const NamedDecl *ND) {
    if (!ND) return "";
    std::string S;
    llvm::raw_string_ostream OS(S);
    ND->printQualifiedName(OS);
    return OS.str();
  }
  // 1 = nothrow, 0 = may throw, -1 = unknown/unresolved
  int nothrowOf(const FunctionDecl *FD) {
    if (!FD) return -1;
    const auto *FPT = FD->getType()->getAs<FunctionProtoType>();
    if (!FPT) return FD->isExternC() ? -1 : -1;
    ExceptionSpecificationType EST = FPT->getExceptionSpecType();
    if (isUnresolvedExceptionSpec(EST)) return -1;
    if (EST == EST_DependentNoexcept) return -1;
    return FPT->isNothrow() ? 1 : 0;
  }
  // outermost macro name for a location inside a macro expansion
  void macroInfo(SourceLocation L) {
    if (!L.isMacroID()) return;
    std::string Outer;
    bool Arg = SM.isMacroArgExpansion(L);
    SourceLocation Cur = L;
    int Guard = 0;
    std::vector<std::string> Chain;
    while (Cur.isMacroID() && Guard++ < 64) {
      if (SM.isMacroBodyExpansion(Cur)) {
        std::string N = Lexer::getImmediateMacroName(Cur, SM, LO).str();
        if (Chain.empty() || Chain.back() != N) Chain.push_back(N);
      }
      Cur = SM.getImmediateMacroCallerLoc(Cur);
    }
    if (!Chain.empty()) {
      J.attribute("m", Chain.back());
      if (Chain.size() > 1) {
        J.attributeArray("mc", [&] { for (auto &N : Chain) J.value(N); });
      }
    }
    if (Arg) J.attribute("ma", true);
  }
  std::string sourceText(SourceRange R) {
    if (R.isInvalid()) return "";
    CharSourceRange CR = CharSourceRange::getTokenRange(
        SM.getSpellingLoc(R.getBegin()), SM.getSpellingLoc(R.getEnd()));
    bool Invalid = false;
    StringRef T = Lexer::getSourceText(CR, SM, LO, &Invalid);
    if (Invalid) return "";
    return T.str();
  }

  // ---- callee info -----------------------------------------------------
  void calleeAttrs(const FunctionDecl *FD) {
    if (!FD) {
      J.attribute("fn", nullptr);
      return;
    }
    J.attribute("fn", qname(FD));
    std::string M = mangled(FD);
    if (!M.empty()) J.attribute("mg", M);
    int NX = nothrowOf(FD);
    if (NX >= 0) J.attribute("nx", NX == 1);
    if (FD->isImplicit() || FD->isDefaulted()) J.attribute("impl", true);
    if (inRoot(FD->getLocation())) J.attribute("inroot", true);
    if (const auto *MD = dyn_cast<CXXMethodDecl>(FD)) {
      if (MD->isVirtual()) J.attribute("virt", true);
      if (MD->isConst()) J.attribute("cm", true);
      J.attribute("cls", qname(MD->getParent()));
      // instantiated call operator of a generic lambda: not reachable through the LambdaExpr (its call operator
      // is the dependent template), so emit the specialisation that is actually called
      if (MD->getParent()->isLambda() && MD->getTemplateInstantiationPattern() && MD->hasBody() &&
          !MD->isDependentContext() && !Emitted.count(MD) && !Queued.count(MD)) {
        Queued.insert(MD);
        LambdaQueue.push_back(MD);
      }
    }
    if (FD->isExternC()) J.attribute("externC", true);
    // template origin name (primary template's qualified name) if any
    if (const FunctionDecl *P = FD->getTemplateInstantiationPattern()) {
      if (inRoot(P->getLocation())) J.attribute("inroot", true);
    }
  }

  // ---- statement / expression trees -------------------------------------
  void emitNullable(const Stmt *S) {
    if (!S) {
      J.value(nullptr);
      return;
    }
    emitStmt(S);
  }

  void emitVarDecl(const VarDecl *VD) {
    J.object([&] {
      J.attribute("name", VD->getNameAsString());
      J.attribute("id", declId(VD));
      J.attribute("t", typeId(VD->getType()));
      J.attribute("l", lineOf(VD->getLocation()));
      if (VD->getType().isConstQualified()) J.attribute("const", true);
      if (VD->getType()->isReferenceType()) {
        J.attribute("ref", true);
        if (VD->getType()->getPointeeType().isConstQualified())
          J.attribute("cref", true);
      }
      if (VD->isStaticLocal()) J.attribute("static", true);
      if (VD->isConstexpr()) J.attribute("constexpr", true);
      if (VD->hasInit()) {
        J.attributeBegin("init");
        emitStmt(VD->getInit());
        J.attributeEnd();
      }
    });
  }

  void emitStmt(const Stmt *S) {
    int Id = NextStmt++;
    StmtIds[S] = Id;
    J.object([&] {
      J.attribute("k", S->getStmtClassName());
      J.attribute("i", Id);
      J.attribute("l", lineOf(S->getBeginLoc()));
      macroInfo(S->getBeginLoc());
      const Expr *E = dyn_cast<Expr>(S);
      if (E) {
        J.attribute("t", typeId(E->getType()));
        if (E->isLValue()) J.attribute("lv", true);
        if (!isa<IntegerLiteral>(E) && !E->isValueDependent() &&
            !E->isTypeDependent() && E->getType()->isIntegralOrEnumerationType() &&
            E->isPRValue()) {
          if (E->getType()->isIntegralOrUnscopedEnumerationType()) {
            if (auto V = E->getIntegerConstantExpr(Ctx)) {
              llvm::SmallString<32> Str;
              V->toString(Str, 10);
              J.attribute("iv", Str.str());
            }
          } else {
            Expr::EvalResult ER;
            if (E->EvaluateAsRValue(ER, Ctx) && ER.Val.isInt()) {
              llvm::SmallString<32> Str;
              ER.Val.getInt().toString(Str, 10);
              J.attribute("iv", Str.str());
            }
          }
        }
      }
      bool genericChildren = true;

      if (auto *DS = dyn_cast<DeclStmt>(S)) {
        J.attributeArray("decls", [&] {
          for (const Decl *D : DS->decls()) {
            if (auto *VD = dyn_cast<VarDecl>(D)) emitVarDecl(VD);
            else J.object([&] { J.attribute("other", D->getDeclKindName()); });
          }
        });
        genericChildren = false;
      } else if (auto *DRE = dyn_cast<DeclRefExpr>(S)) {
        const ValueDecl *D = DRE->getDecl();
        const char *RK = "Other";
        if (isa<ParmVarDecl>(D)) RK = "Param";
        else if (auto *VD = dyn_cast<VarDecl>(D)) {
          RK = VD->hasGlobalStorage() ? (VD->isStaticLocal() ? "StaticLocal" : "Global") : "Var";
        }
        else if (isa<FunctionDecl>(D)) RK = "Func";
        else if (isa<EnumConstantDecl>(D)) RK = "Enum";
        else if (isa<BindingDecl>(D)) RK = "Binding";
        else if (isa<FieldDecl>(D)) RK = "Field";
        J.attribute("rk", RK);
        J.attribute("n", qname(D));
        J.attribute("id", declId(D));
        if (auto *FD = dyn_cast<FunctionDecl>(D)) {
          std::string M = mangled(FD);
          if (!M.empty()) J.attribute("mg", M);
        }
      } else if (auto *ME = dyn_cast<MemberExpr>(S)) {
        const ValueDecl *D = ME->getMemberDecl();
        J.attribute("n", qname(D));
        J.attribute("sn", D->getNameAsString());
        J.attribute("mk", isa<FieldDecl>(D) ? "Field" : (isa<CXXMethodDecl>(D) ? "Method" : "Other"));
        if (ME->isArrow()) J.attribute("arrow", true);
        if (auto *FD = dyn_cast<FieldDecl>(D)) J.attribute("id", declId(FD));
      } else if (auto *CE = dyn_cast<CallExpr>(S)) {
        calleeAttrs(CE->getDirectCallee());
        if (auto *OC = dyn_cast<CXXOperatorCallExpr>(CE))
          J.attribute("op", getOperatorSpelling(OC->getOperator()));
      } else if (auto *CC = dyn_cast<CXXConstructExpr>(S)) {
        calleeAttrs(CC->getConstructor());
        if (CC->isElidable()) J.attribute("elidable", true);
        if (CC->isListInitialization()) J.attribute("listinit", true);
      } else if (auto *NE = dyn_cast<CXXNewExpr>(S)) {
        J.attribute("at", typeId(NE->getAllocatedType()));
        if (NE->isArray()) J.attribute("array", true);
      } else if (auto *DE = dyn_cast<CXXDeleteExpr>(S)) {
        if (DE->isArrayForm()) J.attribute("array", true);
      } else if (auto *CA = dyn_cast<CastExpr>(S)) {
        J.attribute("ck", CA->getCastKindName());
        if (auto *EC = dyn_cast<ExplicitCastExpr>(CA))
          J.attribute("wt", typeId(EC->getTypeAsWritten()));
        if (const NamedDecl *CF = CA->getConversionFunction()) {
          J.attribute("conv", qname(CF));
        }
      } else if (auto *IL = dyn_cast<IntegerLiteral>(S)) {
        llvm::SmallString<32> Str;
        IL->getValue().toString(Str, 10, IL->getType()->isSignedIntegerType());
        J.attribute("v", Str.str());
      } else if (auto *FL = dyn_cast<FloatingLiteral>(S)) {
        llvm::SmallString<40> Str;
        FL->getValue().toString(Str, 0, 0);
        J.attribute("v", Str.str());
        J.attribute("s", sourceText(FL->getSourceRange()));
      } else if (auto *SL = dyn_cast<StringLiteral>(S)) {
        if (SL->isAscii()) J.attribute("v", SL->getString());
      } else if (auto *BL = dyn_cast<CXXBoolLiteralExpr>(S)) {
        J.attribute("v", BL->getValue());
      } else if (auto *CL = dyn_cast<CharacterLiteral>(S)) {
        J.attribute("v", (int64_t)CL->getValue());
      } else if (auto *UO = dyn_cast<UnaryOperator>(S)) {
        J.attribute("op", UnaryOperator::getOpcodeStr(UO->getOpcode()));
        if (UO->isPostfix()) J.attribute("postfix", true);
      } else if (auto *BO = dyn_cast<BinaryOperator>(S)) {
        J.attribute("op", BO->getOpcodeStr());
      } else if (auto *UE = dyn_cast<UnaryExprOrTypeTraitExpr>(S)) {
        J.attribute("trait", (int)UE->getKind());
        genericChildren = false;
      } else if (auto *TE = dyn_cast<CXXThrowExpr>(S)) {
        if (const Expr *Sub = TE->getSubExpr())
          J.attribute("tt", typeId(Sub->getType().getUnqualifiedType()));
        else
          J.attribute("rethrow", true);
      } else if (auto *CS = dyn_cast<CXXCatchStmt>(S)) {
        if (CS->getExceptionDecl()) {
          QualType CT = CS->getCaughtType();
          if (CT->isReferenceType()) CT = CT->getPointeeType();
          J.attribute("ct", typeId(CT.getUnqualifiedType()));
          J.attribute("cv", declId(CS->getExceptionDecl()));
        } else {
          J.attribute("ct", nullptr);
        }
        J.attributeBegin("body");
        emitStmt(CS->getHandlerBlock());
        J.attributeEnd();
        genericChildren = false;
      } else if (auto *IS = dyn_cast<IfStmt>(S)) {
        named("init", IS->getInit());
        if (IS->getConditionVariableDeclStmt()) named("condvar", IS->getConditionVariableDeclStmt());
        named("cond", IS->getCond());
        named("then", IS->getThen());
        named("else", IS->getElse());
        genericChildren = false;
      } else if (auto *FS = dyn_cast<ForStmt>(S)) {
        named("init", FS->getInit());
        named("cond", FS->getCond());
        named("inc", FS->getInc());
        named("body", FS->getBody());
        genericChildren = false;
      } else if (auto *WS = dyn_cast<WhileStmt>(S)) {
        named("cond", WS->getCond());
        named("body", WS->getBody());
        genericChildren = false;
      } else if (auto *DoS = dyn_cast<DoStmt>(S)) {
        named("body", DoS->getBody());
        named("cond", DoS->getCond());
        genericChildren = false;
      } else if (auto *SS = dyn_cast<SwitchStmt>(S)) {
        named("init", SS->getInit());
        named("cond", SS->getCond());
        named("body", SS->getBody());
        genericChildren = false;
      } else if (auto *CaS = dyn_cast<CaseStmt>(S)) {
        named("lhs", CaS->getLHS());
        named("sub", CaS->getSubStmt());
        genericChildren = false;
      } else if (auto *DfS = dyn_cast<DefaultStmt>(S)) {
        named("sub", DfS->getSubStmt());
        genericChildren = false;
      } else if (auto *CO = dyn_cast<ConditionalOperator>(S)) {
        named("cond", CO->getCond());
        named("then", CO->getTrueExpr());
        named("else", CO->getFalseExpr());
        genericChildren = false;
      } else if (auto *RF = dyn_cast<CXXForRangeStmt>(S)) {
        named("rangeinit", RF->getRangeInit());
        if (RF->getLoopVariable()) {
          J.attributeBegin("loopvar");
          emitVarDecl(RF->getLoopVariable());
          J.attributeEnd();
        }
        named("body", RF->getBody());
        genericChildren = false;
      } else if (auto *LE = dyn_cast<LambdaExpr>(S)) {
        const CXXMethodDecl *Op = LE->getCallOperator();
        if (Op) {
          J.attribute("fn", qname(Op));
          J.attribute("mg", mangled(Op));
          LambdaQueue.push_back(Op);
        }
        J.attributeArray("captures", [&] {
          for (const LambdaCapture &C : LE->captures()) {
            J.object([&] {
              if (C.capturesVariable()) {
                J.attribute("name", C.getCapturedVar()->getNameAsString());
                J.attribute("id", declId(C.getCapturedVar()));
              } else if (C.capturesThis()) {
                J.attribute("name", "this");
              }
              J.attribute("byref", C.getCaptureKind() == LCK_ByRef);
            });
          }
        });
        genericChildren = false;
      } else if (auto *DA = dyn_cast<CXXDefaultArgExpr>(S)) {
        if (const Expr *DE = DA->getExpr()) {
          J.attributeArray("c", [&] { emitStmt(DE); });
        }
        genericChildren = false;
      } else if (isa<CXXThisExpr>(S)) {
      } else if (auto *IL2 = dyn_cast<InitListExpr>(S)) {
        (void)IL2;
      } else if (auto *SE = dyn_cast<SizeOfPackExpr>(S)) {
        (void)SE;
        genericChildren = false;
      }

      if (genericChildren) {
        bool any = false;
        for (const Stmt *C : S->children()) { (void)C; any = true; break; }
        if (any) {
          J.attributeArray("c", [&] {
            for (const Stmt *C : S->children()) emitNullable(C);
          });
        }
      }
    });
  }

  void named(const char *Key, const Stmt *S) {
    if (!S) return;
    J.attributeBegin(Key);
    emitStmt(S);
    J.attributeEnd();
  }

  // ---- CFG ---------------------------------------------------------------
  void emitCFG(const FunctionDecl *FD) {
    CFG::BuildOptions BO;
    BO.setAllAlwaysAdd();
    BO.AddImplicitDtors = false;
    BO.AddEHEdges = false;
    BO.AddInitializers = true;
    std::unique_ptr<CFG> G = CFG::buildCFG(FD, FD->getBody(), &Ctx, BO);
    if (!G) {
      J.attribute("cfg", nullptr);
      return;
    }
    J.attributeObject("cfg", [&] {
      J.attribute("entry", (int)G->getEntry().getBlockID());
      J.attribute("exit", (int)G->getExit().getBlockID());
      J.attributeArray("blocks", [&] {
        for (const CFGBlock *B : *G) {
          J.object([&] {
            J.attribute("b", (int)B->getBlockID());
            J.attributeArray("e", [&] {
              for (const CFGElement &El : *B) {
                if (auto CS = El.getAs<CFGStmt>()) {
                  auto It = StmtIds.find(CS->getStmt());
                  J.value(It == StmtIds.end() ? -1 : It->second);
                }
              }
            });
            J.attributeArray("s", [&] {
              for (auto I = B->succ_begin(); I != B->succ_end(); ++I) {
                if (const CFGBlock *SB = I->getReachableBlock()) J.value((int)SB->getBlockID());
                else if (const CFGBlock *PB = I->getPossiblyUnreachableBlock()) {
                  J.value(-(int)PB->getBlockID() - 1);  // unreachable edge, encoded negative
                } else J.value(nullptr);
              }
            });
            if (const Stmt *T = B->getTerminatorStmt()) {
              auto It = StmtIds.find(T);
              J.attribute("t", It == StmtIds.end() ? -1 : It->second);
              J.attribute("tk", T->getStmtClassName());
            }
            if (const Stmt *TC = B->getTerminatorCondition()) {
              auto It = StmtIds.find(TC);
              J.attribute("tc", It == StmtIds.end() ? -1 : It->second);
            }
            if (B->hasNoReturnElement()) J.attribute("noreturn", true);
          });
        }
      });
    });
  }

  // ---- functions -----------------------------------------------------------
  void emitFunction(const FunctionDecl *FD) {
    if (Emitted.count(FD)) return;
    Emitted.insert(FD);
    NextStmt = 0;
    StmtIds.clear();
    J.object([&] {
      J.attribute("name", qname(FD));
      J.attribute("mg", mangled(FD));
      J.attribute("sn", FD->getNameAsString());
      J.attribute("file", rel(fileOf(FD->getLocation())));
      J.attribute("line", lineOf(FD->getBeginLoc()));
      J.attribute("endline", lineOf(FD->getEndLoc()));
      J.attribute("mainfile", SM.isInMainFile(SM.getExpansionLoc(FD->getLocation())));
      if (FD->isExternC()) J.attribute("externC", true);
      int NX = nothrowOf(FD);
      if (NX >= 0) J.attribute("nx", NX == 1);
      J.attribute("ret", typeId(FD->getReturnType()));
      if (FD->isTemplateInstantiation()) J.attribute("tmpl", true);
      if (!FD->isExternallyVisible()) J.attribute("internal", true);
      if (FD->isInlined()) J.attribute("inline", true);
      if (FD->isMain()) J.attribute("main", true);
      if (const auto *MD = dyn_cast<CXXMethodDecl>(FD)) {
        J.attributeObject("method", [&] {
          J.attribute("cls", qname(MD->getParent()));
          J.attribute("clsT", typeId(Ctx.getRecordType(MD->getParent())));
          J.attribute("const", MD->isConst());
          J.attribute("static", MD->isStatic());
          J.attribute("virtual", MD->isVirtual());
          if (MD->getParent()->isLambda()) J.attribute("lambda", true);
          if (isa<CXXConstructorDecl>(MD)) J.attribute("ctor", true);
          if (isa<CXXDestructorDecl>(MD)) J.attribute("dtor", true);
        });
      }
      J.attributeArray("params", [&] {
        for (const ParmVarDecl *P : FD->parameters()) {
          J.object([&] {
            J.attribute("name", P->getNameAsString());
            J.attribute("id", declId(P));
            J.attribute("t", typeId(P->getType()));
            QualType T = P->getType();
            if (T->isReferenceType()) {
              J.attribute("ref", true);
              if (T->getPointeeType().isConstQualified()) J.attribute("cref", true);
            } else if (T->isPointerType()) {
              J.attribute("ptr", true);
              if (T->getPointeeType().isConstQualified()) J.attribute("cptr", true);
            }
          });
        }
      });
      if (const auto *CD = dyn_cast<CXXConstructorDecl>(FD)) {
        J.attributeArray("inits", [&] {
          for (const CXXCtorInitializer *I : CD->inits()) {
            J.object([&] {
              if (I->isAnyMemberInitializer()) {
                J.attribute("member", qname(I->getAnyMember()));
                J.attribute("id", declId(I->getAnyMember()));
              } else if (I->isBaseInitializer()) {
                J.attribute("base", typeId(QualType(I->getBaseClass(), 0)));
              } else if (I->isDelegatingInitializer()) {
                J.attribute("delegating", true);
              }
              J.attribute("written", I->isWritten());
              if (I->getInit()) {
                J.attributeBegin("init");
                emitStmt(I->getInit());
                J.attributeEnd();
              }
            });
          }
        });
      }
      J.attributeBegin("body");
      emitStmt(FD->getBody());
      J.attributeEnd();
      if (Opt.cfg) emitCFG(FD);
    });
  }

  void emitFunctionDeclOnly(const FunctionDecl *FD) {
    J.object([&] {
      J.attribute("name", qname(FD));
      J.attribute("mg", mangled(FD));
      J.attribute("file", rel(fileOf(FD->getLocation())));
      J.attribute("line", lineOf(FD->getBeginLoc()));
      if (FD->isExternC()) J.attribute("externC", true);
      int NX = nothrowOf(FD);
      if (NX >= 0) J.attribute("nx", NX == 1);
      J.attribute("ret", typeId(FD->getReturnType()));
      if (FD->isDeleted()) J.attribute("deleted", true);
      if (FD->isDefaulted()) J.attribute("defaulted", true);
      if (const auto *MD = dyn_cast<CXXMethodDecl>(FD)) {
        J.attribute("cls", qname(MD->getParent()));
        J.attribute("const", MD->isConst());
        J.attribute("access", (int)MD->getAccess());
      }
      J.attributeArray("params", [&] {
        for (const ParmVarDecl *P : FD->parameters()) {
          J.object([&] {
            J.attribute("name", P->getNameAsString());
            J.attribute("t", typeId(P->getType()));
            QualType T = P->getType();
            if (T->isReferenceType()) {
              J.attribute("ref", true);
              if (T->getPointeeType().isConstQualified()) J.attribute("cref", true);
            } else if (T->isPointerType()) {
              J.attribute("ptr", true);
              if (T->getPointeeType().isConstQualified()) J.attribute("cptr", true);
            }
          });
        }
      });
    });
  }
};

class Collector : public RecursiveASTVisitor<Collector> {
public:
  explicit Collector(Emitter &E) : E(E) {}
  Emitter &E;
  std::vector<const FunctionDecl *> Defs, Decls;
  std::vector<const CXXRecordDecl *> Records;
  std::vector<const EnumDecl *> Enums;
  std::vector<const VarDecl *> Globals;
  std::vector<const RecordDecl *> CRecords;

  bool shouldVisitTemplateInstantiations() const { return true; }
  bool shouldVisitImplicitCode() const { return false; }

  bool VisitFunctionDecl(FunctionDecl *FD) {
    if (!E.inRoot(FD->getLocation())) return true;
    if (FD->isDependentContext()) return true;
    if (FD->isThisDeclarationADefinition() && FD->hasBody() && !FD->isDefaulted()) {
      if (const auto *MD = dyn_cast<CXXMethodDecl>(FD))
        if (MD->getParent()->isLambda()) return true;  // emitted via queue
      Defs.push_back(FD);
    } else {
      Decls.push_back(FD);
    }
    return true;
  }
  bool VisitRecordDecl(RecordDecl *RD) {
    if (!E.inRoot(RD->getLocation())) return true;
    if (!RD->isThisDeclarationADefinition()) return true;
    if (RD->isDependentContext()) return true;
    if (auto *CRD = dyn_cast<CXXRecordDecl>(RD)) {
      if (CRD->isLambda()) return true;
      Records.push_back(CRD);
    } else {
      CRecords.push_back(RD);
    }
    return true;
  }
  bool VisitEnumDecl(EnumDecl *ED) {
    if (!E.inRoot(ED->getLocation())) return true;
    if (!ED->isThisDeclarationADefinition()) return true;
    Enums.push_back(ED);
    return true;
  }
  bool VisitVarDecl(VarDecl *VD) {
    if (!E.inRoot(VD->getLocation())) return true;
    if (isa<ParmVarDecl>(VD)) return true;
    if (!VD->hasGlobalStorage()) return true;
    if (VD->getDeclContext()->isDependentContext() || VD->getType()->isDependentType()) return true;
    Globals.push_back(VD);
    return true;
  }
};

class Consumer : public ASTConsumer {
public:
  explicit Consumer(Options Opt) : Opt(std::move(Opt)) {}
  Options Opt;

  void HandleTranslationUnit(ASTContext &Ctx) override {
    std::error_code EC;
    llvm::raw_fd_ostream OS(Opt.out, EC);
    if (EC) {
      llvm::errs() << "gm2facts: cannot open " << Opt.out << ": " << EC.message() << "\n";
      return;
    }
    if (Ctx.getDiagnostics().hasErrorOccurred()) {
      OS << "{\"error\": \"compile errors\"}\n";
      return;
    }
    Emitter E(Ctx, Opt, OS);
    Collector C(E);
    C.TraverseDecl(Ctx.getTranslationUnitDecl());
    SourceManager &SM = Ctx.getSourceManager();
    E.J.object([&] {
      const FileEntry *FE = SM.getFileEntryForID(SM.getMainFileID());
      E.J.attribute("main", FE ? E.rel(FE->getName().str()) : "");
      E.J.attributeArray("functions", [&] {
        for (const FunctionDecl *FD : C.Defs) E.emitFunction(FD);
        while (!E.LambdaQueue.empty()) {
          const FunctionDecl *FD = E.LambdaQueue.front();
          E.LambdaQueue.pop_front();
          if (FD->hasBody() && !FD->isDependentContext()) E.emitFunction(FD);
        }
      });
      E.J.attributeArray("fdecls", [&] {
        for (const FunctionDecl *FD : C.Decls) E.emitFunctionDeclOnly(FD);
      });
      E.J.attributeArray("records", [&] {
        auto emitRec = [&](const RecordDecl *RD) {
          E.J.object([&] {
            E.J.attribute("name", E.qname(RD));
            E.J.attribute("file", E.rel(E.fileOf(RD->getLocation())));
            E.J.attribute("line", E.lineOf(RD->getLocation()));
            E.J.attribute("t", E.typeId(Ctx.getRecordType(RD)));
            if (const TypedefNameDecl *TD = RD->getTypedefNameForAnonDecl())
              E.J.attribute("tname", E.qname(TD));
            if (const auto *CRD = dyn_cast<CXXRecordDecl>(RD)) {
              E.J.attributeArray("bases", [&] {
                for (const CXXBaseSpecifier &B : CRD->bases())
                  E.J.value(B.getType().getCanonicalType().getAsString(Ctx.getPrintingPolicy()));
              });
              if (isa<ClassTemplateSpecializationDecl>(CRD)) E.J.attribute("tmpl", true);
            }
            E.J.attributeArray("fields", [&] {
              for (const FieldDecl *F : RD->fields()) {
                E.J.object([&] {
                  E.J.attribute("name", F->getNameAsString());
                  E.J.attribute("qn", E.qname(F));
                  E.J.attribute("id", E.declId(F));
                  E.J.attribute("t", E.typeId(F->getType()));
                  E.J.attribute("access", (int)F->getAccess());
                  if (F->isMutable()) E.J.attribute("mutable", true);
                  QualType T = F->getType();
                  if (T->isPointerType()) E.J.attribute("ptr", true);
                  if (T->isReferenceType()) E.J.attribute("ref", true);
                  if (F->hasInClassInitializer() && F->getInClassInitializer()) {
                    E.NextStmt = 0;
                    E.J.attributeBegin("init");
                    E.emitStmt(F->getInClassInitializer());
                    E.J.attributeEnd();
                  }
                });
              }
            });
          });
        };
        for (const CXXRecordDecl *RD : C.Records) emitRec(RD);
        for (const RecordDecl *RD : C.CRecords) emitRec(RD);
      });
      E.J.attributeArray("enums", [&] {
        for (const EnumDecl *ED : C.Enums) {
          E.J.object([&] {
            E.J.attribute("name", E.qname(ED));
            E.J.attribute("file", E.rel(E.fileOf(ED->getLocation())));
            E.J.attribute("line", E.lineOf(ED->getLocation()));
            E.J.attribute("scoped", ED->isScoped());
            if (const TypedefNameDecl *TD = ED->getTypedefNameForAnonDecl())
              E.J.attribute("tname", E.qname(TD));
            E.J.attributeArray("values", [&] {
              for (const EnumConstantDecl *EC : ED->enumerators()) {
                E.J.object([&] {
                  E.J.attribute("name", EC->getNameAsString());
                  llvm::SmallString<32> Str;
                  EC->getInitVal().toString(Str, 10);
                  E.J.attribute("v", Str.str());
                });
              }
            });
          });
        }
      });
      E.J.attributeArray("globals", [&] {
        std::set<const VarDecl *> Seen;
        for (const VarDecl *VD : C.Globals) {
          if (!Seen.insert(VD->getCanonicalDecl()).second) continue;
          E.J.object([&] {
            E.J.attribute("name", E.qname(VD));
            E.J.attribute("file", E.rel(E.fileOf(VD->getLocation())));
            E.J.attribute("line", E.lineOf(VD->getLocation()));
            E.J.attribute("t", E.typeId(VD->getType()));
            E.J.attribute("const", VD->getType().isConstQualified());
            E.J.attribute("constexpr", VD->isConstexpr());
            E.J.attribute("staticlocal", VD->isStaticLocal());
            E.J.attribute("staticmember", VD->isStaticDataMember());
            E.J.attribute("tls", VD->getTLSKind() != VarDecl::TLS_None);
            E.J.attribute("id", E.declId(VD));
            {
              const Expr *Init = VD->getAnyInitializer();
              if (Init && !Init->isValueDependent() && E.inRoot(VD->getLocation())) {
                E.NextStmt = 0;
                E.J.attributeBegin("init");
                E.emitStmt(Init);
                E.J.attributeEnd();
              }
            }
            if (const DeclContext *DC = VD->getParentFunctionOrMethod())
              if (const auto *PF = dyn_cast<FunctionDecl>(DC))
                E.J.attribute("infunc", E.qname(PF));
          });
        }
      });
      E.J.attributeArray("types", [&] {
        for (auto &T : E.Types) E.J.value(T);
      });
    });
    OS << "\n";
  }
};

class Action : public PluginASTAction {
  Options Opt;

protected:
  std::unique_ptr<ASTConsumer> CreateASTConsumer(CompilerInstance &, llvm::StringRef) override {
    return std::make_unique<Consumer>(Opt);
  }
  bool ParseArgs(const CompilerInstance &, const std::vector<std::string> &Args) override {
    for (const std::string &A : Args) {
      if (A.rfind("root=", 0) == 0) Opt.root = A.substr(5);
      else if (A.rfind("out=", 0) == 0) Opt.out = A.substr(4);
      else if (A == "nocfg") Opt.cfg = false;
    }
    return true;
  }
  PluginASTAction::ActionType getActionType() override { return AddAfterMainAction; }
};

}  // namespace

static FrontendPluginRegistry::Add<Action> X("gm2facts", "dump GM2Calc facts as JSON");
