"""Independent statement of the documented (block, key) -> parameter tables (C13-K3).

Sources: SLHA conventions (Skands et al., hep-ph/0311123: SMINPUTS, MASS PDG codes, HMIX, MSOFT),
README.md and input/example.{slha,gm2,thdm} of the repository.  Each row:
    key -> (target, value transform, keyword regex that the README/example comment of this
            (block, key) must match -- None where the documentation has no row)
Targets are written the way the checker renders the code:  setter(model, idx...)  or  object.field(idx).
"""

SQ = "signed_sqr(value)"
V = "value"


def _gen3(first, names, fmt, transform, kw):
    """three consecutive keys per name, generation index 0..2; kw: per name either one regex with a %d
    slot for the 1-based generation or a list of three regexes"""
    out = {}
    k = first
    for nm, word in zip(names, kw):
        for g in range(3):
            w = word[g] if isinstance(word, (list, tuple)) else (word % (g + 1, g + 1))
            out[k] = (fmt % (nm, g, g), transform, w)
            k += 1
    return out


TABLES = {}

# --- GM2CalcInput, MSSM model (GM2Calc input format) -----------------------------------------
t = {
    0: ("set_scale(model)", V, r"scale"),
    1: ("set_alpha_MZ(model)", V, r"alpha.*MZ"),
    2: ("set_alpha_thompson(model)", V, r"alpha.*(0|Thom)"),
    3: ("set_TB(model)", V, r"tan\(?beta"),
    4: ("set_Mu(model)", V, r"\bmu\b|Mu"),
    5: ("set_MassB(model)", V, r"M1|MassB"),
    6: ("set_MassWB(model)", V, r"M2|MassWB"),
    7: ("set_MassG(model)", V, r"M3|MassG"),
    8: ("set_MA0(model)", V, r"MA"),
    33: (None, None, r"Higgs|mh"),     # SM Higgs mass: read by the SM reader, ignored by the MSSM reader
}
t.update(_gen3(9, ["ml2", "me2", "mq2", "mu2", "md2"], "set_%s(model, %d, %d)", SQ,
               [r"msl\(%d,%d\)", r"mse\(%d,%d\)", r"msq\(%d,%d\)", r"msu\(%d,%d\)", r"msd\(%d,%d\)"]))
t.update(_gen3(24, ["Ae", "Ad", "Au"], "set_%s(model, %d, %d)", V, [r"Ae\(%d,%d\)", r"Ad\(%d,%d\)", r"Au\(%d,%d\)"]))
TABLES[("process_gm2calcinput_tuple", "MSSMNoFV_onshell")] = ("GM2CalcInput", t)

TABLES[("process_gm2calcinput_tuple", "GM2CalcInput_data")] = ("GM2CalcInput", {
    0: (None, None, None),
    1: ("data.alpha_MZ", V, r"alpha.*MZ"),
    2: ("data.alpha_thompson", V, r"alpha.*(0|Thom)"),
})
TABLES[("process_gm2calcinput_tuple", "SM")] = ("GM2CalcInput", {33: ("set_mh(sm)", V, r"Higgs|mh")})

# --- SMINPUTS -----------------------------------------------------------------------------------------
TABLES[("process_sminputs_tuple", "MSSMNoFV_onshell")] = ("SMINPUTS", {
    1: (None, None, r"alpha"), 2: (None, None, r"G_?F|Fermi"),
    3: ("set_g3(model)", "sqrt(4*pi*value)", r"alpha_s"),
    4: ("model.physical.MVZ", V, r"M_?Z"), 5: ("model.physical.MFb", V, r"mb"),
    6: ("model.physical.MFt", V, r"mt"), 7: ("model.physical.MFtau", V, r"mtau"),
    8: ("model.physical.MFvt", V, r"nu"), 9: ("model.physical.MVWm", V, r"M_?W"),
    11: ("model.physical.MFe", V, r"mel|me\b|melectron"), 12: ("model.physical.MFve", V, r"nu"),
    13: ("model.physical.MFm", V, r"mmu"), 14: ("model.physical.MFvm", V, r"nu"),
    21: ("model.physical.MFd", V, r"md"), 22: ("model.physical.MFu", V, r"mu"),
    23: ("model.physical.MFs", V, r"ms"), 24: ("model.physical.MFc", V, r"mc"),
})
TABLES[("process_sminputs_tuple", "SM")] = ("SMINPUTS", {
    1: ("set_alpha_em_mz(sm)", "1/value", r"alpha"), 2: (None, None, r"G_?F|Fermi"),
    3: ("set_alpha_s_mz(sm)", V, r"alpha_s"), 4: ("set_mz(sm)", V, r"M_?Z"),
    5: ("set_md(sm, 2)", V, r"mb"), 6: ("set_mu(sm, 2)", V, r"mt"), 7: ("set_ml(sm, 2)", V, r"mtau"),
    8: ("set_mv(sm, 2)", V, r"nu"), 9: ("set_mw(sm)", V, r"M_?W"),
    11: ("set_ml(sm, 0)", V, r"mel|me\b|melectron"), 12: ("set_mv(sm, 0)", V, r"nu"),
    13: ("set_ml(sm, 1)", V, r"mmu"), 14: ("set_mv(sm, 1)", V, r"nu"),
    21: ("set_md(sm, 0)", V, r"md"), 22: ("set_mu(sm, 0)", V, r"mu"),
    23: ("set_md(sm, 1)", V, r"ms"), 24: ("set_mu(sm, 1)", V, r"mc"),
})

# --- HMIX / MSOFT ---------------------------------------------------------------------------------------
TABLES[("process_hmix_tuple", "HMIX_data")] = ("HMIX", {
    1: ("data.mu", V, r"mu"), 2: ("data.tanb", V, r"tan"), 3: ("data.v", V, r"\bv\b|vev"), 4: ("data.mA2", V, r"mA|MA"),
})
t = {1: ("set_MassB(model)", V, r"M_?1|MassB"), 2: ("set_MassWB(model)", V, r"M_?2|MassWB"),
     3: ("set_MassG(model)", V, r"M_?3|MassG"),
     21: ("set_mHd2(model)", V, r"mHd2|H_?d|H1"), 22: ("set_mHu2(model)", V, r"mHu2|H_?u|H2")}
t.update(_gen3(31, ["ml2", "me2"], "set_%s(model, %d, %d)", SQ,
               [[r"meL", r"mmuL", r"mtauL"], [r"meR", r"mmuR", r"mtauR"]]))
t.update(_gen3(41, ["mq2", "mu2", "md2"], "set_%s(model, %d, %d)", SQ,
               [[r"mqL1", r"mqL2", r"mqL3"], [r"muR", r"mcR", r"mtR"], [r"mdR", r"msR", r"mbR"]]))
TABLES[("process_msoft_tuple", "MSSMNoFV_onshell")] = ("MSOFT", t)

# --- MASS (PDG numbering scheme) ----------------------------------------------------------------------------
t = {24: ("physical.MVWm", "nonzero(value)", r"W"), 25: ("physical.Mhh(0)", V, r"h"), 35: ("physical.Mhh(1)", V, r"H"),
     36: ("physical.MAh(1)", V, r"A"), 37: ("physical.MHpm(1)", V, r"H"),
     1000021: ("physical.MGlu", V, r"g"),
     1000022: ("physical.MChi(0)", V, r"chi|neut"), 1000023: ("physical.MChi(1)", V, r"chi|neut"),
     1000025: ("physical.MChi(2)", V, r"chi|neut"), 1000035: ("physical.MChi(3)", V, r"chi|neut"),
     1000024: ("physical.MCha(0)", V, r"chi|char"), 1000037: ("physical.MCha(1)", V, r"chi|char"),
     1000012: ("physical.MSveL", V, r"nu"), 1000014: ("physical.MSvmL", V, r"nu"), 1000016: ("physical.MSvtL", V, r"nu")}
for flav, nm in ((1, "MSd"), (2, "MSu"), (3, "MSs"), (4, "MSc"), (5, "MSb"), (6, "MSt"), (11, "MSe"), (13, "MSm"),
                 (15, "MStau")):
    t[1000000 + flav] = ("physical.%s(0)" % nm, V, None)
    t[2000000 + flav] = ("physical.%s(1)" % nm, V, None)
TABLES[("process_mass_tuple", "MSSMNoFV_onshell_physical")] = ("MASS", t)
TABLES[("process_mass_tuple", "SM")] = ("MASS", {24: ("set_mw(sm)", V, r"W")})
TABLES[("process_mass_tuple", "Mass_basis")] = ("MASS", {
    25: ("basis.mh", V, r"mh"), 35: ("basis.mH", V, r"mH"), 36: ("basis.mA", V, r"mA"), 37: ("basis.mHp", V, r"mH\+|mHp"),
})

# --- THDM MINPAR -------------------------------------------------------------------------------------------------
t = {3: ("basis.tan_beta", V, r"tan"), 18: ("basis.m122", V, r"m_?\{?12"),
     21: ("basis.zeta_u", V, r"zeta_u"), 22: ("basis.zeta_d", V, r"zeta_d"), 23: ("basis.zeta_l", V, r"zeta_l"),
     24: ("basis.yukawa_type", "int_to_cpp_yukawa_type(read_integer(value))", r"Yukawa")}
for i in range(7):
    t[11 + i] = ("basis.lambda(%d)" % i, V, r"lambda_%d" % (i + 1))
TABLES[("process_minpar_tuple", "Gauge_basis")] = ("MINPAR", t)
TABLES[("process_minpar_tuple", "Mass_basis")] = ("MINPAR", {
    3: ("basis.tan_beta", V, r"tan"), 16: ("basis.lambda_6", V, r"lambda_6"), 17: ("basis.lambda_7", V, r"lambda_7"),
    18: ("basis.m122", V, r"m_?\{?12"), 20: ("basis.sin_beta_minus_alpha", V, r"sin"),
    21: ("basis.zeta_u", V, r"zeta_u"), 22: ("basis.zeta_d", V, r"zeta_d"), 23: ("basis.zeta_l", V, r"zeta_l"),
    24: ("basis.yukawa_type", "int_to_cpp_yukawa_type(read_integer(value))", r"Yukawa"),
})
TABLES[("process_vckm_tuple", "CKM_wolfenstein")] = ("VCKMIN", {
    1: ("ckm.lambda", V, r"lambda"), 2: ("ckm.A", V, r"\bA\b"), 3: ("ckm.rho", V, r"rho"), 4: ("ckm.eta", V, r"eta"),
})

# --- which blocks are read at the model scale (K4) ----------------------------------------------------------------
SCALED_BLOCKS = {"HMIX", "AU", "AD", "AE", "MSOFT"}
UNSCALED_BLOCKS = {"SMINPUTS", "MASS", "GM2CalcInput", "GM2CalcConfig", "VCKMIN", "MINPAR",
                   "GM2CalcTHDMDeltauInput", "GM2CalcTHDMDeltadInput", "GM2CalcTHDMDeltalInput",
                   "GM2CalcTHDMPiuInput", "GM2CalcTHDMPidInput", "GM2CalcTHDMPilInput", "NMIX", "SMUMIX"}

# --- GM2CalcConfig (K6): entry -> (field, reader, min, max) ---------------------------------------------------------
CONFIG = {0: ("output_format", "read_integer", 0, 4), 1: ("loop_order", "read_integer", 0, 2),
          2: ("tanb_resummation", "read_bool", 0, 1), 3: ("force_output", "read_bool", 0, 1),
          4: ("verbose_output", "read_bool", 0, 1), 5: ("calculate_uncertainty", "read_bool", 0, 1),
          6: ("running_couplings", "read_bool", 0, 1)}
