#!/bin/bash
# the flow of the brief: apply a seeded change to /repo itself, run the check, undo.  tools/official_flow.sh C11-1 C02-3 ...
cd /verif
for id in "$@"; do
  pid=${id%-*}
  if ! git -C /repo apply --check /verif/seeded/$id/patch.diff 2>/dev/null; then echo "$id: patch does not apply cleanly to /repo HEAD (use tools/try_patch.sh, which tolerates offsets)"; continue; fi
  git -C /repo apply /verif/seeded/$id/patch.diff
  out=$(GM2_NO_EVIDENCE=1 ./check $pid 2>&1); ex=$?
  git -C /repo checkout -- .
  echo "$id exit=$ex $(echo "$out" | grep -m1 '^VIOLATION')"
done
git -C /repo status --short | grep -v _build | head -3
