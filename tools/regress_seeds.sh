#!/bin/bash
# re-run every imported seeded change against a scratch copy of the current /repo:  tools/regress_seeds.sh [Cnn]
cd /verif
for d in seeded/${1:-C}*; do
  id=$(basename $d); pid=${id%-*}
  out=$(bash tools/try_patch.sh $PWD/$d/patch.diff $pid 2>&1)
  ex=$(echo "$out" | grep -o "\[$pid exit=[0-9]*\]")
  first=$(echo "$out" | grep -m1 "^  [A-Za-z0-9]* " | cut -c1-140)
  echo "$id $ex $first"
done
