#!/bin/bash
# run ALL checks against a scratch copy of /repo with a patch applied:  tools/try_all.sh <patch.diff>
# prints one line per check that is not exit 0 (with the first diagnostic lines), and a summary line
P=$1
T=$(mktemp -d /tmp/gm2try_XXXX)
trap 'rm -rf "$T"' EXIT
cp -r /repo/src /repo/include /repo/math /repo/README.md /repo/input /repo/CMakeLists.txt "$T"/ 2>/dev/null
( cd "$T" && patch -p1 -s < "$P" ) || { echo "patch failed"; exit 9; }
export GM2_REPO=$T GM2_NO_EVIDENCE=1 GM2_CACHE=$T/.cache
/verif/check C18 > $T/out_C18.txt 2>&1; echo $? > $T/ex_C18
ids=$(python3 -c "import json; print(' '.join(x['property_id'] for x in json.load(open('/verif/MANIFEST.json'))['checks'] if x['property_id']!='C18'))")
echo $ids | tr ' ' '\n' | xargs -P 10 -I{} sh -c '/verif/check {} > '$T'/out_{}.txt 2>&1; echo $? > '$T'/ex_{}'
bad=0
for c in C18 $ids; do
  ex=$(cat $T/ex_$c)
  if [ "$ex" != 0 ]; then bad=$((bad+1)); echo "== $c exit=$ex"; grep -v "^  [A-Za-z0-9]* *[0-9]*/[0-9]* " $T/out_$c.txt | head -${TRY_LINES:-8} | cut -c1-600; fi
done
echo "SUMMARY $(basename $(dirname $P))/$(basename $P): non-zero=$bad"
