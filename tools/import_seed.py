#!/usr/bin/env python3
"""import a confirmed seeded change: tools/import_seed.py <Cnn> <k> <detected-by> [note]"""
import json, os, shutil, sys
pid, k, caught = sys.argv[1], sys.argv[2], sys.argv[3]
note = sys.argv[4] if len(sys.argv) > 4 else ""
import os as _os
suffix = _os.environ.get("SEED_SUFFIX", "")
src = "/tmp/seed/%s_out%s/%s" % (pid, suffix, k.split(":")[0])
dst = "/verif/seeded/%s-%s" % (pid, k.split(":")[-1])
k = k.split(":")[-1]
if os.path.exists(dst):
    shutil.rmtree(dst)
shutil.copytree(src, dst)
mp = os.path.join(dst, "meta.json")
m = json.load(open(mp))
m["breaks_property"] = pid
m["confirmed_by_me"] = ("tools/confirm_seed.sh: unchanged worktree demo exit 0; with patch: build ok, "
                        "ctest 28/28 (168 cases) pass, demo exit non-zero")
m["checks_run"] = "tools/try_patch.sh %s/patch.diff %s  (scratch copy of /repo + patch, ./check %s)" % (dst, pid, pid)
m["detected_by"] = caught
if note:
    m["note"] = note
json.dump(m, open(mp, "w"), indent=1)
print("imported", dst)
