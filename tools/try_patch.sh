#!/bin/bash
# run checks against a scratch copy of /repo with a patch applied:  tools/try_patch.sh <patch.diff> <Cnn> [<Cnn>...]
P=$1; shift
T=$(mktemp -d /tmp/gm2try_XXXX)
trap 'rm -rf "$T"' EXIT
cp -r /repo/src /repo/include /repo/math /repo/README.md /repo/input /repo/CMakeLists.txt "$T"/ 2>/dev/null
( cd "$T" && patch -p1 -s < "$P" ) || { echo "patch failed"; exit 9; }
for c in "$@"; do
  GM2_REPO=$T GM2_NO_EVIDENCE=1 GM2_CACHE=$T/.cache /verif/check $c | grep -v "^  [A-Za-z0-9]* *[0-9]*/[0-9]* " | cut -c1-400
  echo "[$c exit=${PIPESTATUS[0]}]"
done
