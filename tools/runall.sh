#!/bin/bash
# run every registered quick check against /repo and print one line each with the exit code
cd /verif
for c in $(python3 -c "import json; print(' '.join(x['property_id'] for x in json.load(open('MANIFEST.json'))['checks']))"); do
  out=$(./check $c --tier ${1:-quick} 2>&1); ex=$?
  echo "$c exit=$ex $(echo "$out" | head -1 | cut -c1-110)"
done
