#!/usr/bin/env python3
"""print the prompt given to a fresh sub-agent that seeds a property-breaking change"""
import json, sys
pid = sys.argv[1]
n = int(sys.argv[2]) if len(sys.argv) > 2 else 3
for l in open('/verif/properties.jsonl'):
    p = json.loads(l)
    if p['id'] == pid:
        break
suffix = sys.argv[3] if len(sys.argv) > 3 else ""
wt = "/tmp/seed/%s%s" % (pid, suffix)
out = "/tmp/seed/%s_out%s" % (pid, suffix)
import os
EXTRA = ""
if os.environ.get("SEED_ROUND5"):
    EXTRA = """
Additional request for this round: at least one of the changes should consist of TWO cooperating edits in different
functions (or files) that each look harmless alone and only together break the property; and at least one should need a
multi-step sequence of API calls (setters / recalculation / conversion in a particular order, or reuse of one model
object) or a rarely used combination of configuration options in order to manifest."""
print(f"""You are helping to evaluate a verification effort for the open-source C++ project GM2Calc (a library and CLI that
computes MSSM and 2HDM contributions to the muon anomalous magnetic moment from SLHA input).

You have your own scratch git worktree of the repository at {wt} (detached HEAD). Work ONLY inside {wt} and write
your results to {out}. Do not read or touch /repo, /verif or any other directory under /tmp/seed. There is no network.

Here is one semantic property that GM2Calc is supposed to satisfy (JSON record):

{json.dumps(p, indent=1)}

Your task: produce {n} DIFFERENT, independent, realistic source changes to GM2Calc (the kind of slip a maintainer could
make in a refactoring, an optimisation or a feature addition), each of which BREAKS this property, while
  (a) the project still compiles, and
  (b) the complete existing test suite still passes, and
  (c) the breakage needs something specific to manifest -- an unusual input, a particular configuration or
      combination of options, a multi-step sequence of API calls, a rarely taken branch, or two cooperating sites that
      each look fine alone -- not something ordinary use (the shipped examples/tests) would expose at once.
Make the {n} changes differ in mechanism and location (touch different functions / different clauses of the property).
Only change files under src/ or include/ (not tests, not examples, not build files). Keep each change small (a few lines).

How to build and test (takes a few minutes; use -j4: other jobs share this machine and each compile job needs up to 2 GB of memory):
  cd {wt} && cmake -G Ninja -B _build -DCMAKE_BUILD_TYPE=RelWithDebInfo >/dev/null && cmake --build _build -j4 2>&1 | tail -3
  ctest --test-dir _build -j4 --timeout 900 2>&1 | tail -5        # all 28 ctest entries must pass
Library: _build/lib/libgm2calc.a ; program: _build/bin/gm2calc.x ; headers: include/ ; Eigen in /usr/include/eigen3.
Example inputs: input/example.slha, input/example.gm2, input/example.thdm (usage: _build/bin/gm2calc.x --slha-input-file=F,
--gm2calc-input-file=F, --thdm-input-file=F). A C/C++ demo can be compiled e.g. with
  g++ -std=c++14 -I include -I src -I /usr/include/eigen3 demo.cpp _build/lib/libgm2calc.a -o demo

For each change k = 1..{n}:
  1. Start from a clean tree (git -C {wt} checkout -- . ), make the change, rebuild, run the full test suite and confirm it passes.
  2. Write a demonstration (a small C/C++ program, or a shell script driving gm2calc.x with a crafted input file) that
     exits 0 on the UNCHANGED code and exits non-zero (or prints FAIL) WITH the change. Verify both directions yourself.
  3. Save into {out}/k/ :  patch.diff (output of `git -C {wt} diff`), the demonstration files plus a run.sh that builds
     and runs the demonstration given the worktree path as $1 (it may assume $1/_build is built), and
     meta.json with keys: property ("{pid}"), summary (what was changed and why it breaks the property),
     needs (what specific input/sequence/configuration is needed for the breakage to manifest),
     files_changed, tests_passed (true/false as you observed), demo_unchanged_exit, demo_changed_exit.
  4. Restore the tree (git -C {wt} checkout -- .).
At the end leave the worktree clean of source changes (keep _build). In your final answer list the {n} changes in two lines each.
Do not try to be adversarial towards any particular checker -- just make realistic, subtle, property-breaking changes.""" + EXTRA)
