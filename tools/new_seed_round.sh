#!/bin/bash
# tools/new_seed_round.sh <Cnn> <suffix> : scratch worktree + prompt file for a fresh seeding sub-agent
p=$1; s=$2
mkdir -p /tmp/seed
git -C /repo worktree add --detach /tmp/seed/${p}${s} HEAD -q
mkdir -p /tmp/seed/${p}_out${s}
python3 /verif/tools/seed_prompt.py $p 3 $s > /tmp/seed/prompt_${p}${s}.txt
echo /tmp/seed/prompt_${p}${s}.txt
