#!/usr/bin/env python3
"""Regenerate /verif/MANIFEST.json from the table below (single source of truth)."""
import json
import os

VERIF = os.path.dirname(os.path.dirname(os.path.abspath(__file__)))

TRUST = ("Trusted base: clang 14 front end (AST, constant folding), the gm2facts plugin, the python rule "
         "engine; build flags -std=gnu++14 -DNDEBUG as in the real build. ")

CLAIMED = {
    "C17": dict(
        category="proof",
        technique="interprocedural may-throw fixed point over the resolved call graph (clang plugin AST) + "
                  "structural wrapper rules",
        text="Static, state-independent: the set of exception types that may propagate out of each of the 137 "
             "extern \"C\" definitions is computed as a least fixed point over the whole-library call graph "
             "(try/catch absorption, frozen table of throwing external callees) and must be empty -- hence no "
             "call history or model state can make an exception escape; no noexcept function that an exception can "
             "reach lies in a wrapper's call closure (std::terminate). Structural rules decide the bounded "
             "string copy incl. len = 0, same-stem unmodified forwarding of every calculation wrapper (bit "
             "identity by construction), error-code mapping and handler order, enum mirrors, free = delete. "
             "Setter/getter round trip is decided as equality of the written and read access paths. Second session (X7): no extern C definition ignores one of its parameters.",
        note=TRUST + "A1 allocation failure excluded; A2 external callees behave as classified (classification "
             "printed in the evidence); Eigen assertions compiled out (NDEBUG). Bit-identity is decided as "
             "forwarding, not measured.",
        ref="3 C17, 2.8"),
}

CLAIMED["C14"] = dict(
    category="other",
    technique="may-throw fixed point + structural rules on the typed AST (value sets, control dependence, "
              "loop-idiom classification, constant index ranges)",
    text="Decides the structural totality and memory-safety clauses: only gm2calc::Error reaches main's "
         "handler and nothing escapes main or a noexcept function; every exit status is in {0,1}; every "
         "failure exit is preceded by a diagnostic that runs unconditionally under the failure condition; stdout "
         "is touched only by the writers; every "
         "float->int conversion and every input-derived index is range-tested first; ~750 constant indices "
         "lie within the fixed Eigen dimensions; all ~190 loops follow a bounded idiom and the call graph has "
         "no recursion; raw new/delete only in the C constructors/free; every arithmetic / enum / fixed-size Eigen data member of the repository's classes (309) has a default member initialiser or is set by every constructor (no indeterminate value on a fresh object); every constant subscript of an SLHA line is dominated by a size test; every default-constructed fixed-size Eigen local has all its entries assigned (loops unrolled, in-place completion helpers evaluated); parsed 64-bit integers are not narrowed without a range test. These hold for every input because "
         "they are facts about all program paths, not about sampled files.",
    note=TRUST + "Not decided: UB inside Eigen/boost/libstdc++, uninitialised reads in general, leaks beyond "
         "'no raw allocation', Eigen accesses with run-time indices (counted, not judged). Allocation failure "
         "excluded.",
    ref="3 C14, 2.8")

CLAIMED["C16"] = dict(
    category="other",
    technique="control-dependence analysis of every rejection throw (typed AST), normal-form matching of guard "
              "conditions against the documented list, exit-status dataflow",
    text="Decides the path/shape clauses: every EInvalidInput/EPhysicalProblem throw of the model classes is "
         "control-dependent on the force flag being off, and its forced branch warns or records a problem "
         "(never silent); each of the 30 documented rejection conditions has a throw site guarded by exactly "
         "that comparison (conjuncts are split; a further condition that narrows the documented one is reported) "
         "with the documented class, in a function the constructors/calculators call on every "
         "path; the program's exit status is EXIT_FAILURE after a caught error and equals have_problem() in "
         "the MSSM; the writer runs only after the reader returned; the C error codes map the classes. Second session (V5): tachyon detection tests the minimum over all squared masses of a sector, before sqrt(|m^2|), in the MSSM and the THDM. Third session: (V2b) the THDM reader's 'undecidable basis' rejection is decided by the truth table of the throw's path condition over its zero-test atoms (robust to De Morgan rewrites, named predicates, early returns).",
    note=TRUST + "The list of documented conditions is frozen in the checker (rules_c16.DOCUMENTED). Not decided: "
         "that a result reported without error/problem/warning is a finite number (numerical).",
    ref="3 C16, Appendix A")

CLAIMED["C19"] = dict(
    category="proof",
    technique="effect/ownership analysis on the typed AST: const-only API, deep-const closure of the model "
              "types, absence of writable static storage (AST + LLVM IR), nondeterminism reachability over "
              "the call graph, RAII pairing",
    text="Purity and race freedom are decided as absence of any shared writable location: every calculation "
         "function takes its model by const reference/value; no const_cast, const-dropping cast, mutable "
         "field or pointer/reference member exists in any class reachable from the model types (const is "
         "deep); no static-storage variable of the repository is writable; the API's call closure (~780 "
         "functions) reaches no nondeterminism source or process-global setter; the soft-Higgs-mass "
         "overwrite is paired with an RAII save in every caller. This holds for all interleavings and "
         "histories, which sampling with ThreadSanitizer cannot give.",
    note=TRUST + "Assumes std::cerr (warnings) is the only shared object and that the Eigen/boost/libstdc++ "
         "functions used keep no hidden mutable state; the thorough tier cross-checks the library's LLVM IR "
         "for writable globals. Bit-identity across compilers/FPU modes is outside the program text.",
    ref="3 C19")

CLAIMED["C18"] = dict(
    category="proof",
    technique="abstract interpretation of the uncertainty functions in a lower-bound domain over symbolically "
              "folded terms + normal-form comparison of the defining sums",
    text="Each of the 11 uncertainty functions is folded into a closed term (callees inlined, a_mu contributions "
         "as symbols of arbitrary sign) and evaluated in the domain [lb, +inf): the estimates are >= 0, the "
         "two-loop estimates >= their documented floor, for every model and every value of the a_mu inputs, "
         "including cancellation points a test cannot aim at. The defining sums (0L, 1L) and the delegation of "
         "the overloads that compute a_mu themselves are decided by term comparison.",
    note=TRUST + "Finiteness of the estimates is a value property and is not decided. |x| >= 0 is the only "
         "arithmetic fact used besides monotonicity of + and * on non-negative terms.",
    ref="3 C18")

CLAIMED["C15"] = dict(
    category="other",
    technique="abstract (symbolic) evaluation of the dispatchers, writers and totals into terms; exhaustive "
              "evaluation of the folded dispatch term over its finite option domain; polynomial normal-form "
              "identities for printed sums/percentages; README tables as the oracle",
    text="Decides that (D1) the dispatch on resummation x loop order selects exactly the documented library "
         "totals (all 6+3 configurations of the folded term), (D2) the minimal and SLHA writers emit that "
         "dispatcher value for the same (model, options), in the block/entry the README documents per format, "
         "the uncertainty exactly where and when documented, entries stored by key (replace, not append), (D3) "
         "each library total is the documented sum of parts on one and the same model object, (D4) each printed "
         "sum and percentage of both detailed writers is an algebraic identity of its printed parts / stated "
         "reference, identical in the try and fallback branch, (D5) defaults equal the README table. These are "
         "identities of the program text, valid for every input and all 480 option combinations. (D6) The echo clause structurally: the SLHA container is written only by the readers and by fill_block_entry, every model filler is a const member, and the program writes only the documented output blocks. Third session: (D7) THDM_reader sets every field of thdm::Config from the same-named program option (named assignment, or braced initialiser matched against the struct's declaration order).",
    note=TRUST + "README.md is parsed as the statement of documented behaviour. Not decided: printed digits and "
         "rounding, the echo of the input blocks (SLHAea).",
    ref="3 C15")

CLAIMED["C13"] = dict(
    category="other",
    technique="abstract evaluation of every key->parameter switch arm into (target, transform) rows compared "
              "with an independent table and the README/example comments; structural rules for whole-token "
              "conversion, exception discipline, scale filtering and case-insensitive block lookup",
    text="Decides the structural clauses of 'interpreted by content': whole-token, finite numeric conversion "
         "with every failure -> EReadError; all 160 (block, key) rows of the 13 reader tables equal an "
         "independent statement of the documented tables (SLHA conventions, PDG codes) whose rows are in turn "
         "matched against the README/example comments; sibling readers of one block agree; exactly HMIX, AU, "
         "AD, AE, MSOFT are read at the model scale (absolute tolerance 0.01) after the scale was fixed from the "
         "last HMIX block; block lookup always goes through SLHAea's case-insensitive find over all blocks of a "
         "name; unknown keys write nothing; the matrix/vector block readers write their output only entry by entry from the "
         "data lines (an entry a block does not name keeps the value of earlier blocks); configuration fields only through the validating readers with the "
         "README's ranges. A key swapped between two generations or a PDG code mapped to the wrong mass is "
         "invisible to tests that use symmetric points; here it is a table mismatch. Second session: a parsed 64-bit integer is not narrowed without a range test (K7); every block at the model scale is read inside the loop over all blocks of the name (K4). Third session: (K1c) SLHAea::to<T>, the fallback converter, is a plain boost::lexical_cast (whole-token) on its only path.",
    note=TRUST + "specs/slha_keys.py is the independent table (each row's keyword is checked against the "
         "repository's documentation; a mismatch makes the check inconclusive, not passing). Not decided: "
         "SLHAea's tokeniser (comments, whitespace, order of blocks).",
    ref="3 C13, Appendix B")

CLAIMED["C05"] = dict(
    category="other",
    technique="structural path rules (flag xor unflag), transitive field-write analysis, stale-value typestate "
              "for derived indices, polynomial identity for the closed-form inverse, who-may-read rule for "
              "default constants",
    text="Decides the 'or warns' half and the shape of the fitting routines: exactly one of flag/unflag "
         "non-convergence on every path, selected by precision > goal; the warning flags cannot be overwritten "
         "after the fits inside convert_to_onshell; a non-finite fit result restores the saved parameter; the "
         "bino / right-smuon indices are re-derived after each recomputation of their mixing matrix before use; "
         "ml2(2,2) from the sneutrino pole mass is the exact algebraic inverse of the tree-level relation; the "
         "default SM constants are never read outside constructors; in convert_Mu_M1_M2 pole-multiplet indices "
         "subscript only pole arrays and tree-level indices only the model's arrays (incl. the argument of the "
         "convergence measure). A slip in any of these yields a silently "
         "wrong fit only on rare inputs (level crossings, stalled iterations, MZ different from the default). Second session: state selectors read a mixing matrix only through moduli (R8); the requested precision and iteration cap reach every fitting routine unchanged, also from the C entry points (R9); once a sector is fitted no later statement overwrites an input of its mass matrix without a re-fit (R10; one recorded finding: the final Yukawa update after the smuon fit); a pole mixing matrix is filled only together with its pole masses (R11); a derived index is not captured by value (R4).",
    note=TRUST + "Not decided: that the fitted spectrum numerically reproduces the pole masses within the goal, "
         "and parameter recovery from perturbed guesses (conditioning).",
    ref="3 C05")

CLAIMED["C09"] = dict(
    category="other",
    technique="abstract evaluation of get_zeta_f / get_rho_f folded per Yukawa type against Table 1 (rational "
              "identities), information-flow (who-reads / kill-before-use) rules for the ignored inputs",
    text="The equivalence of the discrete types with the aligned model is reduced to checkable facts: "
         "get_zeta_f per type equals Table 1 of arXiv:1607.06292 and rho_f per type equals sqrt2 m zeta_f/v + "
         "Delta_f (general: Pi_f/cos(beta) - sqrt2 m tan(beta)/v) as identities; the Yukawa type is read by no "
         "other code, so the types can differ from the aligned model only through zeta_f. Ignored inputs cannot "
         "influence a result: raw zeta_f is read only in the aligned arm, Delta_f only in the non-general "
         "branch, each non-general arm of init_yukawas overwrites all six Yukawa matrices before reading any; "
         "validate only warns; constructors copy each basis field into the same-named member.",
    note=TRUST + "Table 1 is transcribed in rules_c09.TABLE1. Matrix products are compared in a commutative "
         "normal form (sufficient for the scalar-times-matrix shapes used). Not decided: numerical equality of "
         "a_mu between parametrisations; aligned <-> general with Pi_f encoding the same couplings.",
    ref="3 C09")

CLAIMED["C20"] = dict(
    category="other",
    technique="polynomial identity checking of symbolically folded code (CKM unitarity modulo s^2+c^2=1, |e|=1; "
              "electroweak relations), control-dependence and who-may-call rules, may-throw coverage of the "
              "Lambda_QCD handler",
    text="The standard CKM parametrisation is folded into a 3x3 matrix of polynomials and V V^dagger = 1 is "
         "shown as an identity (9 entries) -- valid for all angles and phases, not for sampled ones -- and every "
         "producer of a CKM matrix returns only through it or throws after a range check; the derived "
         "electroweak quantities satisfy their defining relations as identities of the getter terms; the "
         "running-mass routines are applied under exactly running_couplings && scale > 0 to the third "
         "generation and are called nowhere else; a failed Lambda_QCD bracket is caught, warned about and "
         "leaves the default; the running-mass code keeps no writable static storage (its results are functions "
         "of the arguments only, a precondition of composable running). Second session: every asin/acos of the Wolfenstein conversion has an argument in [-1,1] by interval arithmetic or a dominating rejection (R2b); each running mass is one power law in the scale, splits must be continuous (R7); alpha_s(Q; Lambda_QCD) is evaluated only under an early exit for Lambda_QCD >= Q (R8).",
    note=TRUST + "Not decided: positivity, monotonicity, boundary values and composition of the running masses "
         "(numerical); floating-point unitarity to 1e-14 (the algebraic formula is exact).",
    ref="3 C20")

CLAIMED["C04"] = dict(
    category="other",
    technique="symbolic folding of the 34 mass-matrix functions into exact polynomial matrices, compared with "
              "an independent oracle (Hessian of the MSSM scalar potential by polynomial differentiation, "
              "quantum-number formulae for sfermions); structural rules for tachyon flags and ordering",
    text="Every entry (88) of every tree-level mass matrix equals, as a polynomial identity in the Lagrangian "
         "parameters, an independent statement of the MSSM: sfermions from (T3, Y) and the soft/Yukawa/"
         "trilinear structure, the CP-even/CP-odd/charged Higgs matrices as the Hessian of the scalar potential "
         "plus Feynman-gauge Goldstone terms, neutralino/chargino/W/Z/fermions in standard form; the three "
         "generations of each sector coincide up to the index; the tadpoles are the potential's gradient and "
         "the EWSB elimination solves them identically; a tachyon is flagged exactly under m^2 < 0 before "
         "sqrt|m^2| in every sector the a_mu code reads; Goldstones are reordered last to index 0. A wrong "
         "D-term coefficient in one generation is invisible at the pinned test points; here it is a polynomial "
         "mismatch. Third session: (R7) typestate for all 34 sectors -- every model operation that writes a parameter entering a sector's mass matrix recomputes that sector before it returns (no stale mass/mixing pair after a multi-step API sequence); (R8) calculate_DRbar_masses computes every sector unconditionally (no early return, no guarded sector).",
    note=TRUST + "The MSSM conventions (GUT-normalised g1, superfield hypercharges, Feynman gauge) are written "
         "in rules_c04.spec_matrices. Not decided: everything about the numerical eigen-decomposition "
         "(unitarity, ordering, non-negativity, sum rules as numbers).",
    ref="3 C04")

CLAIMED["C08"] = dict(
    category="other",
    technique="symbolic folding of the THDM mass matrices / EWSB / basis setters into exact rational functions, "
              "compared with the Hessian of the documented 2HDM potential; the closed-form masses->lambda "
              "inversion is substituted back and shown to give the spectral form of the inputs",
    text="The CP-even, CP-odd and charged mass matrices equal the Hessian of the general 2HDM potential (plus "
         "Goldstone gauge-fixing terms) entry by entry; the tadpoles are its gradient and the EWSB elimination "
         "solves them; lambda_6, lambda_7, m12^2, tan(beta) (and lambda_1..5 in the gauge basis) are stored "
         "unmodified; and -- the core of 'reports exactly the input back' -- with the lambda_1..5 that the "
         "mass-basis constructor computes, these matrices are identically R(alpha) diag(mH^2, mh^2) R(alpha)^T, "
         "mA^2 P and mH+^2 P for all inputs (rational identity with sqrt(1+tan^2 beta) and sin^2+cos^2 "
         "reductions), with alpha = atan(tan beta) - asin(sin(beta-alpha)). Goldstones are moved to index 0 by "
         "MZ/MW after all sectors; the reported sin/cos(beta-alpha) come from the one normalised alpha_h, which is asin(ZH(1,1)) shifted by "
         "-+pi exactly when beta - alpha_h leaves [-pi/2, pi/2] (case analysis of the folded getter); the CKM "
         "matrix enters the up-type Yukawa matrices only through its adjoint. Second session (R7): the reported mixing angle is the angle of the heavy CP-even eigenvector for every sign convention the diagonalisation contract allows (atan2 / atan of both components); a single-component inverse function is rejected -- this found the alpha_h defect named in the property text, now repaired. Third session: (R10) typestate for the derived Yukawa matrices -- an operation that writes v1, v2 or a Yukawa parameter and then computes the spectrum calls init_yukawas() in between, so the fermion masses equal the SM input after any API sequence.",
    note=TRUST + "The 2HDM potential (arXiv:2110.13238 Eq.(1)) is written in rules_c08.spec. Not decided: the value "
         "of alpha_h read back from the numerical eigenvector (the property text records a defect there away "
         "from alignment: it depends on the eigen-solver's sign convention), SM fermion masses / CKM through "
         "the SVD.",
    ref="3 C08")

CLAIMED["C10"] = dict(
    category="other",
    technique="symbolic folding of the THDM one-loop and fermionic two-loop functions over opaque loop-function "
              "atoms, SM-limit substitution, and an exact independence test (d/dm_hSM of the rational function "
              "vanishes identically); who-reads and factorisation rules for the bosonic part",
    text="The SM-limit clause is decided as an algebraic cancellation: giving the light Higgs the SM Higgs mass "
         "and couplings (y_f^h = m_f/v) by substitution, the folded one-loop (full and approximate) and "
         "fermionic two-loop results are independent of the common Higgs mass identically, in every "
         "data-dependent branch, for all parameter values; the charged part never reads light-Higgs data; the "
         "only bosonic function that reads m_h carries cos(beta-alpha) as an overall factor; no static of the "
         "THDM a_mu code depends on run-time data.",
    note=TRUST + "Not decided: the decoupling rate with the heavy scale and the near-degenerate expansions used "
         "there (numerical; seeded change C10-1 is not detected), the bosonic Yukawa/non-Yukawa parts.",
    ref="3 C10")

CLAIMED["C06"] = dict(
    category="other",
    technique="abstract interpretation in a parity domain {even, odd, mixed, unknown} over symbolically folded "
              "terms; for the exact contributions: entry-wise covariance identities of the mass-matrix functions and "
              "invariance of the folded formulas (exact complex rational functions of the mixing-matrix entries) under the "
              "induced substitution and under the row phases left open by the decomposition contracts",
    text="(P1) For every contribution that does not read a mixing matrix -- the tan(beta)-resummation factors "
         "Delta_mu, Delta_tau, Delta_b, the leading-log one- and two-loop approximations, the logarithm scale, "
         "delta_g/delta_yuk/delta_tan_beta, tan(alpha) (27 functions, 32 overloads) -- the folded formula is "
         "even under the joint sign flip of mu, M1, M2, M3, A_f/T_f: products multiply parities, sums need equal "
         "parities, |x| and x^2 are even, comparisons/min/max/log of a sign-changing quantity are definite "
         "violations. (P2-P4) For the exact one-loop, the photonic two-loop and the 2L(a) contributions: the neutralino, chargino, "
         "smuon, sneutrino, stop, sbottom and stau mass matrices transform covariantly under the flip (M -> (iS) M (iS) etc., polynomial "
         "identities), which maps every decomposition allowed by the contracts to one with the same masses and "
         "ZN -> ZN iS, UM/UP -> UM/UP is, ZM/ZT/ZB/ZTau -> Z t; the formulas are invariant under exactly this substitution, and "
         "they do not depend on the row signs/phases the contracts leave arbitrary. This holds for all parameter values and "
         "all sign combinations at once.",
    note=TRUST + "Masses (eigenvalues) are invariant by the covariance argument; the decomposition contracts are those "
         "checked structurally in C12. NOT decided: points with exactly degenerate masses, where the decomposition leaves a rotation "
         "(not only row phases) open.",
    ref="3 C06, 10.6")

CLAIMED["C07"] = dict(
    category="other",
    technique="units-of-measure (mass dimension) inference by abstract interpretation of the symbolically "
              "folded a_mu functions",
    text="All 61 functions of the MSSM one-loop, two-loop and uncertainty code are dimensionally consistent: "
         "sums/comparisons combine equal dimensions, every logarithm, dilogarithm and loop function receives a "
         "dimensionless argument, Iabc is homogeneous of degree -2, and every a_mu, Delta and coupling is "
         "dimensionless (log_scale: GeV). Hence each contribution is a function of mass ratios times "
         "m_mu^2/M^2-type prefactors -- the structural reason for the 1/k^2 law -- and a mass in place of a "
         "squared mass, a missing 1/m^2 or the log of a dimensionful quantity is reported as a unit error at "
         "the offending sub-expression. The pole-mass slots read by the formulas are only those the model "
         "refreshes unconditionally (not the fill-if-empty SUSY slots, which would keep an earlier point's "
         "masses). The two-loop uncertainty is a positive constant plus positive multiples of |2L(a)| terms. Third session: (TA) every value tan_alpha can return satisfies tan(2 alpha) = tan(2 beta)(MA^2+MZ^2)/(MA^2-MZ^2) as a polynomial identity (sqrt(X)^2 -> X), or in the limit named by the large-ratio test that selects the branch, and is the negative root.",
    note=TRUST + "This is a necessary condition only: it proves homogeneity under a joint rescaling of all "
         "dimensionful quantities (SM masses included). The size of the O(MZ^2/M_SUSY^2) remainder and of the "
         "logarithms is numerical and not decided.",
    ref="3 C07, Appendix C")

CLAIMED["C11"] = dict(
    category="other",
    technique="pole-guard analysis: every function of the THDM one-/two-loop code, the loop-function library "
              "and the MSSM a_mu code is folded into a term; each denominator factor that can vanish for "
              "positive arguments must be excluded on its path (substitute the zero of the factor into the "
              "path conditions), plus an IEEE finite/inf/NaN abstract value for poles that are kept on purpose",
    text="Decides the structural part of the property: no division by a quantity that vanishes at a mass "
         "coincidence is reachable without a guard that excludes a neighbourhood of that coincidence. For "
         "every denominator factor with monomials of both signs (u - 1, u - 4 cw^2, w - cw^2, x - y, 1 - 4x, "
         "a Kaellen function, ...) in 72 folded sites, the path to the division contains a shift, an "
         "is_equal_rel/|1 - a/b| < eps branch or a product of closeness tests whose exclusion is shown by "
         "substituting the solution of factor = 0; guard tolerances lie in [1e-10, 1e-4] (shifts) / >= 1e-10 "
         "(branches), a shift guarding a factor of multiplicity p keeps at least (2^-53/1e-2)^(1/p), exact "
         "comparisons do not count; argument relations used by guards (xu/yu = xd/yd) hold "
         "as identities at the call sites; caller contracts of the internal helpers (sorted arguments, "
         "lambda^2 > 0) are verified on the call graph; tan(2 alpha), which keeps its pole at MA = MZ, is used "
         "only through its reciprocal (abstract IEEE value of the result: finite). Second session: after a pole-avoiding shift nothing is computed from the pre-shift value (R9); the test that selects the lambda^2 -> 0 limit of Phi/lambda^2 is scale-free (R6s).",
    note=TRUST + "NOT decided: the 1% continuity band as a number, the accuracy of the alternative formulas in the "
         "equal-argument branches (series coefficients: C01/C02), cancellations that lose precision without a "
         "vanishing denominator, functions the evaluator cannot fold (loops over Eigen arrays in the MSSM "
         "one-loop code). Three genuine defects found by this rule were repaired (known_findings.json).",
    ref="3 C11")

CLAIMED["C01"] = dict(
    category="other",
    technique="symbolic folding of each loop function into its evaluation regimes; exact rational-function "
              "normal forms over {x, log x, Li2(1-x), f_PS(x), pi, log 2}; exact Laurent/Taylor series over the "
              "rationals; a reader for the repository's Mathematica definition file",
    text="For F1C..F4C, F1N..F4N, G3, G4, f_S, f_sferm, f_CSl, F1, F1~, F2, F3 (17 functions): the generic "
         "closed form is identically the definition in math/ffunctions.m (for F1..F3: the exact value of the "
         "quoted integral representation, obtained by polynomial division of the integrand); every coefficient "
         "of every Taylor branch equals the exact Taylor coefficient of that closed form at 1 (all poles cancel "
         "exactly); the values returned at 0, 1/4 and 1 equal the limits of the closed form (or the "
         "documented convention 0 where it diverges) and the F[0], F[1/4], F[1] lines of ffunctions.m, long "
         "decimal literals to 2 ulp; at the edge of each Taylor window a first-order error model bounds "
         "series truncation and closed-form cancellation below 1e-7; every regime a negative argument can "
         "reach yields NaN; the large-argument branches of f_S and F3 are the exact expansions at infinity. "
         "For the kernels of gm2_dilog.cpp: every range-reduction branch of the real dilogarithm is an instance "
         "of the functional equations (derivative identity, image interval, boundary value); the rational "
         "kernels of Li2 on [0,1/2] and of Cl2 on (0,pi/2), [pi/2,pi], with their coefficients rounded to "
         "double, are within 1.5e-15 / 6e-18 / 5e-17 of the series (rigorous bounds in exact rational "
         "arithmetic); 2 pi enters the Cl2 reflection accurate to 1e-19; the complex series has the "
         "Bernoulli coefficients and a remainder below 2e-15. These hold for all arguments, not for sampled ones. Second session (K5): the distance of the Cl2 argument to the nearest multiple of pi (a zero of Cl2) is computed with constants whose exact sum is pi to 1e-29, a short leading constant and fused products; no reduction by a 53-bit 2 pi. Third session: (R9) the loop- and special-function files keep no writable or run-time initialised static / thread-local storage (no memo whose key is narrower than the inputs).",
    note=TRUST + "NOT decided: floating-point rounding of the kernel evaluation itself (a few ulp, not bounded here); "
         "the geometry of the complex dilogarithm's transformations (|u| <= 1.26 is taken from the region "
         "|z| <= 1, Re z <= 1/2); the three real regimes of f_PS against its complex definition; rounding for "
         "x -> 0+ and x -> 1e12. R4 is an error model, not a proof of 1e-7. One genuine defect (finite values "
         "for tiny negative arguments) was repaired.",
    ref="3 C01")

CLAIMED["C02"] = dict(
    category="other",
    technique="AST rule (sort-first over a verified sorting network), units inference for homogeneity, rational "
              "normal forms against math/ffunctions.m, exact (bivariate) series and symbolic derivatives for the "
              "degenerate branches, scale-invariance test of regime conditions",
    text="Fa, Fb, FPZ, FSZ, FCWl, Ixyz/Iabc, Phi, Phi/lambda^2 sort their symmetric arguments with a verified "
         "sorting network before any other use, hence are exactly permutation invariant; lambda^2 is the "
         "symmetric Kaellen polynomial; Iabc, Ixyz, Phi, Phi/lambda^2, lambda^2 are homogeneous of the "
         "documented degree; the generic branch of Fa, Fb, FPZ, FSZ, FCWl, FCWu, FCWd, f_CSd, f_CSu, Ixy equals "
         "the definition in math/ffunctions.m identically; every degenerate branch is the exact limit or "
         "expansion of that generic form (x f' - f for the Barr-Zee functions incl. value and slope at 1/4 and "
         "the large-x series of FSZ; the (y-x)^2, (x-1)^2 and (1,1) expansions of Fa, Fb, Ixy with all "
         "coefficients); the test that selects an equal-argument expansion is scale free; zero arguments "
         "return 0. Third session: (R9) the loop-function files keep no writable or run-time initialised static / thread-local storage.",
    note=TRUST + "Also decided: for lambda^2 > 0, phi_pos is the Davydychev-Tausk form Phi[x,y,z] of ffunctions.m and its "
         "small-argument expansions (l00, l0v, lv0, u = v) solve the defining quadratic to the stated order. NOT "
         "decided: the accuracy figures as numbers; phi_neg (the Clausen form of Phi for lambda^2 < 0) against "
         "Phi's definition; the limits inside phi_over_y; continuity between regimes beyond "
         "the verified expansion orders. One genuine defect (absolute equality test in Fa/Fb) was repaired.",
    ref="3 C02")

CLAIMED["C03"] = dict(
    category="other",
    technique="symbolic folding of the one-loop functions into exact rational functions of the reported mixing-matrix "
              "elements, masses and Yukawa couplings (Eigen whole-array operations pushed down to elements, complex "
              "conjugation as independent z/zbar atoms, loop functions as opaque atoms keyed by the value of their "
              "argument) and polynomial-identity comparison with an independently written specification; typed-AST "
              "rules for the decomposition calls and the parameter plumbing",
    text="Decides the structural clause of C03 only: the value returned by amu1LChi0 / amu1LChipm is, as an identity "
         "in every mixing-matrix element (ZN, UM, UP, ZM), mass, coupling and opaque loop-function value, the formula "
         "of hep-ph/0609168 (46)-(51) (= arXiv:1311.1775 (2.11a,b) in another sign convention, written down "
         "independently in the checker); thdm::amu1L is the flavour-summed scalar + pseudoscalar + charged-Higgs "
         "expression minus the SM-Higgs term and amu1L_approx is Eq. (27)-(30) of arXiv:1607.06292; the spectrum "
         "routines pair each mass matrix with the decomposition routine and output order whose contract the couplings "
         "assume; calculate_amu_1loop(THDM) fills each struct field from the matching getter; the twelve Yukawa "
         "getters follow the documented (h, H, A, H+) pattern entry by entry with masses and rho_f taken at their own "
         "Higgs mass. A sign, index, conjugation or convention slip confined to e.g. negative M1 or to "
         "generation-off-diagonal couplings breaks the identity for all inputs at once. Later in the session: M4 (operations that rewrite inputs of the chi0/chi+-/smuon/sneutrino mass matrices recompute those sectors), T4 (no run-time initialised static in the one-loop units), special cases for vanishing couplings must equal the general formula at that point.",
    note=TRUST + "NOT decided: the numerical agreement to 1e-8 with an independently diagonalised evaluation -- it "
         "rests on the eigen-solvers (C12, not applicable) and on the loop functions (C01); the decomposition contracts "
         "are taken from the documentation of gm2_linalg.hpp. The specification itself is part of the trusted base "
         "(printed in rules_c03.py).",
    ref="3 C03 (as built: 10.6)")

CLAIMED["C12"] = dict(
    category="other",
    technique="abstract interpretation of the decomposition wrappers in a domain of matrix words (symbolic unitary "
              "factors from the Eigen solvers taken as axioms, permutation matrices, diagonal matrices diag(f(x))): "
              "interprocedural over the typed AST of every instantiation the models call; word normalisation by "
              "cancellation of inverse pairs; scalar identities by sign case analysis",
    text="Decides the structural clause of C12 only: given Eigen's documented solver contracts (JacobiSVD: A = U S V^H, "
         "S >= 0 descending; SelfAdjointEigenSolver: A = Z W Z^H, W ascending) the post-processing in gm2_linalg.hpp -- "
         "reversal, permutation by a sorted index vector, transposition in place, (z p)^H, the phase matrix for negative "
         "eigenvalues, abs -- delivers, for every input matrix, factors whose documented product m = u^T diag(s) v / "
         "u^T diag(s) u / z^dagger diag(w) z reduces identically to the input, that are products of unitary factors, with "
         "non-negative values where documented and in the documented order (ascending, |w| for the hermitian routine), for "
         "each of the instantiations called by the MSSM and THDM classes; and the models use only these routines. (R6) Error bounds: every value stored through an *_errbd pointer is a product of positive constants and non-negative norms, and disna clamps all reciprocal condition numbers from below by a positive threshold, so the bounds are non-negative and finite also for degenerate spectra.",
    note=TRUST + "NOT decided: that Eigen's iterative/closed-form solvers meet their contracts in floating point "
         "(accuracy, exactly degenerate, rank-deficient, hierarchical matrices) and the size of the error bounds -- these are "
         "numerical. Of the error bounds only the sign and the positivity of their divisors are decided (R6). The complex-symmetric Takagi variant (matrix square "
         "root) is not instantiated by the models and is not analysed.",
    ref="10.6")

NOT_APPLICABLE = {
}
PENDING = "check not built yet (work in progress; see DESIGN.md section 7)"


def main():
    ids = [json.loads(l)["id"] for l in open(os.path.join(VERIF, "properties.jsonl"))]
    checks = []
    na = []
    for i in ids:
        if i in CLAIMED:
            c = CLAIMED[i]
            checks.append(dict(
                property_id=i,
                quick_cmd="./check %s --tier quick" % i,
                thorough_cmd="./check %s --tier thorough" % i,
                evidence_file="/verif/evidence/%s.json" % i,
                replay_cmd_template="./check %s --explain {path}" % i,
                engine="gm2verif",
                level_claimed=dict(category=c["category"], text=c["text"], design_ref="DESIGN.md " + c["ref"]),
                level_note=c["note"],
                technique=c["technique"]))
        else:
            na.append(dict(property_id=i, reason=NOT_APPLICABLE.get(i, PENDING)))
    m = dict(
        version=1,
        setup_cmd="./setup.sh",
        hooks=dict(guard="GM2CALC_VERIF",
                   enable="none needed: the checks parse /repo's sources with a clang plugin; no instrumentation",
                   baseline_off_cmd="cmake --build /repo/_build -j16 && ctest --test-dir /repo/_build -j8 --timeout 900",
                   source_commits=[], add_only=True),
        engines=[dict(name="gm2verif", path="/verif/check",
                      serves_properties=sorted(CLAIMED),
                      kind_free_text="custom static analysis: clang-14 frontend plugin (typed AST + CFG facts) and "
                                     "a python rule engine (call graph, throw model, structural control "
                                     "dependence, abstract expression interpretation)")],
        checks=checks,
        notes="Every check decides its property from /repo's current source without running it. exit 0 pass, "
              "exit 1 VIOLATION, exit 2 inconclusive (analysis broken: never a pass, never a violation). "
              "Genuine defects found on the original tree were repaired by `fix:` commits in /repo and are "
              "recorded in /verif/known_findings.json.",
        not_applicable=na)
    with open(os.path.join(VERIF, "MANIFEST.json"), "w") as fh:
        json.dump(m, fh, indent=1)
        fh.write("\n")
    print("MANIFEST: %d checks, %d not applicable" % (len(checks), len(na)))


if __name__ == "__main__":
    main()
