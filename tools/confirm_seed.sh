#!/bin/bash
# confirm a seeded change: tools/confirm_seed.sh <worktree> <outdir/k>
# 1. unchanged: demo must exit 0;  2. changed: builds, full test suite passes, demo exits non-zero
# (sources only are restored: a worktree may carry its own _build)
WT=$1; D=$2
set -u
cd "$WT" || exit 9
restore() { git checkout -q -- src include test examples 2>/dev/null; }
build() { cmake --build _build -j12 >/tmp/confirm_build.log 2>&1; }
restore
if ! build; then
  rm -rf _build; cmake -G Ninja -B _build -DCMAKE_BUILD_TYPE=RelWithDebInfo >/dev/null 2>&1; build || { echo "BASE BUILD FAILED"; exit 9; }
fi
bash "$D/run.sh" "$WT" >/tmp/confirm_base.log 2>&1; base=$?
git apply "$D/patch.diff" || { echo "PATCH DOES NOT APPLY"; exit 9; }
build; b=$?
ctest --test-dir _build -j12 --timeout 900 >/tmp/confirm_ctest.log 2>&1; t=$?
bash "$D/run.sh" "$WT" >/tmp/confirm_changed.log 2>&1; ch=$?
restore
build
echo "base_demo_exit=$base build=$b ctest=$t changed_demo_exit=$ch  $(tail -1 /tmp/confirm_ctest.log)"
