#!/bin/bash
# confirm a seeded change: tools/confirm_seed.sh <worktree> <outdir/k>
# 1. unchanged: demo must exit 0;  2. changed: builds, full test suite passes, demo exits non-zero
WT=$1; D=$2
set -u
cd "$WT" || exit 9
git checkout -q -- . ; 
cmake --build _build -j12 >/dev/null 2>&1 || { echo "BASE BUILD FAILED"; exit 9; }
bash "$D/run.sh" "$WT" >/tmp/confirm_base.log 2>&1; base=$?
git apply "$D/patch.diff" || { echo "PATCH DOES NOT APPLY"; exit 9; }
cmake --build _build -j12 >/tmp/confirm_build.log 2>&1; b=$?
ctest --test-dir _build -j12 --timeout 900 >/tmp/confirm_ctest.log 2>&1; t=$?
bash "$D/run.sh" "$WT" >/tmp/confirm_changed.log 2>&1; ch=$?
git checkout -q -- .
cmake --build _build -j12 >/dev/null 2>&1
echo "base_demo_exit=$base build=$b ctest=$t changed_demo_exit=$ch  $(tail -1 /tmp/confirm_ctest.log)"
