#!/usr/bin/env python3
"""print the prompt given to a fresh sub-agent that produces behaviour-preserving refactorings of one area
usage: tools/refactor_prompt.py <tag> <n> <file> [<file> ...]   (worktree /tmp/refac/<tag>, output /tmp/refac/<tag>_out)"""
import sys
tag, n, files = sys.argv[1], int(sys.argv[2]), sys.argv[3:]
wt = "/tmp/refac/%s" % tag
out = "/tmp/refac/%s_out" % tag
print(f"""You are helping to evaluate code-analysis tooling for the open-source C++ project GM2Calc (a library and CLI that
computes MSSM and 2HDM contributions to the muon anomalous magnetic moment from SLHA input).

You have your own scratch git worktree of the repository at {wt} (detached HEAD). Work ONLY inside {wt} and write
your results to {out}. Do not read or touch /repo, /verif or any other directory. There is no network.

Your task: produce {n} DIFFERENT, independent, realistic BEHAVIOUR-PRESERVING refactorings of the code in these files
(and, where a refactoring naturally needs it, the headers/files they share code with):
   {' '.join(files)}
A behaviour-preserving refactoring is the kind of clean-up a maintainer would really commit: extracting a helper function or
lambda, inlining a helper, renaming locals/parameters/private members, introducing or removing const locals, reordering
independent statements or switch cases, rewriting if/else chains as early returns or as switch (or back), replacing a
hand-written loop by a standard algorithm or an Eigen expression (or the reverse), splitting a long function, merging duplicated
code of sibling functions into one shared (possibly templated) helper, replacing macros by inline functions, changing
x*x to sqr(x), pow(x,2) to x*x, rewriting a polynomial in Horner form or expanded form with mathematically identical
exact coefficients, moving a function to another file, replacing a ternary by if/else, changing the loop index type,
using structured initialisation, using auto, range-based for, std::array instead of C arrays, and so on.
Each refactoring must leave the observable behaviour of the library and of the program EXACTLY as it is for every input
(same results -- floating-point results may differ at most by rounding in the last few bits --, same errors, same warnings,
same output text, same exit codes, same exception-safety of the C interface, same thread-safety). Do NOT fix bugs, do
NOT change tolerances, thresholds, coefficients, messages or semantics, do NOT add caching or global state.
Make the {n} refactorings differ in kind and location; each should touch a substantial piece of logic (not just
comments/whitespace): aim for 10-60 changed lines each. Only change files under src/ or include/.

How to build and test (use -j4: other jobs share this machine):
  cd {wt} && cmake -G Ninja -B _build -DCMAKE_BUILD_TYPE=RelWithDebInfo >/dev/null && cmake --build _build -j4 2>&1 | tail -3
  ctest --test-dir _build -j4 --timeout 900 2>&1 | tail -5        # all 28 ctest entries must pass
Program: _build/bin/gm2calc.x ; example inputs: input/example.slha, input/example.gm2, input/example.thdm (usage:
_build/bin/gm2calc.x --slha-input-file=F, --gm2calc-input-file=F, --thdm-input-file=F).

Before the first refactoring, build the unchanged tree and save the program's output (stdout+stderr+exit code) for the three
example inputs (and a handful of variations of them that you craft, e.g. other GM2CalcConfig settings, an invalid value)
as reference. For each refactoring k = 1..{n}:
  1. Start from a clean tree (git -C {wt} checkout -- . ), make the change, rebuild, run the full test suite (must pass) and
     confirm that the program's outputs for your reference inputs are unchanged (numbers may differ in the last printed digit at most).
  2. Save into {out}/k/ : patch.diff (output of `git -C {wt} diff`) and meta.json with keys: summary (what was refactored
     and why behaviour is preserved), kind (e.g. "extract-helper", "loop-to-algorithm", "rename", ...), files_changed,
     tests_passed (true/false as you observed), outputs_identical (true/false).
  3. Restore the tree (git -C {wt} checkout -- .).
At the end leave the worktree clean of source changes (keep _build). In your final answer list the {n} refactorings in one line each.""")
