#include "gm2calc/MSSMNoFV_onshell.hpp"
#include "gm2_slha_io.hpp"
#include <iostream>
#include <fstream>
#include <cmath>
int main(int argc,char**argv){
  gm2calc::MSSMNoFV_onshell model; gm2calc::GM2_slha_io io; io.read_from_source(argv[1]); io.fill_slha(model);
  double prec = argc>2? atof(argv[2]):1e-8;
  model.convert_to_onshell(prec, 1000);
  auto MSm=model.get_MSm(); auto pole=model.get_physical().MSm;
  std::cout.precision(17);
  std::cout<<"MSm="<<MSm.transpose()<<" pole="<<pole.transpose()<<"\n";
  std::cout<<"warn="<<model.get_problems().have_warning()<<" "<<model.get_problems().get_warnings()<<"\n";
  for(int i=0;i<2;i++) for(int j=0;j<2;j++) std::cout<<" rel("<<i<<","<<j<<")="<<std::abs(MSm(i)-pole(j))/pole(j);
  std::cout<<"\nMSvm "<<model.get_MSvmL()<<" pole "<<model.get_physical().MSvmL<<"\n";
}
