#!/bin/sh
# replay of the C05 known finding (R10): needs /repo/_build/lib/libgm2calc.a (cmake --build /repo/_build)
d=$(mktemp -d); trap 'rm -rf $d' EXIT
g++ -std=c++14 -O1 -I /repo/include -I /repo/src -I /usr/include/eigen3 "$(dirname "$0")/demo.cpp" /repo/_build/lib/libgm2calc.a -o $d/demo && $d/demo /repo/input/example.slha 1e-8
