#!/bin/sh
# replay of the C01 defect fixed by d2cf9c5 (Cl2 near its zeros / large arguments); reference: mpmath clsin(2, x), 60 digits
d=$(mktemp -d); trap 'rm -rf $d' EXIT
g++ -std=c++14 -O1 -I /repo/include -I /repo/src -I /usr/include/eigen3 "$(dirname "$0")/demo.cpp" /repo/_build/lib/libgm2calc.a -o $d/demo || exit 2
python3-vt - "$d/demo" <<'PY'
import mpmath as mp, subprocess, sys, random, struct
mp.mp.dps = 60
random.seed(3)
pi = float(mp.pi)
xs = [random.uniform(1e-3, 6.283) for _ in range(1500)] + [random.uniform(6.283, 1000) for _ in range(400)] + [random.uniform(1e3, 1e9) for _ in range(200)]
for d in (1e-3, 1e-5, 1e-8, 1e-11, 1e-14):
    for m in (1, 2, 3, 4, 100):
        xs += [m*pi*(1-d), m*pi*(1+d)]
xs += [3.1415926, 6.2831853, 1e6, pi, 2*pi]
out = subprocess.run([sys.argv[1]], input="\n".join("%.17g" % x for x in xs), capture_output=True, text=True).stdout
bad = 0
for l in out.splitlines():
    x, v = l.split(); ref = mp.clsin(2, mp.mpf(float(x)))
    if ref != 0 and not (abs(mp.mpf(float(v)) - ref)/abs(ref) <= 1e-13):
        bad += 1
print("points with relative error above 1e-13: %d of %d" % (bad, len(xs)))
sys.exit(1 if bad else 0)
PY
