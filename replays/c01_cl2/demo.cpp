#include "gm2_dilog.hpp"
#include <cstdio>
#include <cstdlib>
int main(int argc,char**argv){ double x; while(scanf("%lf",&x)==1) printf("%.17g %.17g\n", x, gm2calc::clausen_2(x)); }
