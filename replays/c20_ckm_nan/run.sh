#!/bin/sh
# replay of the C20 defect (NaN CKM matrix for admissible Wolfenstein parameters); exit 1 / "NOT UNITARY" before the fix
d=$(mktemp -d); trap 'rm -rf $d' EXIT
g++ -std=c++14 -O1 -I /repo/include -I /repo/src -I /usr/include/eigen3 "$(dirname "$0")/demo.cpp" /repo/_build/lib/libgm2calc.a -o $d/demo && $d/demo
