#include "gm2calc/SM.hpp"
#include <iostream>
#include <cmath>
int main(){
  int bad=0;
  const double pts[][4]={{0.9,1,1,1},{0.22535,0.811,0.131,0.345},{1,1,1,1},{0.95,1,0.9,0.9},{-0.9,-1,1,-1},{0.99,0.99,0.7,0.7}};
  for (auto& p: pts){
    gm2calc::SM sm;
    try { sm.set_ckm_from_wolfenstein(p[0],p[1],p[2],p[3]); }
    catch (const std::exception& e){ std::cout<<"("<<p[0]<<","<<p[1]<<","<<p[2]<<","<<p[3]<<") rejected: "<<e.what()<<"\n"; continue; }
    auto V=sm.get_ckm(); double dev=(V*V.adjoint()-Eigen::Matrix<std::complex<double>,3,3>::Identity()).cwiseAbs().maxCoeff();
    bool ok = std::isfinite(dev) && dev<1e-14; if(!ok) bad++;
    std::cout<<"("<<p[0]<<","<<p[1]<<","<<p[2]<<","<<p[3]<<") |VV^+-1|="<<dev<<(ok?"":"   <-- NOT UNITARY")<<"\n";
  }
  return bad?1:0;
}
