#!/bin/sh
# replay of the C20 defects fixed by b284e9a / f6c6970: running mb NaN for alpha_s(MZ) >= ~0.23; MSSM a_mu NaN with exit 0
d=$(mktemp -d); trap 'rm -rf $d' EXIT
g++ -std=c++14 -O1 -I /repo/include -I /repo/src -I /usr/include/eigen3 "$(dirname "$0")/demo.cpp" /repo/_build/lib/libgm2calc.a -o $d/demo && $d/demo 2>/dev/null | tail -3
/repo/_build/bin/gm2calc.x --slha-input-file="$(dirname "$0")/as025.slha" 2>/dev/null | tail -3
