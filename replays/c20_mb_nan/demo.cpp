#include "gm2_mf.hpp"
#include <iostream>
#include <cmath>
int main(){
  int bad=0; 
  for (double as=0.05; as<=0.3001; as+=0.005) for (double mb : {2.0,3.0,4.18,5.0,6.0}) for (double Q : {1.0, 91.0, 1000.0, 1e6}) {
    double m = gm2calc::calculate_mb_SM6_MSbar(mb, 173.34, as, 91.1876, Q);
    bool ok = std::isfinite(m) && m>0; if(!ok) {bad++; std::cout<<"as="<<as<<" mb="<<mb<<" Q="<<Q<<" mb(Q)="<<m<<"  <-- BAD\n";}
  }
  std::cout<<"bad="<<bad<<"\n"; return bad?1:0;
}
