#include "gm2calc/THDM.hpp"
#include "gm2calc/gm2_2loop.hpp"
#include "gm2calc/gm2_1loop.hpp"
#include <iostream>
#include <cmath>
int main(){
  int bad=0;
  for (double sba : {0.3, -0.2, 0.995, -0.7, 0.0, 1.0, -1.0, 0.6}) for (double tb : {3.0, 2.0, 0.5, 20.}) {
  gm2calc::thdm::Mass_basis basis;
  basis.yukawa_type = gm2calc::thdm::Yukawa_type::type_2;
  basis.mh = 125; basis.mH = 400; basis.mA = 420; basis.mHp = 440;
  basis.sin_beta_minus_alpha = sba; basis.lambda_6 = 0; basis.lambda_7 = 0; basis.tan_beta = tb; basis.m122 = 40000;
  gm2calc::SM sm; 
  gm2calc::THDM model(basis, sm);
  double got = model.get_sin_beta_minus_alpha();
  double cba = model.get_cos_beta_minus_alpha();
  bool ok = std::abs(got - sba) < 1e-9 && cba >= -1e-12;
  if(!ok) bad++;
  std::cout << "sba_in="<<sba<<" tb="<<tb<<" sba_out="<<got<<" cba="<<cba<<" ZH10="<<model.get_ZH()(1,0)<<" ZH11="<<model.get_ZH()(1,1)<<" a2L="<<gm2calc::calculate_amu_2loop(model)<<(ok?"":"   <-- WRONG")<<"\n";
  }
  return bad?1:0;
}
