#!/bin/sh
# replay of the C08 defect fixed by 710116a: prints "<-- WRONG" where the reported sin(beta-alpha) differs from the input
d=$(mktemp -d); trap 'rm -rf $d' EXIT
g++ -std=c++14 -O1 -I /repo/include -I /repo/src -I /usr/include/eigen3 "$(dirname "$0")/demo.cpp" /repo/_build/lib/libgm2calc.a -o $d/demo && $d/demo
