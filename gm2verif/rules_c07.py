"""C07 -- MSSM contributions decouple like 1/M_SUSY^2 (necessary condition: dimensional homogeneity)."""
import re
from fractions import Fraction

from .terms import Evaluator, show, subterms
from .domains import units, UnitFail, ANY
from .extract import AnalysisBroken

PID = "C07"
LEVEL = "other"

FILES = ("src/MSSMNoFV/gm2_1loop.cpp", "src/MSSMNoFV/gm2_2loop.cpp", "src/MSSMNoFV/gm2_uncertainty.cpp")
RESULT_DIM = {"log_scale": Fraction(1)}          # everything else is dimensionless
LOOPFN = re.compile(r"^gm2calc::(\(anonymous namespace\)::)?(Fa|Fb|Ixyz|F1C|F2C|F3C|F4C|F1N|F2N|F3N|F4N|G3|G4|f_PS|f_S|"
                    r"f_sferm|dilog)$")


def check_units(F, R, rule, files, result_dim, loopfn, skip=()):
    E = Evaluator(F, inline=lambda n, g: not loopfn.match(n), max_depth=14)
    n = 0
    for k, f in sorted(F.functions.items(), key=lambda x: (x[1]["file"], x[1]["line"])):
        if f["file"] not in files or (f.get("method") or {}).get("lambda"):
            continue
        short = f["name"].split("::")[-1]
        if short in skip:
            continue
        inst = "%s(%s)" % (short, ", ".join(p["name"] or "_" for p in f["params"]))
        v, fr = E.function_value(f)
        pd = {p["name"]: Fraction(0) for p in f["params"] if p["t"] in ("double", "int")}
        pd.update(result_dim.get(("params", short), {}))
        want = result_dim.get(short, Fraction(0))
        # a file-local helper without declared parameter dimensions (e.g. the shared body of two sibling functions) is typed
        # where it is used: its callers are folded with the helper inlined and the actual arguments' dimensions
        local_helper = "(anonymous namespace)" in f["name"] and ("params", short) not in result_dim and short not in result_dim \
            and F.callers.get(k)
        if local_helper:
            continue
        try:
            d = units(v, pd)
        except UnitFail as ex:
            R.fail(rule, inst, F.loc(f), "%s: %s" % (ex, show(ex.term)[:140]), key="%s|%s|mismatch" % (rule, inst))
            n += 1
            continue
        if v[0] in ("void",):
            continue
        if d is None:
            unk = [show(x)[:80] for x in subterms(v) if x and x[0] in ("unknown",)]
            R.soft_broken("%s: %s: dimension cannot be inferred (%s)" % (rule, inst, "; ".join(unk[:2]) or "unmodelled call"))
            continue
        n += 1
        if "(anonymous namespace)" in f["name"] and short not in result_dim and F.callers.get(k):
            # a file-local helper may return a dimensionful intermediate (a mass scale): its body is consistent, and what the
            # result is used for is typed in the callers, which are folded with the helper inlined
            R.ok(rule, inst + " : GeV^%s (file-local helper, result typed at the call sites)" % d, F.loc(f))
            continue
        R.check(rule, d == want or d == ANY, inst + " : GeV^%s" % d, F.loc(f),
                "result has mass dimension %s, expected %s" % (d, want), key="%s|%s|result" % (rule, inst))
    return n


def run(F, R, tier):
    R.explanation = (
        "Units-of-measure inference over every function of the MSSM one-loop, two-loop and uncertainty files: "
        "the body is folded into a term (getters inlined down to the stored parameters, Eigen expressions "
        "included) and typed with mass dimensions seeded at the parameters (GeV: masses, mu, M_i, A_f, vevs, "
        "scale; GeV^2: soft m^2, B mu; GeV^0: couplings, mixings). Sums, comparisons and min/max need equal "
        "dimensions, transcendental and loop functions need dimensionless arguments, Iabc is homogeneous of "
        "degree -2. Every a_mu, Delta and coupling must come out dimensionless, log_scale as GeV^1. "
        "Dimensionless results built from m_mu^2/M^2 prefactors and dimensionless loop-function arguments are "
        "what makes the 1/k^2 law possible: a mass in place of a squared mass, a missing 1/m^2 or a logarithm "
        "of a dimensionful quantity is a unit error.")
    R.assumptions = ["unit seeds of the stored parameters (domains.GEV1_FIELDS / GEV2_FIELDS / GEV0_FIELDS)"]
    R.undecided = ["the size of the O(MZ^2/M_SUSY^2) corrections and logarithms (numerical); the rule proves "
                   "homogeneity under a joint rescaling of all dimensionful quantities incl. SM masses"]
    R.rule("U", "every function of the MSSM a_mu code is dimensionally consistent and has the declared result "
                "dimension (dimensionless; log_scale: GeV)", 55)
    check_units(F, R, "U", FILES, RESULT_DIM, LOOPFN)
    R.guard(_pole_slots, F, R)
    R.guard(_tan_alpha, F, R)
    # uncertainty floor (shared with C18-U2): the constant floor is what the 2-loop uncertainty decays to
    from .domains import lower_bound
    R.rule("F", "two-loop uncertainty = constant floor 2.3e-10 + terms proportional to |2L(a)| contributions", 1)
    f = [g for g in F.fns("gm2calc::calculate_uncertainty_amu_2loop") if "MSSMNoFV" in (g["params"][0]["t"] or "")][0]
    E = Evaluator(F, inline=lambda n, g: not re.match(r"^gm2calc::amu2La", n))
    v, fr = E.function_value(f)
    from .poly import to_rat, NotPolynomial
    why = []
    lbv = lower_bound(v, why=why)
    try:
        r = to_rat(v)
        const = r.n.t.get((), Fraction(0)) / r.d.const_value() if r.d.is_const() else None
        # every other monomial contains |2L(a)| contributions only: atoms abs(amu2La...(model))
        rest_ok = r.d.is_const() and all(
            m == () or all(a[0] == "call" and a[1] == "abs" and re.match(r"^amu2La\w+\(", show(a[2][0])) for a, e in m)
            for m in r.n.t)
        pos_ok = all(c > 0 for c in r.n.t.values())
    except NotPolynomial:
        const, rest_ok, pos_ok = None, False, False
    ok = const is not None and const > 0 and lbv == const and rest_ok and pos_ok
    R.check("F", ok, "uncertainty_2loop = %s: lower bound %s = constant term, the rest vanishes with the 2L(a) terms" % (show(v)[:70], lbv),
            F.loc(f), "the two-loop uncertainty is no longer `positive floor + positive multiples of |2L(a)| contributions` "
            "(constant term %s, provable lower bound %s)" % (const, lbv), key="F|floor")



def _pole_slots(F, R):
    """W: the a_mu formulas read only those slots of the pole-mass structure `physical` that the model
    refreshes unconditionally (SM inputs in the constructor, MAh/Mhh in calculate_masses).  The SUSY slots are
    filled by copy_susy_masses_to_pole only while they are still zero: on a model that is set to a second (e.g.
    rescaled) parameter point they keep the first point's masses, so a formula reading them cannot scale."""
    from .facts import walk
    from .structure import Struct
    from .render import render
    R.rule("W", "pole-mass slots read by the a_mu code are refreshed unconditionally by the model (never the fill-only-if-"
                "empty SUSY slots of copy_susy_masses_to_pole)", 5)
    stale, fresh = set(), set()
    for k, f in F.functions.items():
        if f["file"] != "src/MSSMNoFV/MSSMNoFV_onshell.cpp":
            continue
        S = None
        for n in walk(f["body"]):
            if n.get("k") in ("BinaryOperator", "CXXOperatorCallExpr") and n.get("op") == "=":
                lhs = render(n["c"][0] if n["k"] == "BinaryOperator" else n["c"][1], f, resolve_locals=False)
                if "get_physical()." not in lhs:
                    continue
                S = S or Struct(f)
                gs = [render(g[0], f, resolve_locals=False) for g in S.guards(n) if g[0] != "switch"]
                fld = re.split(r"[^A-Za-z0-9_]", lhs.split("get_physical().")[-1])[0]
                if any("is_zero" in g and "get_physical()" in g for g in gs):
                    stale.add(fld)
                else:
                    fresh.add(fld)
    fresh -= stale
    if len(stale) < 10 or len(fresh) < 7:
        raise AnalysisBroken("pole-mass slot classification found too few slots (stale %d, fresh %d)" % (len(stale), len(fresh)))
    E = Evaluator(F, inline=lambda n, g: not LOOPFN.match(n), max_depth=14)
    reads = {}
    for k, f in sorted(F.functions.items(), key=lambda x: (x[1]["file"], x[1]["line"])):
        if f["file"] not in FILES or (f.get("method") or {}).get("lambda"):
            continue
        v, fr = E.function_value(f)
        for x in subterms(v):
            if isinstance(x, tuple) and len(x) == 3 and x[0] == "field" and isinstance(x[1], tuple) and x[1][0] == "field" \
                    and x[1][2] == "physical":
                reads.setdefault(x[2], []).append(f)
    for fld, fs in sorted(reads.items()):
        f = fs[0]
        R.check("W", fld in fresh, "physical.%s (read by %d functions, e.g. %s) is refreshed unconditionally"
                % (fld, len(fs), f["name"].split("::")[-1]), F.loc(f),
                "%s reads the pole-mass slot physical.%s, which %s: on a re-used model it keeps the value of an earlier "
                "parameter point and does not scale with the SUSY parameters"
                % (f["name"].split("::")[-1], fld, "copy_susy_masses_to_pole fills only while it is zero" if fld in stale
                   else "no function of MSSMNoFV_onshell.cpp assigns"), key="W|" + fld)
    R.analysed["pole_slots"] = {"fresh": sorted(fresh), "fill_if_empty": sorted(stale)}


def _tan_alpha(F, R):
    """TA: tan(alpha) of the 2L(a) couplings is the negative root of the tree-level relation
    tan(2 alpha) = tan(2 beta) (MA^2 + MZ^2)/(MA^2 - MZ^2).  Every value the function can return satisfies
    (t + 1/T)^2 = 1/T^2 + 1 identically (sqrt(X)^2 -> X), or -- for a branch selected by `c*a < b` with a numeric c > 1,
    i.e. a shortcut for a/b -> 0 -- in the limit a -> 0.  A shortcut that returns another limit makes the Higgs
    couplings of the heavy-MA regime wrong, and with them the decoupling behaviour of 2L(a) and of the uncertainty."""
    from .rules_c01 import hoist_ites, leaves
    from .poly import Poly, Rat, to_rat, NotPolynomial
    R.rule("TA", "tan_alpha returns, on every path, the negative root of tan(2 alpha) = tan(2 beta) (MA^2 + MZ^2)/(MA^2 - MZ^2): "
                 "polynomial identity after sqrt(X)^2 -> X; a branch selected by a large-ratio test must satisfy it in that limit", 1)
    f = F.fn("gm2calc::tan_alpha")
    E = Evaluator(F, inline=lambda n, g: g.get("file") == f["file"] and g is not f and not g.get("externC"))
    v, fr = E.function_value(f)

    def unsqr(t):
        """sqr(x) -> x*x, so that the polynomial domain sees through the helper"""
        if not isinstance(t, tuple):
            return t
        if t and t[0] == "call" and str(t[1]).split("::")[-1] == "sqr" and len(t[2]) == 1:
            x = unsqr(t[2][0])
            return ("*", x, x)
        return tuple(unsqr(x) for x in t)
    v = unsqr(v)

    def find_atom(stem):
        for x in subterms(v):
            if isinstance(x, tuple) and x and x[0] == "call" and str(x[1]).split("::")[-1] == stem:
                return x
        return None
    tb, ma, mz = find_atom("get_TB"), find_atom("get_MA0"), find_atom("get_MZ")
    if tb is None or ma is None or mz is None:
        R.broken("TA: tan_alpha no longer reads get_TB / get_MA0 / get_MZ")
        return
    TB, MA, MZ = to_rat(tb), to_rat(ma), to_rat(mz)
    one = Rat(Poly.const(1))
    T = (Rat(Poly.const(2)) * TB / (one - TB * TB)) * (MA * MA + MZ * MZ) / (MA * MA - MZ * MZ)

    def reduce_sqrt(r):
        """replace even powers of sqrt atoms by their radicands in the numerator"""
        n = r.n
        for _ in range(6):
            sq = [a for a in n.atoms() if isinstance(a, tuple) and a and a[0] == "call" and str(a[1]).split("::")[-1] == "sqrt"]
            sq = [a for a in sq if n.degree_in(a) >= 2]
            if not sq:
                break
            a = sq[0]
            X = to_rat(a[2][0])
            acc = Rat(Poly())
            for e in range(n.degree_in(a) + 1):
                c = n.coeff_of(a, e)
                if c.is_zero():
                    continue
                term = Rat(c)
                for _k in range(e // 2):
                    term = term * X
                if e % 2:
                    term = term * Rat(Poly.atom(a))
                acc = acc + term
            r = acc / Rat(r.d)
            n = r.n
        return r

    lv = leaves(hoist_ites(v))
    for fa, val in lv:
        inst = "tan_alpha branch [%s]" % ("; ".join(("" if pol else "NOT ") + show(c)[:60] for c, pol in fa) or "generic")
        try:
            t = to_rat(val)
            res = reduce_sqrt((t + one / T) * (t + one / T) - one / (T * T) - one)
        except NotPolynomial as ex:
            R.soft_broken("TA: %s: %s" % (inst, ex))
            continue
        if res.n.is_zero():
            # which root: if the value is -1/T -+ sqrt(1/T^2 + 1) literally, the sign in front of the root must be minus
            r2 = t + one / T
            sq = [a for a in r2.n.atoms() if isinstance(a, tuple) and a and a[0] == "call" and str(a[1]).split("::")[-1] == "sqrt"]
            if len(sq) == 1 and r2.n.degree_in(sq[0]) == 1:
                X = to_rat(sq[0][2][0])
                if (X - one / (T * T) - one).n.is_zero():
                    S = Rat(Poly.atom(sq[0]))
                    if (r2 - S).n.is_zero():
                        R.fail("TA", inst, F.loc(f), "tan_alpha returns the positive root -1/T + sqrt(1/T^2 + 1); the light CP-even "
                               "Higgs of the MSSM has alpha in (-pi/2, 0), i.e. the negative root", key="TA|root")
                        continue
            R.ok("TA", inst, F.loc(f), detail="identity")
            continue
        # a shortcut branch: c * a < b  (a/b small)
        small = None
        for c, pol in fa:
            if isinstance(c, tuple) and len(c) == 4 and c[0] == "cmp" and c[1] in ("<", "<=", ">", ">=") and pol:
                l, r_ = (c[2], c[3]) if c[1] in ("<", "<=") else (c[3], c[2])
                if isinstance(l, tuple) and l[0] == "*" and any(isinstance(q, tuple) and q[0] == "num" and abs(float(q[1])) > 1 for q in (l[1], l[2])):
                    a_ = l[2] if (isinstance(l[1], tuple) and l[1][0] == "num") else l[1]
                    small = a_
        if small is not None:
            try:
                sa = [a for a in to_rat(small).n.atoms()]
                lim = res
                for a in sa:
                    lim = Rat(lim.n.subs({a: Poly()}), lim.d.subs({a: Poly()}))
                lim = reduce_sqrt(lim)
                if not lim.d.is_zero() and lim.n.is_zero():
                    R.ok("TA", inst, F.loc(f), detail="identity in the limit %s -> 0" % show(small))
                    continue
            except NotPolynomial:
                pass
        R.fail("TA", inst, F.loc(f), "the returned value %s does not satisfy tan(2 alpha) = tan(2 beta) (MA^2 + MZ^2)/(MA^2 - MZ^2)%s: "
               "the CP-even mixing angle of this branch is not the MSSM tree-level one" % (show(val)[:80], " even in the limit of its guard" if small is not None else ""),
               key="TA|%s" % (show(fa[0][0])[:40] if fa else "generic"))
