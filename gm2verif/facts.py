"""E2: fact base over the plugin output -- functions, records, enums, globals,
call graph, tree helpers.  Pure data handling; nothing from /repo is run."""
import json
import os
from collections import defaultdict

from . import extract as X

CALL_KINDS = {"CallExpr", "CXXMemberCallExpr", "CXXOperatorCallExpr",
              "CXXConstructExpr", "CXXTemporaryObjectExpr", "UserDefinedLiteral"}
WRAPPERS = {"ImplicitCastExpr", "ParenExpr", "ExprWithCleanups", "MaterializeTemporaryExpr",
            "CXXBindTemporaryExpr", "ConstantExpr", "SubstNonTypeTemplateParmExpr",
            "FullExpr"}
NAMED_CHILD_KEYS = ("init", "condvar", "cond", "then", "else", "inc", "body", "lhs", "sub",
                    "rangeinit")


def kids(n):
    """child nodes of a tree node, in source order"""
    if n is None:
        return
    k = n.get("k")
    if k == "DeclStmt":
        for d in n.get("decls", ()):
            if "init" in d:
                yield d["init"]
        return
    if k == "CXXForRangeStmt":
        if "rangeinit" in n:
            yield n["rangeinit"]
        if "body" in n:
            yield n["body"]
        return
    if k == "DoStmt":
        if "body" in n:
            yield n["body"]
        if "cond" in n:
            yield n["cond"]
        return
    for key in NAMED_CHILD_KEYS:
        c = n.get(key)
        if isinstance(c, dict):
            yield c
    for c in n.get("c", ()):
        if c is not None:
            yield c


def walk(n, skip_lambdas=True):
    """pre-order traversal (lambda bodies are separate functions and are not entered)"""
    stack = [n]
    while stack:
        x = stack.pop()
        if x is None:
            continue
        yield x
        ch = list(kids(x))
        stack.extend(reversed(ch))


def strip(n):
    """peel value-preserving wrappers"""
    while n is not None:
        k = n.get("k")
        if k in WRAPPERS and n.get("c"):
            if k == "ImplicitCastExpr" and n.get("ck") not in (
                    "LValueToRValue", "NoOp", "FunctionToPointerDecay", "ArrayToPointerDecay",
                    "DerivedToBase", "UncheckedDerivedToBase", "ConstructorConversion",
                    "UserDefinedConversion"):
                return n
            n = n["c"][0]
            continue
        if k == "CXXFunctionalCastExpr" and n.get("ck") in ("NoOp", "ConstructorConversion") and n.get("c"):
            n = n["c"][0]
            continue
        return n
    return n


def strip_all(n):
    """peel wrappers including all implicit casts (value-changing ones too)"""
    while n is not None:
        k = n.get("k")
        if (k in WRAPPERS or k == "ImplicitCastExpr") and n.get("c"):
            n = n["c"][0]
            continue
        return n
    return n


def in_macro(n, name):
    """node stems from an expansion of macro `name` (directly or nested in another macro)"""
    return n.get("m") == name or name in n.get("mc", ())


def is_call(n):
    return n.get("k") in CALL_KINDS


def call_args(n):
    """argument nodes of a call-like node (for member calls: without the object;
    for operator calls: all operands, object first)"""
    k = n.get("k")
    c = n.get("c", [])
    if k in ("CXXConstructExpr", "CXXTemporaryObjectExpr"):
        return list(c)
    if k == "CXXOperatorCallExpr":
        return list(c[1:])
    return list(c[1:])


def call_object(n):
    """implicit object expression of a member call, or None"""
    if n.get("k") == "CXXMemberCallExpr" and n.get("c"):
        callee = strip_all(n["c"][0])
        if callee and callee.get("k") == "MemberExpr" and callee.get("c"):
            return callee["c"][0]
    return None


class Facts:
    def __init__(self, repo=None, tus=None, outdir=None):
        self.repo = repo or X.REPO
        lib, prog = X.tu_list(self.repo)
        self.lib_tus, self.prog_tus = lib, prog
        if tus is None:
            tus = lib + prog
        paths = X.extract(self.repo, tus, outdir)
        self.tus = list(tus)
        self.functions = {}          # mangled -> function
        self.by_name = defaultdict(list)
        self.fdecls = {}
        self.records = {}
        self.enums = {}
        self.globals = {}
        self.func_tus = defaultdict(list)
        for tu in tus:
            with open(paths[tu]) as fh:
                d = json.load(fh)
            if "error" in d:
                raise X.AnalysisBroken("compile errors in %s" % tu)
            self._ingest(tu, d)
        if not os.environ.get("GM2_NO_INLINE"):
            from .inline import inline_local_lambdas
            self.inlined = inline_local_lambdas(self.functions)
        self._index()

    # ------------------------------------------------------------------
    def _ingest(self, tu, d):
        types = d["types"]

        def T(i):
            return types[i] if isinstance(i, int) and i >= 0 else None

        def fix(n):
            for x in walk(n):
                if "t" in x:
                    x["t"] = T(x["t"])
                for key in ("wt", "tt", "ct", "at"):
                    if key in x and x[key] is not None:
                        x[key] = T(x[key])
                if x.get("k") == "DeclStmt":
                    for dd in x.get("decls", ()):
                        if "t" in dd:
                            dd["t"] = T(dd["t"])
                if x.get("k") == "CXXForRangeStmt" and "loopvar" in x:
                    lv = x["loopvar"]
                    lv["t"] = T(lv["t"])
                    if "init" in lv:
                        fix(lv["init"])

        for f in d["functions"]:
            key = f["mg"] or f["name"]
            self.func_tus[key].append(tu)
            if key in self.functions:
                continue
            f["ret"] = T(f["ret"])
            if "method" in f and "clsT" in f["method"]:
                f["method"]["clsT"] = T(f["method"]["clsT"])
            for p in f["params"]:
                p["t"] = T(p["t"])
            for ini in f.get("inits", ()):
                if "base" in ini:
                    ini["base"] = T(ini["base"])
                if "init" in ini:
                    fix(ini["init"])
            fix(f["body"])
            f["tu"] = tu
            self.functions[key] = f
        for f in d["fdecls"]:
            key = f["mg"] or f["name"]
            f["ret"] = T(f["ret"])
            for p in f["params"]:
                p["t"] = T(p["t"])
            self.fdecls.setdefault(key, f)
        for r in d["records"]:
            if r["name"] in self.records and r.get("t") is not None and \
                    T(r["t"]) != self.records[r["name"]]["t"]:
                # distinct specialisations share a printed name: key by type
                pass
            r["t"] = T(r["t"])
            for fl in r["fields"]:
                fl["t"] = T(fl["t"])
                if "init" in fl:
                    fix(fl["init"])
            self.records.setdefault(r["t"] or r["name"], r)
        for e in d["enums"]:
            self.enums.setdefault((e["name"], e["file"], e["line"]), e)
        for g in d["globals"]:
            g["t"] = T(g["t"])
            g["tu"] = tu
            self.globals.setdefault((g["name"], g["file"], g["line"]), g)

    def _index(self):
        for key, f in self.functions.items():
            self.by_name[f["name"]].append(f)
        self.global_by_id_name = {}
        for key, g in self.globals.items():
            self.global_by_id_name.setdefault(g["name"], g)
        # call sites
        self.calls = {}
        for key, f in self.functions.items():
            cs = []
            roots = [f["body"]] + [i["init"] for i in f.get("inits", ()) if "init" in i]
            for r in roots:
                for n in walk(r):
                    if is_call(n):
                        cs.append(n)
            self.calls[key] = cs
        self.callers = defaultdict(set)
        for key, cs in self.calls.items():
            for c in cs:
                if c.get("mg"):
                    self.callers[c["mg"]].add(key)
        # helpers whose every use was inlined into their callers (gm2verif/inline.py): their code is analysed there
        cand = {key for key, f in self.functions.items() if f.get("inlined_into") and not self.callers.get(key)
                and not (f.get("method") or {}).get("lambda")}
        if cand:
            for key, f in self.functions.items():
                roots = [f["body"]] + [i["init"] for i in f.get("inits", ()) if "init" in i]
                for r in roots:
                    for n in walk(r):
                        if n.get("k") == "DeclRefExpr" and n.get("rk") == "Func" and n.get("mg") in cand:
                            cand.discard(n["mg"])
        self.superseded = cand
        # class hierarchy
        self.bases = {}
        for t, r in self.records.items():
            self.bases[r["t"] or r["name"]] = list(r.get("bases", ()))

    # ------------------------------------------------------------------
    def fn(self, name):
        """unique function by qualified name (AnalysisBroken if absent/ambiguous)"""
        fs = self.by_name.get(name, [])
        if len(fs) != 1:
            raise X.AnalysisBroken("anchor function %s: %d definitions found" % (name, len(fs)))
        return fs[0]

    def fns(self, name):
        fs = self.by_name.get(name, [])
        if not fs:
            raise X.AnalysisBroken("anchor function %s not found" % name)
        return fs

    def in_lib(self, f):
        return f["tu"] in self.lib_tus or f["file"].startswith("include/") or \
            (f["file"].startswith("src/") and f["file"] != "src/gm2calc.cpp")

    def loc(self, f, n=None):
        if n is not None:
            return "%s:%s" % (f["file"], n.get("l"))
        return "%s:%s" % (f["file"], f["line"])

    def closure(self, roots):
        """call closure (mangled names) over repo-defined functions"""
        seen = set()
        stack = list(roots)
        while stack:
            k = stack.pop()
            if k in seen or k not in self.functions:
                continue
            seen.add(k)
            for c in self.calls[k]:
                mg = c.get("mg")
                if mg and mg not in seen:
                    stack.append(mg)
            # lambdas defined inside
            for n in walk(self.functions[k]["body"]):
                if n.get("k") == "LambdaExpr" and n.get("mg"):
                    stack.append(n["mg"])
        return seen
