"""E5: readers for the repository's own documentation tables (README.md, input/example.*)."""
import os
import re

from .extract import REPO, AnalysisBroken


def readme_text(repo=None):
    with open(os.path.join(repo or REPO, "README.md")) as fh:
        return fh.read()


def config_table(repo=None):
    """GM2CalcConfig table: {entry: (description, possible, default text)}"""
    txt = readme_text(repo)
    rows = {}
    for m in re.finditer(r"^\|\s*(\d+)\s*\|([^|]*)\|([^|]*)\|([^|]*)\|\s*$", txt, re.M):
        rows[int(m.group(1))] = (m.group(2).strip(), m.group(3).strip(), m.group(4).strip())
    if len(rows) < 7:
        raise AnalysisBroken("README: GM2CalcConfig table not found")
    return rows


def output_formats(repo=None):
    """{format number: (block, entry) or 'minimal'/'detailed'} from the GM2CalcConfig[0] description"""
    txt = readme_text(repo)
    out = {}
    for m in re.finditer(r"`(\d)`: write the value of a_mu into `(\w+)` block, entry `(\d+)`", txt):
        out[int(m.group(1))] = (m.group(2), int(m.group(3)))
    for m in re.finditer(r"`(\d)`: (minimal|detailed)", txt):
        out[int(m.group(1))] = m.group(2)
    if len(out) < 5:
        raise AnalysisBroken("README: output format list not found")
    return out


def uncertainty_location(repo=None):
    txt = readme_text(repo)
    m = re.search(r"to `(\w+)\[(\d+)\]`\s+otherwise", txt)
    if not m:
        raise AnalysisBroken("README: uncertainty location not found")
    return m.group(1), int(m.group(2))


def example_blocks(repo=None):
    """fenced/indented example blocks of the README: [(block name, [(keys tuple, value text, comment)])]"""
    txt = readme_text(repo)
    return parse_slha_text(txt)


def parse_slha_text(txt):
    blocks = []
    cur = None
    for line in txt.splitlines():
        s = line.strip()
        m = re.match(r"^Block\s+(\w+)", s, re.I)
        if m and (line.startswith("    ") or line.startswith("Block") or line.startswith("\t")):
            cur = (m.group(1), [])
            blocks.append(cur)
            continue
        if cur is None:
            continue
        if not s or not (line.startswith(" ") or line.startswith("\t")):
            if not s:
                continue
            cur = None
            continue
        body, _, comment = s.partition("#")
        toks = body.split()
        if not toks or not re.match(r"^-?\d+$", toks[0]):
            if toks:
                cur = None
            continue
        keys = []
        for t in toks:
            if re.match(r"^\d+$", t) and len(keys) < 2 and len(toks) - len(keys) > 1:
                keys.append(int(t))
            else:
                break
        val = toks[len(keys)] if len(toks) > len(keys) else None
        cur[1].append((tuple(keys), val, comment.strip()))
    return blocks
