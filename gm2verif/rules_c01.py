"""C01 -- one-variable loop functions equal their definitions; evaluation regimes agree."""
import math
import os
import re
from fractions import Fraction

from .terms import Evaluator, show, subterms
from .poly import Poly, Rat, NotPolynomial, PI
from .extract import AnalysisBroken, REPO
from . import mparse
from .closedform import canon, short, LOG, ARGS, key, diff_term
from .series import taylor, SeriesError, rat_series, asymptotic, LZ
from .rules_c11 import flatten_assumed, know, INLINE_HELPERS

PID = "C01"
LEVEL = "other"

FILE = "src/gm2_ffunctions.cpp"
# C++ name -> name in math/ffunctions.m
NAMES = {"F1C": "F1C", "F2C": "F2C", "F3C": "F3C", "F4C": "F4C", "F1N": "F1N", "F2N": "F2N", "F3N": "F3N", "F4N": "F4N",
         "G3": "G3", "G4": "G4", "f_S": "fS", "f_sferm": "fsferm", "f_CSl": "fCl",
         "F1": "F1", "F1t": "F1t", "F2": "F2", "F3": "F3"}
INTEGRAL = ("F1", "F1t", "F2", "F3")      # defined by the integral representations quoted in ffunctions.m
TAYLOR = ("F1C", "F2C", "F3C", "F4C", "F1N", "F2N", "F3N", "F4N", "G3", "G4")
NEG_NAN = ("f_PS", "f_S", "f_sferm", "f_CSl", "F1", "F2", "F3")
ACC = Fraction(1, 10 ** 7)
EPS = Fraction(1, 2 ** 53)


def hoist_ites(v, budget=8):
    """lift conditional sub-expressions to the top: f(c ? a : b) -> c ? f(a) : f(b) (a `?:` inside an arithmetic
    expression is the same regime split as an if/else around a return); conditions are left untouched"""
    if not isinstance(v, tuple) or not v:
        return v
    h = v[0]
    if h == "ite":
        return ("ite", v[1], hoist_ites(v[2], budget), hoist_ites(v[3], budget))
    if h in ("+", "-", "*", "/"):
        a, b = hoist_ites(v[1], budget), hoist_ites(v[2], budget)
        if isinstance(a, tuple) and a and a[0] == "ite" and budget > 0:
            return ("ite", a[1], hoist_ites((h, a[2], b), budget - 1), hoist_ites((h, a[3], b), budget - 1))
        if isinstance(b, tuple) and b and b[0] == "ite" and budget > 0:
            return ("ite", b[1], hoist_ites((h, a, b[2]), budget - 1), hoist_ites((h, a, b[3]), budget - 1))
        return (h, a, b)
    if h == "neg":
        a = hoist_ites(v[1], budget)
        if isinstance(a, tuple) and a and a[0] == "ite":
            return ("ite", a[1], ("neg", a[2]), ("neg", a[3]))
        return ("neg", a)
    if h == "call" and len(v) == 3:
        args = [hoist_ites(a, budget) for a in v[2]]
        for i, a in enumerate(args):
            if isinstance(a, tuple) and a and a[0] == "ite" and budget > 0:
                l = tuple(args[:i]) + (a[2],) + tuple(args[i + 1:])
                r = tuple(args[:i]) + (a[3],) + tuple(args[i + 1:])
                return ("ite", a[1], hoist_ites(("call", v[1], l), budget - 1), hoist_ites(("call", v[1], r), budget - 1))
        return ("call", v[1], tuple(args))
    return v


def leaves(v, facts=None):
    """[(facts, value)] of a nested-ite term; infeasible combinations are pruned"""
    facts = facts or []
    if isinstance(v, tuple) and len(v) == 4 and v[0] == "ite":
        k = know(v[1], facts)
        out = []
        if k is not False:
            ft = list(facts)
            flatten_assumed(v[1], True, ft)
            out += leaves(v[2], ft)
        if k is not True:
            ff = list(facts)
            flatten_assumed(v[1], False, ff)
            out += leaves(v[3], ff)
        return out
    return [(facts, v)]


def cond_kind(c, var):
    """classify an atomic regime condition on the variable"""
    x = ("sym", var)
    if c[0] == "call":
        n = short(c[1])
        if n == "is_zero" and c[2][0] == x:
            return ("zero", None)
        if n == "is_equal_rel" and c[2][0] == x and c[2][1][0] == "num":
            return ("near", (c[2][1][1], c[2][2][1] if c[2][2][0] == "num" else None))
        if n == "is_equal" and c[2][0] == x and c[2][1][0] == "num" and len(c[2]) == 3:
            return ("near", (c[2][1][1], ("abs", c[2][2][1]) if c[2][2][0] == "num" else None))
    if c[0] == "cmp":
        op, l, r = c[1], c[2], c[3]
        if l == x and r[0] == "num":
            return ({"<": "lt", "<=": "le", "==": "eq", "!=": "ne"}.get(op, op), r[1])
        if r == x and l[0] == "num":
            return ({"<": "gt", "<=": "ge", "==": "eq", "!=": "ne"}.get(op, op), l[1])
    return ("other", show(c))


def fold(F, f):
    E = Evaluator(F, inline=lambda n, g: bool(INLINE_HELPERS.search(n)), max_depth=3)
    v, fr = E.function_value(f)
    return v


def classify(lv, var):
    """leaves -> dict: generic / zero / taylor (window, x0) / at[q] / neg / other"""
    out = {"other": []}
    for facts, val in lv:
        true = [(cond_kind(c, var), c) for c, t in facts if t]
        if not true:
            out["generic"] = (facts, val)
            continue
        kinds = [k for k, c in true if not (k[0] in ("ge", "gt") and k[1] == 0)]      # sign tests do not name a regime
        if not kinds:
            out["generic"] = (facts, val)
            continue
        if len(kinds) == 1 and kinds[0][0] == "zero":
            out["zero"] = (facts, val)
        elif len(kinds) == 1 and kinds[0][0] == "eq":
            out.setdefault("at", {})[kinds[0][1]] = (facts, val)
        elif len(kinds) == 1 and kinds[0][0] == "near":
            out["taylor"] = (facts, val, kinds[0][1])
        elif len(kinds) == 1 and kinds[0][0] == "lt" and kinds[0][1] == 0:
            out["neg"] = (facts, val)
        else:
            out["other"].append((facts, val, kinds))
    return out


def rename(t, a, b):
    return mparse.subst(t, {a: ("sym", b)})


# ---- integral definitions:  pref * Int_0^1 P(x,w)/(w - x(1-x)) * log(w/(x(1-x))) dx ------------------

def integral_closed_form(pref, integrand, xv, wv):
    """exact evaluation in terms of log w and f_PS(w), using
         Int x^k log(w/(x(1-x))) = (log w)/(k+1) + 1/(k+1)^2 + H_{k+1}/(k+1)
         Int (r0 + r1 x) log(w/(x(1-x)))/(w - x(1-x)) = (r0 + r1/2) f_PS(w)/w      [hep-ph/0609168 (70)]"""
    R = canon(integrand)
    x, w = Poly.atom(("sym", xv)), Poly.atom(("sym", wv))
    Lw, Lx, L1x = LOG(key(Rat(w))), LOG(key(Rat(x))), LOG(key(Rat(Poly.const(1) - x)))
    # log(w/(x(1-x))) = log w - log x - log(1-x): the numerator must be P * (Lw - Lx - L1x)
    P0 = R.n.coeff_of(Lw, 1)
    rest = R.n - P0 * (Poly.atom(Lw) - Poly.atom(Lx) - Poly.atom(L1x))
    if P0.is_zero() or not rest.is_zero():
        raise NotPolynomial("integrand is not P/B * log(w/(x(1-x)))")
    L = Lw
    P, B = P0, R.d
    # B = c (x^2 - x + w)
    b2 = B.coeff_of(("sym", xv), 2)
    if not b2.is_const() or b2.is_zero():
        raise NotPolynomial("denominator is not quadratic in x")
    c = b2.const_value()
    if not (B.scale(1 / c) - (x * x - x + w)).is_zero():
        raise NotPolynomial("denominator is not w - x(1-x)")
    P = P.scale(1 / c)
    Bm = x * x - x + w
    # polynomial division in x
    Q = Poly()
    Rm = P
    xa = ("sym", xv)
    while Rm.degree_in(xa) >= 2:
        dg = Rm.degree_in(xa)
        lead = Rm.coeff_of(xa, dg)
        mono = lead * (x ** (dg - 2)) if dg > 2 else lead
        Q = Q + mono
        Rm = Rm - mono * Bm
    lw = Poly.atom(LOG(key(Rat(w))))
    tot = Poly()
    for k_ in range(Q.degree_in(xa) + 1):
        qk = Q.coeff_of(xa, k_)
        if qk.is_zero():
            continue
        H = sum(Fraction(1, j) for j in range(1, k_ + 2))
        tot = tot + qk * (lw.scale(Fraction(1, k_ + 1)) + Poly.const(Fraction(1, (k_ + 1) ** 2) + H / (k_ + 1)))
    r0, r1 = Rm.coeff_of(xa, 0), Rm.coeff_of(xa, 1)
    fps = Poly.atom(("FN", "f_PS", (key(Rat(w)),)))
    res = Rat(tot) + Rat((r0 + r1.scale(Fraction(1, 2))) * fps, w)
    return canon(pref) * res


# ---- evaluation of a canonical closed form at a rational point ------------------------------------

def value_at(R, var, q, fn_values=None):
    """exact value (Poly over constants) of R at var = q; logs of rationals are expanded; returns None if 0/0"""
    from .closedform import _log_of_rational
    q = Fraction(q)

    def sub(p):
        tot = Rat(Poly())
        for m, c in p.t.items():
            term = Rat(Poly.const(c))
            for atom, e in m:
                term_a = atom_val(atom)
                for _ in range(e):
                    term = term * term_a
            tot = tot + term
        return tot

    def atom_val(atom):
        if atom == ("sym", var):
            return Rat(Poly.const(q))
        if isinstance(atom, tuple) and atom[0] in ("LOG", "LI2") and isinstance(atom[1], tuple):
            a = ARGS[atom[1]]
            av = sub(a.n) / sub(a.d)
            if not (av.n.is_const() and av.d.is_const()):
                raise NotPolynomial("argument not rational at the point")
            a0 = av.n.const_value() / av.d.const_value()
            if atom[0] == "LOG":
                return Rat(_log_of_rational(a0)) if a0 != 1 else Rat(Poly())
            if a0 == 0:
                return Rat(Poly())
            if a0 == 1:
                return Rat((Poly.atom(PI) ** 2).scale(Fraction(1, 6)))
            raise NotPolynomial("Li2(%s) has no closed value" % a0)
        if isinstance(atom, tuple) and atom[0] == "FN" and fn_values:
            args = []
            for k_ in atom[2]:
                a = ARGS[k_]
                av = sub(a.n) / sub(a.d)
                args.append(av.n.const_value() / av.d.const_value())
            v = fn_values.get((atom[1], tuple(args)))
            if v is None:
                raise NotPolynomial("no value for %s%s" % (atom[1], tuple(args)))
            return Rat(v)
        return Rat(Poly.atom(atom))
    n, d = sub(R.n), sub(R.d)
    v = n / d
    if v.d.is_zero():
        return None
    return v


def limit_at_zero(R, var):
    """lim_{x -> 0+} of R = N/D with D(0) != 0:  x^k log(x)^m -> 0 (k >= 1), Li2(1 - x) -> pi^2/6;
    returns ('finite', Rat) or ('divergent', None)"""
    xa = ("sym", var)
    lx = LOG(key(Rat(Poly.atom(xa))))

    def at0(p):
        tot = Poly()
        for m, c in p.t.items():
            d_ = dict(m)
            if d_.get(xa, 0) >= 1:
                continue                      # x^k * (logs, bounded atoms) -> 0
            if any(isinstance(a, tuple) and a[0] == "FN" and a[1] == "f_PS" and a[2] == (key(Rat(Poly.atom(xa))),) for a in d_):
                continue                      # f_PS(x) = O(x log^2 x) (ffunctions.m: fPS[0] = 0), kills any power of log x
            if lx in d_:
                return None                   # log(x)^m without a power of x: divergent
            term = Poly.const(c)
            for atom, e in m:
                if isinstance(atom, tuple) and atom[0] == "LI2":
                    a = ARGS[atom[1]]
                    # Li2(1 - x) -> Li2(1); Li2(x) -> 0
                    a0 = value_at(a, var, 0)
                    if a0 is None or not a0.n.is_const():
                        return None
                    a0 = a0.n.const_value() / a0.d.const_value()
                    if a0 == 1:
                        term = term * ((Poly.atom(PI) ** 2).scale(Fraction(1, 6)) ** e)
                    elif a0 == 0:
                        term = Poly()
                    else:
                        return None
                else:
                    term = term * (Poly.atom(atom) ** e)
            tot = tot + term
        return tot
    n, d = at0(R.n), at0(R.d)
    if n is None or d is None or d.is_zero():
        return ("divergent", None)
    return ("finite", Rat(n, d))


def first_order_at_zero(R_, var):
    """f(x) = N/D ~ f0 + x c1(L) for x -> 0+ (L = log x as the atom series.LZ), D(0) a non-zero constant:
    returns (f0 Poly over constants, c1 Poly over constants and LZ) or None if f diverges / is not of this form"""
    xa = ("sym", var)
    lx = LOG(key(Rat(Poly.atom(xa))))
    Lz = Poly.atom(LZ)
    pi26 = (Poly.atom(PI) ** 2).scale(Fraction(1, 6))

    def split(p):
        """(P0, P1): p = P0 + x P1 + O(x^2 log^k), atoms log x -> LZ, Li2(1-x) -> pi^2/6 + x L - x"""
        P0, P1 = Poly(), Poly()
        for m, c in p.t.items():
            t0, t1 = Poly.const(c), Poly()            # value of the monomial: t0 + x t1
            for atom, e in m:
                for _ in range(e):
                    if atom == xa:
                        a0, a1 = Poly(), Poly.const(1)
                    elif atom == lx:
                        a0, a1 = Lz, Poly()
                    elif isinstance(atom, tuple) and atom[0] == "LI2":
                        arg = ARGS[atom[1]]
                        one_minus = (Rat(Poly.const(1)) - arg)
                        if (one_minus - Rat(Poly.atom(xa))).is_zero():         # Li2(1 - x)
                            a0, a1 = pi26, Lz - Poly.const(1)
                        else:
                            raise NotPolynomial("Li2 argument not of the form 1 - x")
                    elif isinstance(atom, tuple) and atom[0] in ("const", "sqrtQ") or (isinstance(atom, tuple) and atom[0] == "LOG" and isinstance(atom[1], str)):
                        a0, a1 = Poly.atom(atom), Poly()
                    else:
                        raise NotPolynomial("atom %s has no expansion at 0" % (atom,))
                    t0, t1 = t0 * a0, t0 * a1 + t1 * a0
            P0, P1 = P0 + t0, P1 + t1
        return P0, P1
    N0, N1 = split(R_.n)
    D0, D1 = split(R_.d)
    if not D0.is_const() or not D0.t or LZ in N0.atoms():
        return None
    d0 = D0.const_value()
    f0 = N0.scale(1 / d0)
    c1 = (N1.scale(d0) - N0 * D1).scale(1 / (d0 * d0))
    return f0, c1


def poly_float(p, scale=False, logz=None):
    """numeric value of a Poly over constants (for the error estimates only)"""
    tot = 0.0
    sc = 0.0
    for m, c in p.t.items():
        v = float(c)
        for atom, e in m:
            if atom == PI:
                v *= math.pi ** e
            elif isinstance(atom, tuple) and atom[0] == "LOG" and isinstance(atom[1], str):
                v *= math.log(float(atom[1])) ** e
            elif isinstance(atom, tuple) and atom[0] == "sqrtQ":
                v *= math.sqrt(float(atom[1])) ** e
            elif atom == LZ and logz is not None:
                v *= logz ** e
            else:
                raise NotPolynomial("non-constant atom %s" % (atom,))
        tot += v
        sc += abs(v)
    return (tot, sc) if scale else tot


def same_value(code, ref):
    """code == ref exactly, or -- if code is a many-digit decimal literal -- to 2 ulp of the exact constant"""
    if (code - ref).is_zero():
        return True
    if code.n.is_const() and code.d.is_const():
        try:
            cv = float(code.n.const_value() / code.d.const_value())
            rn, sc = poly_float(ref.n, scale=True)
            rd = poly_float(ref.d)
            rv, sc = rn / rd, sc / abs(rd)
        except (NotPolynomial, ZeroDivisionError):
            return False
        lit = code.n.const_value() / code.d.const_value()
        if lit.denominator > 10 ** 6:
            return abs(cv - rv) <= 4.5e-16 * max(sc, 1e-300)      # 2 ulp of the largest term of the exact constant
    return False


def neg_status(facts, val, var):
    """can a negative argument reach this leaf and get a number?  'excluded' | 'nan' | 'number'"""
    x = ("sym", var)
    for c, t in facts:
        k, a = cond_kind(c, var)
        if k == "lt" and a == 0 and not t:
            return "excluded"                       # an earlier x < 0 test returned
        if k == "lt" and a == 0 and t:
            ok = isinstance(val, tuple) and val[0] == "call" and short(val[1]) == "quiet_NaN"
            return "nan" if ok else "number"
        if t and k == "near" and a[0] > 0 and a[1] is not None and a[1] < 1:
            return "excluded"                       # |x - x0| < W (1 + max) with x0 > 0, W < 1  =>  x > 0
        if t and k in ("eq", "gt", "ge") and a >= 0:
            return "excluded"
        if t and c[0] == "cmp" and c[1] in ("<=", "<") and c[2][0] == "num" and c[2][1] >= 0 and c[3] == x:
            return "excluded"                       # 0 <= x
        if t and c[0] == "and":
            pass
    # the value must be NaN for x < 0: it contains log(x), log of a monomial in x with odd power, or sqrt(x)
    for u in subterms(val):
        if isinstance(u, tuple) and len(u) == 3 and u[0] == "call" and short(u[1]) in ("log", "sqrt") and u[2] and u[2][0] == x:
            return "nan"
        if isinstance(u, tuple) and len(u) == 3 and u[0] == "call" and short(u[1]) in ("f_PS", "f_S", "f_sferm", "f_CSl") \
                and u[2] and u[2][0] == x:
            return "nan"                            # these return quiet_NaN for a negative argument (their own R5 entry)
    return "number"


def run(F, R, tier):
    R.explanation = (
        "The loop-function library is folded function by function into a tree of evaluation regimes (generic closed "
        "form, Taylor window around 1, special-cased points, negative arguments). (R1) the generic closed form equals, "
        "as a rational function over {x, log x, Li2(1-x), f_PS(x), pi}, the definition in math/ffunctions.m (which "
        "quotes the equation numbers); for F1, F1~, F2, F3 the definition is the quoted integral representation, "
        "evaluated exactly by polynomial division of the integrand. (R2) every coefficient of a Taylor branch equals "
        "the exact Taylor coefficient of the closed form at 1 (Laurent series with rational coefficients; the poles "
        "cancel exactly). (R3) values returned at 0, 1/4 and 1 equal the limit of the closed form there and the "
        "F[0], F[1/4], F[1] lines of ffunctions.m; a divergent limit must be the documented convention 0. (R4) at the "
        "edge of each Taylor window both the truncation error of the series and the first-order rounding error of "
        "the closed form (cancellation of its pole) are below 1e-7 relative. (R5) a negative argument reaches "
        "quiet_NaN or a logarithm of the argument on every path.")
    R.assumptions = ["f_PS(w) = w Int_0^1 log(w/(x(1-x)))/(w - x(1-x)) dx (hep-ph/0609168 Eq.(70)) links the integral "
                     "definitions of F1..F3 to f_PS", "f_PS(1/4) = 2 log 2 (ffunctions.m)",
                     "R4 is a first-order error model (next 10 series terms + geometric tail; unit round-off on the "
                     "O(1) terms of the numerator)"]
    R.undecided = ["accuracy of the Pade approximants of dilog / clausen_2 (1e-13 claim) and the complex dilogarithm",
                   "the three real evaluation regimes of f_PS against its complex definition",
                   "asymptotic branches f_S (z > 100), F3 (w >= 100)", "rounding for x -> 0+ and x -> 1e12"]

    text = open(os.path.join(F.repo if hasattr(F, "repo") else REPO, "math", "ffunctions.m")).read()
    defs = mparse.definitions(text)
    integ = mparse.integral_definitions(text)
    general, special = {}, {}
    for name, args, rhs in defs:
        if args is None or isinstance(rhs, Exception):
            continue
        if len(args) == 1 and args[0][0] == "pat":
            general[name] = (args[0][1], rhs)
        elif len(args) == 1:
            try:
                a = canon(args[0])
                if a.n.is_const() and a.d.is_const():
                    special[(name, a.n.const_value() / a.d.const_value())] = rhs
            except NotPolynomial:
                pass

    fns = {}
    for f in F.functions.values():
        if f["file"] == FILE and len(f["params"]) == 1:
            fns[f["name"].split("::")[-1]] = f
    missing = [n for n in list(NAMES) + ["f_PS"] if n not in fns]
    if missing:
        raise AnalysisBroken("anchor functions missing in %s: %s" % (FILE, missing))

    R.rule("R1", "generic closed form == definition in math/ffunctions.m (rational identity over x, log x, Li2(1-x), f_PS(x)); "
                 "F1, F1~, F2, F3: == exact value of the quoted integral representation", 17)
    R.rule("R2", "every Taylor-branch coefficient == exact Taylor coefficient of the closed form at x = 1", 10)
    R.rule("R3", "special values at 0, 1/4, 1 == limits of the closed form and the F[0], F[1/4], F[1] lines of ffunctions.m", 25)
    R.rule("R4", "at the Taylor window edge: series truncation error and closed-form cancellation error <= 1e-7 relative", 20)
    R.rule("R6", "large-argument branch == expansion of the closed form for x -> infinity (f_PS from its differential equation); "
                 "truncation error at the switch-over point <= 1e-7", 4)
    R.rule("R5", "negative argument => NaN: every regime a negative argument can reach returns quiet_NaN or evaluates log(x) / a loop function of x that does", 17)

    fps_quarter = {("f_PS", (Fraction(1, 4),)): Poly.atom(LOG("2")).scale(2)}
    closed = {}
    for cname in sorted(fns):
        f = fns[cname]
        var = f["params"][0]["name"]
        loc = F.loc(f)
        if cname not in NAMES and cname != "f_PS":
            continue
        v = fold(F, f)
        cl = classify(leaves(v), var)
        if "generic" not in cl:
            R.soft_broken("%s: no generic branch recognised" % cname)
            continue
        gen = None
        try:
            gen = canon(cl["generic"][1])
        except NotPolynomial as e:
            if cname != "f_PS":
                R.fail("R1", "%s: generic branch is not a closed form over the known atoms" % cname, loc, str(e)[:200], key="R1|" + cname)
        closed[cname] = gen

        # ---- R1 ---------------------------------------------------------------------------------------------
        if cname in NAMES and gen is not None:
            mname = NAMES[cname]
            try:
                if cname in INTEGRAL:
                    if mname not in integ:
                        raise AnalysisBroken("integral definition of %s not found in ffunctions.m" % mname)
                    pref, integrand, xv = integ[mname]
                    wv = general[mname][0] if mname in general else "w"
                    ref = integral_closed_form(rename(pref, wv, var), rename(integrand, wv, var), xv, var)
                    what = "integral definition"
                else:
                    if mname not in general:
                        raise AnalysisBroken("definition of %s not found in ffunctions.m" % mname)
                    mv, rhs = general[mname]
                    ref = canon(rename(mparse.expand_module(rhs), mv, var))
                    what = "definition %s[%s_]" % (mname, mv)
                same = (gen - ref).is_zero()
            except NotPolynomial as e:
                R.soft_broken("R1 %s: %s" % (cname, str(e)[:160]))
                same = None
            if same is not None:
                R.check("R1", same, "%s: closed form == %s" % (cname, what), loc,
                        "generic branch of %s differs from its %s in math/ffunctions.m" % (cname, what), key="R1|" + cname)

        # ---- R2, R4 -------------------------------------------------------------------------------------------
        if "taylor" in cl and (gen is not None or cname == "f_PS"):
            facts, tval, (x0, W) = cl["taylor"]
            if cname == "f_PS":
                # f_PS itself: reference series from its differential equation (series.fps_quarter_coeffs)
                gen_s = Rat(Poly.atom(("FN", "f_PS", (key(Rat(Poly.atom(("sym", var)))),))))
            else:
                gen_s = gen
            try:
                tp = canon(tval)
                if not tp.d.is_const():
                    raise NotPolynomial("Taylor branch is not a polynomial")
                deg = tp.n.degree_in(("sym", var))
                tc = taylor(tp, var, x0, deg + 1)
                NX = deg + 12
                cc = taylor(gen_s, var, x0, NX)
                bad = [k_ for k_ in range(deg + 1) if not (tc[k_] - cc[k_]).is_zero()]
                R.check("R2", not bad, "%s: %d Taylor coefficients at %s = %s" % (cname, deg + 1, var, x0), loc,
                        "Taylor branch of %s: coefficient(s) of d^%s differ from the series of the closed form "
                        "(code %s, exact %s)" % (cname, bad, [repr(tc[k_]) for k_ in bad][:3], [repr(cc[k_]) for k_ in bad][:3]),
                        key="R2|" + cname)
                # R4
                if W is None:
                    R.soft_broken("R4 %s: window is not a constant" % cname)
                else:
                    if isinstance(W, tuple) and W[0] == "abs":          # is_equal(x, x0, eps): |x - x0| < eps
                        Wf = float(W[1])
                        D = Wf
                    else:
                        Wf = float(W)
                        D = 2 * Wf / (1 - Wf) if x0 == 1 else Wf * (1 + float(abs(x0)) * 2)
                    c0 = abs(poly_float(cc[0])) or 1.0
                    nxt = [abs(poly_float(c)) for c in cc[deg + 1:]]
                    trunc = sum(c * D ** (deg + 1 + i) for i, c in enumerate(nxt))
                    if len(nxt) >= 2 and nxt[-2] > 0:
                        ratio = min(0.999, nxt[-1] / nxt[-2] * D)
                        trunc += nxt[-1] * D ** (deg + len(nxt)) * ratio / (1 - ratio)
                    trunc /= c0
                    R.check("R4", trunc <= float(ACC), "%s: truncation error at |d| = %.3g: %.2e" % (cname, D, trunc), loc,
                            "Taylor window of %s (is_equal_rel(.., %s, %s): |d| up to %.3g) is too wide for a series of degree "
                            "%d: truncation error %.2e > 1e-7" % (cname, x0, W, D, deg, trunc), key="R4t|" + cname)
                    # cancellation of the closed form just outside the window
                    s, sh = rat_series(Rat(gen_s.d), var, Fraction(x0), 12)
                    p = s.val() or 0
                    kappa = 0.0
                    xa = ("sym", var)
                    for m, c in (gen_s.n.t.items() if p else ()):
                        if all(a == xa for a, e in m):
                            kappa += abs(float(c)) * float(x0) ** sum(e for a, e in m)
                        else:
                            kappa += abs(float(c)) * D
                    lead = abs(poly_float(s.c[p])) if s.c[p].t else 1.0
                    canc = float(EPS) * kappa / (lead * D ** p) / c0
                    R.check("R4", canc <= float(ACC), "%s: closed form at the window edge: pole order %d, rounding error %.2e"
                            % (cname, p, canc), loc,
                            "Taylor window of %s (|d| up to %.3g) is too narrow: outside it the closed form divides an O(%.0f) "
                            "numerator by d^%d, rounding error %.2e > 1e-7" % (cname, D, kappa, p, canc), key="R4c|" + cname)
                # value at x0 from the series
                mname = NAMES.get(cname)
                sv = special.get((mname, Fraction(x0)))
                if sv is not None:
                    ok_ = same_value(Rat(tc[0]), canon(sv))
                    R.check("R3", ok_, "%s(%s) == %s[%s] of ffunctions.m" % (cname, x0, mname, x0), loc,
                            "%s(%s) = %r differs from ffunctions.m (%s)" % (cname, x0, tc[0], show(sv)), key="R3|%s|%s" % (cname, x0))
            except (NotPolynomial, SeriesError) as e:
                R.fail("R2", "%s: Taylor branch vs closed form" % cname, loc,
                       "series comparison failed: %s" % str(e)[:200], key="R2|" + cname)
        elif cname in TAYLOR:
            R.fail("R2", "%s: Taylor branch around 1" % cname, loc,
                   "%s has a pole of its closed form at 1 but no Taylor branch was found" % cname, key="R2|" + cname)

        # ---- R6: large-argument expansion ---------------------------------------------------------------------------
        for facts, aval, kinds in cl["other"]:
            big = [k for k in kinds if k[0] in ("gt", "ge") and k[1] is not None and k[1] > 0]
            if cname == "f_PS":
                R.analysed.setdefault("undecided_regimes", []).append("f_PS under %s" % (kinds,))
                continue
            if len(kinds) != 1 or not big or gen is None:
                R.soft_broken("%s: unrecognised evaluation regime under %s" % (cname, kinds))
                continue
            T = float(big[0][1])
            try:
                ac, ash = asymptotic(canon(aval), var, 12)
                order = max([i for i, c in enumerate(ac) if c.t] or [0])
                gc, gsh = asymptotic(gen, var, order + 9)
                if ash != gsh:
                    raise SeriesError("leading powers differ (%d vs %d)" % (ash, gsh))
                bad = [i for i in range(order + 1) if not (ac[i] - gc[i]).is_zero()]
                R.check("R6", not bad, "%s: %d coefficients of the expansion for %s -> infinity" % (cname, order + 1, var), loc,
                        "large-%s branch of %s: coefficient(s) of %s^-%s differ from the expansion of the closed form "
                        "(code %s, exact %s)" % (var, cname, var, bad, [repr(ac[i]) for i in bad][:2], [repr(gc[i]) for i in bad][:2]),
                        key="R6|" + cname)
                lt = math.log(T)
                c0 = abs(poly_float(gc[0], logz=lt)) or 1.0
                nxt = [abs(poly_float(c, logz=lt)) * T ** (-(order + 1 + i)) for i, c in enumerate(gc[order + 1:])]
                trunc = sum(nxt) / c0
                if len(nxt) >= 2 and nxt[-2] > 0:
                    ratio = min(0.999, nxt[-1] / nxt[-2])
                    trunc += nxt[-1] * ratio / (1 - ratio) / c0
                R.check("R6", trunc <= float(ACC), "%s: truncation error of the expansion at %s = %g: %.2e" % (cname, var, T, trunc), loc,
                        "large-%s branch of %s starts at %s = %g, where an expansion to order %d has truncation error "
                        "%.2e > 1e-7" % (var, cname, var, T, order, trunc), key="R6t|" + cname)
            except (NotPolynomial, SeriesError) as e:
                R.fail("R6", "%s: large-%s branch vs closed form" % (cname, var), loc,
                       "expansion at infinity failed: %s" % str(e)[:200], key="R6|" + cname)

        # ---- R3: zero and 1/4 ------------------------------------------------------------------------------------
        mname = NAMES.get(cname, "fPS" if cname == "f_PS" else None)
        if "zero" in cl or (cl.get("at") or {}).get(Fraction(0)) is not None:
            zval = cl["zero"][1] if "zero" in cl else cl["at"][Fraction(0)][1]
            try:
                zv = canon(zval)
                sv = special.get((mname, Fraction(0)))
                if sv is not None:
                    R.check("R3", same_value(zv, canon(sv)), "%s(0) == %s[0] of ffunctions.m" % (cname, mname), loc,
                            "%s(0) returns %s, ffunctions.m says %s" % (cname, show(zval)[:60], show(sv)[:60]), key="R3|%s|0m" % cname)
                if gen is not None and cname != "f_PS":
                    kind, lim = limit_at_zero(gen, var)
                    if kind == "finite":
                        R.check("R3", same_value(zv, lim), "%s(0) == lim x->0 of the closed form" % cname, loc,
                                "%s(0) returns %s but the closed form tends to %r" % (cname, show(zval)[:60], lim.n), key="R3|%s|0l" % cname)
                    else:
                        R.check("R3", zv.is_zero(), "%s(0) = 0 by convention (closed form diverges logarithmically)" % cname, loc,
                                "%s(0): closed form diverges at 0; the documented convention is 0, code returns %s"
                                % (cname, show(zval)[:60]), key="R3|%s|0c" % cname)
            except NotPolynomial as e:
                R.soft_broken("R3 %s(0): %s" % (cname, str(e)[:120]))
        if "zero" in cl and gen is not None and cname != "f_PS":
            try:
                tol = None
                for c_, t_ in cl["zero"][0]:
                    if t_ and c_[0] == "call" and short(c_[1]) == "is_zero" and len(c_[2]) == 2:
                        from .rules_c11 import _numeric
                        tol = _numeric(c_[2][1])
                corr = first_order_at_zero(gen, var)
                if tol is not None and corr is not None:
                    f0, c1 = corr             # f(x) ~ f0 + x * c1(L)
                    L = math.log(float(tol))
                    dev = abs(float(tol) * poly_float(c1, logz=L))
                    ref = abs(poly_float(f0)) if f0.t else None
                    if ref:
                        R.check("R4", dev / ref <= float(ACC), "%s: zero window |x| < %.2g: f(x) - f(0) <= %.1e relative"
                                % (cname, float(tol), dev / ref), loc,
                                "%s returns its x -> 0 limit for all |x| < %.2g, where the function already differs from the limit "
                                "by %.1e relative (> 1e-7)" % (cname, float(tol), dev / ref), key="R4z|" + cname)
            except NotPolynomial as e:
                R.soft_broken("R4 %s zero window: %s" % (cname, str(e)[:100]))
        q = Fraction(1, 4)
        if (cl.get("at") or {}).get(q) is not None:
            qval = cl["at"][q][1]
            try:
                qv = canon(qval)
                sv = special.get((mname, q))
                if sv is not None:
                    R.check("R3", same_value(qv, canon(sv)), "%s(1/4) == %s[1/4] of ffunctions.m" % (cname, mname), loc,
                            "%s(1/4) returns %s, ffunctions.m says %s" % (cname, show(qval)[:60], show(sv)[:80]), key="R3|%s|qm" % cname)
                if gen is not None and cname != "f_PS":
                    gv = value_at(gen, var, q, fps_quarter)
                    if gv is not None:
                        R.check("R3", same_value(qv, gv), "%s(1/4) == closed form at 1/4 with f_PS(1/4) = 2 log 2" % cname, loc,
                                "%s(1/4) returns %s but the closed form gives %r at 1/4" % (cname, show(qval)[:60], gv.n),
                                key="R3|%s|ql" % cname)
            except NotPolynomial as e:
                R.soft_broken("R3 %s(1/4): %s" % (cname, str(e)[:120]))

        # ---- R5 ----------------------------------------------------------------------------------------------------
        bad = []
        nleaf = 0
        for facts, val in leaves(v):
            st = neg_status(facts, val, var)
            nleaf += 1
            if st == "number":
                bad.append("%s under %s" % (show(val)[:40], " && ".join(("" if t else "!") + show(c)[:30] for c, t in facts)[:90]))
        R.check("R5", not bad, "%s: %d regimes; a negative argument reaches quiet_NaN / log(x) / sqrt(-x..) or is excluded "
                "by the regime condition" % (cname, nleaf), loc,
                "%s returns a number for some negative argument: %s" % (cname, "; ".join(bad)[:300]), key="R5|" + cname)
    R.analysed["functions"] = sorted(closed)

    # ---- K rules: the special-function kernels of gm2_dilog.cpp ------------------------------------------------------
    from .kernels import run_kernels
    from .structure import no_runtime_statics
    R.guard(no_runtime_statics, F, R, "R9", ("src/gm2_ffunctions.cpp", "src/gm2_ffunctions.hpp", "src/gm2_dilog.cpp", "src/gm2_dilog.hpp", "src/gm2_numerics.hpp", "src/gm2_numerics.cpp"), "loop and special functions (gm2_ffunctions, gm2_dilog, gm2_numerics)", 1)
    R.guard(run_kernels, F, R)
