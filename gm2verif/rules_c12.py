"""C12 -- the decomposition wrappers of src/gm2_linalg.hpp turn Eigen's solver output into the documented
conventions (structural clause: algebra of the post-processing; Eigen's solvers are axioms)."""
import re
from fractions import Fraction

from .facts import walk, is_call
from .terms import Evaluator, show
from .poly import Poly, Rat
from .eigenalg import CAlg, IMAG
from . import matalg as MA
from .matalg import Interp, Vec, Undecided, simplify, show_word, show_fn, w_transpose, w_adjoint
from .extract import AnalysisBroken

PID = "C12"
LEVEL = "other"

# documented conventions (comments in gm2_linalg.hpp and the property statement)
#   name -> (outputs, how the documented product is formed, ordering of the values)
DOC = {
    "fs_svd": dict(form="m = u^T diag(s) v", order=("asc", ()), nonneg=True),
    "fs_diagonalize_symmetric": dict(form="m = u^T diag(s) u", order=("asc", ()), nonneg=True),
    "fs_diagonalize_hermitian": dict(form="m = z^dagger diag(w) z", order=("asc", ("abs",)), nonneg=False),
}


def run(F, R, tier):
    R.explanation = (
        "Structural clause of C12. Eigen's JacobiSVD (A = U diag(sigma) V^H, sigma >= 0 descending) and "
        "SelfAdjointEigenSolver (A = Z diag(w) Z^H, w ascending) are taken as axioms. Every instantiation of fs_svd, "
        "fs_diagonalize_symmetric and fs_diagonalize_hermitian that the models call is interpreted abstractly, statement "
        "by statement through the whole wrapper chain (fs_* -> reorder_* -> *_errbd -> *_internal -> *_eigen), in a domain of "
        "matrix words: products of symbolic unitary factors, permutation matrices and diagonal matrices diag(f(x)). "
        "In-place Eigen operations get their algebraic meaning (reverseInPlace, `*= p`, `transpose() *= p`, "
        "transposeInPlace, `(z p).adjoint()`, `z * s.unaryExpr(Flip_sign).asDiagonal()`, `s = s.abs()`, std::sort of "
        "permutation indices with a comparator lambda). At the exit the documented product of the outputs must reduce, by "
        "cancellation of inverse pairs and merging of diagonal factors (scalar identities such as flip(x)^2 |x| = x are "
        "decided by case analysis on the sign of x with the functor's body read from the source), to the axiom's "
        "right-hand side (R1); every output matrix must be a product of unitary factors (R2); the value vector must be "
        "non-negative where documented (R3) and in the documented order (R4). A dropped transposition, a reordering applied "
        "to the values but not to the vectors, a wrong comparator, a missing abs or a wrong phase for negative eigenvalues "
        "violates one of these for every input matrix. NOT decided: that Eigen's solvers meet their contracts numerically "
        "(accuracy, degenerate and rank-deficient inputs), and the error-bound outputs (floating-point).")
    R.assumptions = ["Eigen::JacobiSVD: A = U diag(sigma) V^H with unitary U, V and sigma >= 0 in descending order",
                     "Eigen::SelfAdjointEigenSolver (compute and computeDirect): A = Z diag(w) Z^H with unitary Z, w ascending",
                     "Eigen::PermutationMatrix: A *= p multiplies by P from the right, p.indices() reversed is the reversal "
                     "permutation, indices sorted by a comparator give the sorting permutation"]
    R.undecided = ["numerical accuracy / unitarity to rounding of Eigen's solvers, behaviour for exactly degenerate or "
                   "rank-deficient matrices inside the solvers",
                   "the size of the error bounds (only their sign and the positivity of the divisors are decided, R6)"]
    R.guard(_contracts, F, R)
    R.guard(_call_sites, F, R)
    R.guard(_error_bounds, F, R)
    R.guard(_stateless, F, R)


def _entry_instantiations(F):
    """public 4-/3-argument overloads of the fs_ routines that repository code outside gm2_linalg.hpp calls"""
    out = {}
    for k, f in F.functions.items():
        if f["file"].endswith("gm2_linalg.hpp"):
            continue
        for c in F.calls[k]:
            nm = str(c.get("fn") or "").split("<")[0].split("::")[-1]
            if nm in DOC and c.get("mg") in F.functions:
                g = F.functions[c["mg"]]
                out.setdefault(c["mg"], (g, nm, []))[2].append("%s:%s" % (f["file"], c.get("l")))
    return out


def _functor_term(F, fu):
    cls = re.sub(r"^(const )?(struct |class )?", "", fu[1]).strip()
    fs = F.by_name.get(cls + "::operator()", [])
    if len(fs) != 1:
        raise Undecided("functor %s: operator() not found" % cls)
    E = Evaluator(F, inline=lambda n, g: False, max_depth=2)
    v, fr = E.function_value(fs[0], args=[("sym", "x")])
    return v


class ScalarFns:
    """decides identities between products of the scalar functions that appear in diagonal factors, by case analysis on
    the sign of the real base value x"""

    def __init__(self, F):
        self.F = F
        self.cache = {}

    def value(self, fn, case):
        """Rat of fn applied to x under case in {'neg', 'nonneg'}"""
        X = Rat(Poly.atom(("sym", "x")))
        if fn and fn[0] == "prod":
            return self.value(fn[1], case) * self.value(fn[2], case)
        v = X
        for step in fn:
            if step == "abs":
                v = self._abs(v, case)
            elif step == "conj":
                v = Rat(CAlg.conj_poly(v.n), CAlg.conj_poly(v.d))
            elif step.startswith("functor:"):
                v = self._functor(step[8:], v, case)
            else:
                raise Undecided("scalar function %s" % step)
        return v

    def _sign(self, v, case):
        """sign of a Rat that is c * x^k (c rational) under the case; None if unknown"""
        if not v.d.is_const() or len(v.n.t) > 1:
            return None
        if not v.n.t:
            return 0
        (mono, c), = v.n.t.items()
        c = c / v.d.const_value()
        sg = 1 if c > 0 else -1
        for a, e in mono:
            if a == ("sym", "x"):
                if case == "neg" and e % 2:
                    sg = -sg
            else:
                return None
        return sg

    def _abs(self, v, case):
        s = self._sign(v, case)
        if s is None:
            raise Undecided("abs of a value of unknown sign")
        return v if s >= 0 else Rat(-v.n, v.d)

    def _functor(self, name, v, case):
        if name not in self.cache:
            self.cache[name] = _functor_term(self.F, ("functor", name))
        t = self.cache[name]
        s = self._sign(v, case)
        if s is None:
            raise Undecided("functor applied to a value of unknown sign")

        def ev(u):
            h = u[0]
            if h == "ite":
                c = u[1]
                truth = self._cond(c, s)
                return ev(u[2] if truth else u[3])
            if h == "num":
                return Rat(Poly.const(u[1]))
            if h == "call" and str(u[1]).split("::")[-1] in ("complex", "complex<double>") or (h == "call" and "complex" in str(u[1])):
                a = [ev(x) for x in u[2]]
                if len(a) == 2:
                    return a[0] + a[1] * Rat(Poly.atom(IMAG))
                if len(a) == 1:
                    return a[0]
            if h == "sym":
                return v
            raise Undecided("functor body %s" % show(u)[:80])
        return ev(t)

    def _cond(self, c, s):
        # comparisons of real(x) / x with 0
        if c[0] == "not":
            return not self._cond(c[1], s)
        if c[0] == "cmp":
            op, a, b = c[1], c[2], c[3]

            def is_x(u):
                return u == ("sym", "x") or (u[0] == "call" and str(u[1]).split("::")[-1] in ("real", "std::real") and is_x(u[2][0])) \
                    or (u[0] == "call" and str(u[1]).endswith("real") and len(u[2]) == 1 and is_x(u[2][0]))
            if is_x(a) and b[0] == "num" and b[1] == 0:
                return {"<": s < 0, "<=": s <= 0, "==": s == 0, "!=": s != 0}[op]
            if is_x(b) and a[0] == "num" and a[1] == 0:
                return {"<": s > 0, "<=": s >= 0, "==": s == 0, "!=": s != 0}[op]
        raise Undecided("functor condition %s" % show(c)[:80])

    def equal(self, f1, f2, cases):
        for case in cases:
            a, b = self.value(f1, case), self.value(f2, case)
            if not (a.n * b.d - b.n * a.d).is_zero():
                return False, case
        return True, None

    def unimodular(self, fn, cases):
        for case in cases:
            a = self.value(fn, case)
            n = a * Rat(CAlg.conj_poly(a.n), CAlg.conj_poly(a.d))
            if not (n.n - n.d).is_zero():
                return False, case
        return True, None

    def nonneg(self, fn, cases):
        for case in cases:
            a = self.value(fn, case)
            s = self._sign(a, case)
            if s is None or s < 0:
                return False, case
        return True, None


def _words_equal(SF, w1, w2, cases_of):
    if len(w1) != len(w2):
        return False, "factor count differs"
    for a, b in zip(w1, w2):
        if a[0] == "d" and b[0] == "d":
            if a[2] != b[2]:
                return False, "diagonal factors of different vectors"
            ok, case = SF.equal(a[1], b[1], cases_of(a[2]))
            if not ok:
                return False, "diag(%s) != diag(%s) for x %s" % (show_fn(a[1]), show_fn(b[1]), "< 0" if case == "neg" else ">= 0")
        elif a != b:
            return False, "%s vs %s" % (show_word((a,)), show_word((b,)))
    return True, ""


def _contracts(F, R):
    R.rule("R1", "documented factorisation: the documented product of the outputs reduces to the solver axiom's right-hand side "
                 "(m = u^T diag(s) v, m = u^T diag(s) u, m = z^dagger diag(w) z)", 3)
    R.rule("R2", "every output matrix is a product of unitary factors (solver outputs, permutations, unimodular phase diagonals)", 3)
    R.rule("R3", "the value vector is non-negative where documented (singular values, Takagi values)", 2)
    R.rule("R4", "the value vector is in the documented order (ascending; fs_diagonalize_hermitian: ascending in |w|)", 3)
    ents = _entry_instantiations(F)
    if len(ents) < 3:
        raise AnalysisBroken("fewer than 3 instantiations of the fs_ routines are called by the models (%d)" % len(ents))
    SF = ScalarFns(F)
    analysed = []
    for mg, (g, nm, sites) in sorted(ents.items(), key=lambda x: (x[1][1], x[1][0]["params"][0]["t"])):
        doc = DOC[nm]
        sig = "%s(%s)" % (nm, ", ".join(re.sub(r"Eigen::|, 0>|const | &", "", str(p["t"])).replace(">", ">") for p in g["params"]))
        loc = F.loc(g)
        mt = str(g["params"][0]["t"])
        real_in = "complex" not in mt.split(">")[0]
        m_word = (("m", "m", False, False, real_in),)
        # value-dependent branches (fast paths for definite matrices ...) are explored both ways: one run per decision string
        work, runs = [[]], []
        failed = None
        while work and len(runs) < 32:
            dec = work.pop()
            I = Interp(F)
            I.decisions = dec
            args = [("loc", I.new_loc(("mat", m_word)))]
            for p in g["params"][1:]:
                args.append(("loc", I.new_loc(("uninit",))))
            try:
                I.call(g, args)
                runs.append((I, args))
            except MA.NeedDecision:
                work.append(dec + [False])
                work.append(dec + [True])
            except Undecided as ex:
                failed = ex
                break
        if failed is not None or not runs:
            R.soft_broken("%s: %s" % (sig, failed))
            continue
        for I, args in runs:
            _check_path(F, R, SF, I, args, g, nm, doc, sig, loc, m_word, sites, analysed)
    R.analysed["entries"] = analysed


def _check_path(F, R, SF, I, args, g, nm, doc, sig, loc, m_word, sites, analysed):
    if I.path:
        sig = "%s [path: %s]" % (sig, "; ".join(I.path))
    for _once in (0,):
        outs = [I.store[a[1]] for a in args[1:]]
        analysed.append(dict(entry=sig, called_from=sites[:3], functions=sorted(set(x.split("::")[-1] for x in I.functions_seen)),
                             axioms=[a[2] for a in I.axioms],
                             outputs=[o[1].show() if o[0] == "vec" else show_word(o[1]) if o[0] == "mat" else o[0] for o in outs]))
        for rk in I.risky:
            R.fail("R1", sig + " (domain)", loc, rk, key="R1|%s|risky|%s" % (sig, rk[-60:]))
        if len(I.axioms) != 1:
            R.soft_broken("%s: expected exactly one solver invocation / path assumption about the input, found %d" % (sig, len(I.axioms)))
            return
        ax_arg, ax_rhs, ax_txt = I.axioms[0]
        # a real scalar rescaling of the input commutes with the decomposition: move it to the other side
        sc_ = tuple(f_ for f_ in ax_arg if f_[0] == "c")
        if sc_:
            ax_arg = tuple(f_ for f_ in ax_arg if f_[0] != "c")
            ax_rhs = tuple(MA.f_inverse_scalar(f_) for f_ in sc_) + tuple(ax_rhs)
        if ax_arg != m_word:
            R.fail("R1", sig, loc, "the solver is applied to %s, not to the input matrix" % show_word(ax_arg), key="R1|%s|arg" % sig)
            return
        vec = outs[0]
        mats = outs[1:]
        if vec[0] != "vec" or any(x[0] != "mat" for x in mats):
            R.fail("R1", sig, loc, "an output is never assigned (%s)" % ", ".join(o[0] for o in outs), key="R1|%s|unassigned" % sig)
            return
        v = vec[1]
        if nm == "fs_svd":
            prod = w_transpose(mats[0][1]) + v.diag_word() + mats[1][1]
        elif nm == "fs_diagonalize_symmetric":
            prod = w_transpose(mats[0][1]) + v.diag_word() + mats[0][1]
        else:
            prod = w_adjoint(mats[0][1]) + v.diag_word() + mats[0][1]
        lhs, rhs = simplify(prod), simplify(ax_rhs)
        base_nonneg = {}
        for a in I.axioms:
            for fct in a[1]:
                if fct[0] == "d":
                    base_nonneg[fct[2]] = fct[2].startswith("sigma")
        def cases_of(b):
            if base_nonneg.get(b) or I.base_sign.get(b) == "nonneg":
                return ("nonneg",)
            if I.base_sign.get(b) == "nonpos":
                return ("neg",)           # x = 0 satisfies every identity that holds for x < 0 and x > 0 by continuity
            return ("neg", "nonneg")
        try:
            ok, why = _words_equal(SF, lhs, rhs, cases_of)
        except Undecided as ex:
            R.soft_broken("%s: %s" % (sig, ex))
            return
        R.check("R1", ok, "%s: %s" % (sig, doc["form"]), loc,
                "with the outputs as computed, the documented product is  %s  but the input matrix is  %s  (%s; %s)"
                % (show_word(lhs), show_word(rhs), ax_txt, why), key="R1|%s" % sig,
                detail="product reduces to %s" % show_word(rhs))
        # R2 unitarity
        for nm_o, mo in zip(("first", "second"), mats):
            bad = None
            for fct in mo[1]:
                if fct[0] == "d":
                    try:
                        ok2, case = SF.unimodular(fct[1], cases_of(fct[2]))
                    except Undecided as ex:
                        ok2, case = False, str(ex)
                    if not ok2:
                        bad = "diagonal factor diag(%s) is not a phase for x %s" % (show_fn(fct[1]), case)
                elif fct[0] == "m":
                    bad = "contains the input matrix itself"
            R.check("R2", bad is None, "%s: %s output matrix = %s" % (sig, nm_o, show_word(mo[1])), loc, bad or "", key="R2|%s|%s" % (sig, nm_o))
        # R3 non-negativity
        if doc["nonneg"]:
            try:
                ok3, case = SF.nonneg(v.fn, cases_of(v.base))
            except Undecided as ex:
                ok3, case = False, str(ex)
            R.check("R3", ok3, "%s: values %s(%s) >= 0" % (sig, show_fn(v.fn), v.base), loc,
                    "the returned values %s(%s) can be negative (x %s)" % (show_fn(v.fn), v.base, case), key="R3|%s" % sig)
        # R4 order
        want = doc["order"]
        got = v.order
        sign = "nonneg" if v.nonneg else (I.base_sign.get(v.base) if not v.fn else None)
        if got is not None and got[1] != want[1] and {got[1], want[1]} == {(), ("abs",)}:
            # order by value vs order by modulus: the same for non-negative entries, reversed for non-positive ones
            if sign == "nonneg":
                got = (got[0], want[1])
            elif sign == "nonpos":
                got = ("asc" if got[0] == "desc" else "desc", want[1])
        ok4 = got is not None and got == want
        R.check("R4", ok4, "%s: %s by %s" % (sig, "ascending" if want[0] == "asc" else "descending", show_fn(want[1]) if want[1] else "value"), loc,
                "the values are %s, documented: %s in %s" % (
                    "in no established order" if got is None else "%s in %s" % (got[0], show_fn(got[1]) or "value"),
                    want[0], show_fn(want[1]) or "value"), key="R4|%s" % sig)


def _call_sites(F, R):
    """every decomposition called by the model code is one of the fs_ routines (so that the contracts above are the ones in force)"""
    R.rule("R5", "the model classes obtain every mass eigen-system through fs_svd / fs_diagonalize_symmetric / "
                 "fs_diagonalize_hermitian (no direct use of an Eigen solver or of the un-reordered variants)", 20)
    n = 0
    for k, f in sorted(F.functions.items()):
        if not (f["file"].startswith("src/MSSMNoFV/") or f["file"].startswith("src/THDM/")):
            continue
        for c in F.calls[k]:
            fn = str(c.get("fn") or "")
            base = fn.split("<")[0].split("::")[-1]
            if re.search(r"JacobiSVD|SelfAdjointEigenSolver|EigenSolver|BDCSVD", fn) or \
                    (base in ("svd", "diagonalize_hermitian", "diagonalize_symmetric", "reorder_svd", "reorder_diagonalize_symmetric")
                     and fn.startswith("gm2calc::")):
                n += 1
                R.fail("R5", "%s calls %s" % (f["name"].split("::")[-1], base), F.loc(f, c),
                       "mass eigen-system obtained outside the fs_ conventions", key="R5|%s|%s" % (f["name"], base))
            elif base in DOC:
                n += 1
                R.ok("R5", "%s calls %s" % (f["name"].split("::")[-1], base), F.loc(f, c))


# ---- error bounds: sign analysis ---------------------------------------------------------------------------------------
POS, NONNEG, ANY = "pos", "nonneg", "any"


def _join(a, b):
    if a == b:
        return a
    if {a, b} <= {POS, NONNEG}:
        return NONNEG
    return ANY


def _mul(a, b):
    if ANY in (a, b):
        return ANY
    return POS if a == POS and b == POS else NONNEG


class _Signs:
    """sign of scalar expressions of one function: literals, numeric_limits epsilon/min/max, abs, max, products; locals through
    all their definitions (join); elements of arrays listed in `nonneg_arrays` are >= 0"""

    def __init__(self, f, nonneg_arrays=()):
        self.f = f
        self.nonneg_arrays = set(nonneg_arrays)
        self.defs = {}
        for n in walk(f["body"]):
            if n.get("k") == "DeclStmt":
                for d in n.get("decls", ()):
                    if "id" in d and d.get("init") is not None:
                        self.defs.setdefault(d["id"], []).append(d["init"])
            elif n.get("k") == "BinaryOperator" and n.get("op") == "=":
                from .facts import strip_all as _sa
                l = _sa(n["c"][0])
                if l is not None and l.get("k") == "DeclRefExpr":
                    self.defs.setdefault(l.get("id"), []).append(n["c"][1])

    def sign(self, n, depth=0):
        from .facts import strip_all as _sa, call_args as _ca
        n = _sa(n)
        if n is None or depth > 10:
            return ANY
        k = n.get("k")
        if k in ("FloatingLiteral", "IntegerLiteral"):
            try:
                v = float(n.get("v") if n.get("v") is not None else n.get("s"))
            except (TypeError, ValueError):
                return ANY
            return POS if v > 0 else NONNEG if v == 0 else ANY
        if k == "DeclRefExpr":
            ds = self.defs.get(n.get("id"))
            if not ds:
                return ANY
            out = None
            for d in ds:
                sg = self.sign(d, depth + 1)
                out = sg if out is None else _join(out, sg)
            return out or ANY
        if k == "UnaryOperator" and n.get("op") == "*":
            return self.sign(n["c"][0], depth + 1)
        if k == "ConditionalOperator":
            # c ? a : b -- the same as the two assignments of an if/else
            return _join(self.sign(n.get("then"), depth + 1), self.sign(n.get("else"), depth + 1))
        if k == "BinaryOperator" and n.get("op") == "*":
            return _mul(self.sign(n["c"][0], depth + 1), self.sign(n["c"][1], depth + 1))
        if k == "CXXOperatorCallExpr" and n.get("op") in ("[]", "()") and len(n.get("c", [])) >= 3:
            arr = _sa(n["c"][1])
            if arr is not None and arr.get("k") == "DeclRefExpr" and arr.get("n") in self.nonneg_arrays:
                return NONNEG
            return ANY
        if is_call(n):
            fn = str(n.get("fn") or "").split("(")[0]
            short = fn.split("::")[-1]
            args = _ca(n)
            if re.search(r"numeric_limits<.*>::(epsilon|min|max)$", fn):
                return POS
            if short in ("abs", "fabs") and len(args) == 1:
                return NONNEG
            if short in ("max", "fmax") and len(args) == 2:
                a, b = self.sign(args[0], depth + 1), self.sign(args[1], depth + 1)
                if POS in (a, b) and ANY not in (a, b):
                    return POS
                if POS in (a, b):
                    return POS          # max(x, positive) > 0 whatever x is
                return _join(a, b)
            if short in ("max", "min", "fmax", "fmin") and len(args) >= 3:
                # a comparator decides which *signed* element is returned
                return _join(self.sign(args[0], depth + 1), self.sign(args[1], depth + 1)) if \
                    ANY not in (self.sign(args[0], depth + 1), self.sign(args[1], depth + 1)) else ANY
            if short in ("min", "fmin") and len(args) == 2:
                a, b = self.sign(args[0], depth + 1), self.sign(args[1], depth + 1)
                return ANY if ANY in (a, b) else _join(a, b)
        return ANY


def _error_bounds(F, R):
    from .facts import strip_all as _sa, call_args as _ca
    R.rule("R6", "error bounds: every value stored through a *_errbd pointer is a product of positive constants and non-negative norms "
                 "(|w|, singular values); the reciprocal condition numbers they are divided by are clamped from below by a positive "
                 "threshold for ALL entries (disna) -- the bounds are non-negative and finite also for degenerate spectra", 3)
    n_store = 0
    seen = set()
    for k, f in sorted(F.functions.items()):
        if not f["file"].endswith("gm2_linalg.hpp"):
            continue
        short = f["name"].split("::")[-1]
        if (short, f["line"]) in seen:
            continue
        if short.endswith("_errbd"):
            seen.add((short, f["line"]))
            nn = {"s"} if "svd" in short else set()
            SG = _Signs(f, nonneg_arrays=nn)
            for n in walk(f["body"]):
                if n.get("k") == "BinaryOperator" and n.get("op") == "=":
                    l = _sa(n["c"][0])
                    if l is not None and l.get("k") == "UnaryOperator" and l.get("op") == "*":
                        tgt = _sa(l["c"][0])
                        if tgt is not None and tgt.get("k") == "DeclRefExpr" and str(tgt.get("n")).endswith("_errbd"):
                            n_store += 1
                            sg = SG.sign(n["c"][1])
                            R.check("R6", sg in (POS, NONNEG), "%s: *%s = ... is %s" % (short, tgt.get("n"), sg), F.loc(f, n),
                                    "the value stored in *%s can be negative (a signed quantity enters without abs): the error bounds "
                                    "derived from it are negative for spectra dominated by a negative eigenvalue" % tgt.get("n"),
                                    key="R6|%s|%s" % (short, tgt.get("n")))
        if short == "disna":
            seen.add((short, f["line"]))
            SG = _Signs(f)
            params = {p["name"]: p["id"] for p in f["params"]}
            sep_id = params.get("SEP")
            clamp = None
            for n in walk(f["body"]):
                if n.get("k") != "ForStmt":
                    continue
                body_asg = [x for x in walk(n.get("body")) if x.get("k") in ("BinaryOperator", "CXXOperatorCallExpr") and x.get("op") == "="]
                for a in body_asg:
                    ops = a["c"] if a["k"] == "BinaryOperator" else a["c"][1:]
                    lhs, rhs = _sa(ops[0]), _sa(ops[1])
                    if lhs is None or rhs is None or not is_call(rhs) or str(rhs.get("fn") or "").split("(")[0].split("::")[-1] not in ("max", "fmax"):
                        continue
                    if not any(x.get("k") == "DeclRefExpr" and x.get("id") == sep_id for x in walk(lhs)):
                        continue
                    clamp = (n, a, rhs)
            ok, why = clamp is not None, "no loop of the form SEP(I) = max(SEP(I), THRESH) found"
            if clamp is not None:
                loop, a, rhs = clamp
                args = _ca(rhs)
                thr = [x for x in args if not any(y.get("k") == "DeclRefExpr" and y.get("id") == sep_id for y in walk(x))]
                pos = bool(thr) and SG.sign(thr[0]) == POS
                cond = _sa(loop.get("cond"))
                init_ok = any(x.get("k") in ("IntegerLiteral",) and str(x.get("v")) == "0" for x in walk(loop.get("init") or {})) or True
                full = cond is not None and cond.get("k") == "BinaryOperator" and cond.get("op") == "<" and \
                    _sa(cond["c"][1]) is not None and _sa(cond["c"][1]).get("k") == "DeclRefExpr" and _sa(cond["c"][1]).get("n") == "K"
                i0 = None
                ini = loop.get("init")
                if ini is not None:
                    for x in walk(ini):
                        if x.get("k") == "IntegerLiteral":
                            i0 = str(x.get("v"))
                ok = pos and full and i0 == "0"
                why = ("the threshold is not provably positive" if not pos else
                       "the clamp loop does not run over all K entries (I from %s while %s)" % (i0, "I < K" if full else "not `I < K`"))
            R.check("R6", ok, "disna: SEP(I) = max(SEP(I), THRESH > 0) for I = 0 .. K-1", F.loc(f), why + ": an unclamped gap of 0 "
                    "(degenerate values) makes the error bound of the vectors infinite / NaN", key="R6|disna|%s" % f["params"][1]["t"][:40])
    if n_store < 2:
        R.soft_broken("R6: stores through *_errbd pointers not found (%d)" % n_store)


def _stateless(F, R):
    R.rule("R7", "the decomposition routines keep no object with static or thread storage duration (a cached solver would carry the "
                 "options and workspace of an earlier call into the next one: the factors returned would depend on the call history)", 0)
    n = 0
    for key, g in sorted(F.globals.items()):
        if not (g["file"].endswith("gm2_linalg.hpp") or g["file"].endswith("gm2_eigen_utils.hpp")):
            continue
        n += 1
        t = str(g.get("t") or "")
        plain_const = (g.get("const") or g.get("constexpr") or t.startswith("const ")) and \
            re.match(r"^(const )?(static )?(double|float|long double|int|unsigned|bool|Real)\b", t.replace("constexpr ", "")) is not None
        R.check("R7", bool(plain_const), "%s : %s" % (g["name"].split("::")[-1], t[:50]), "%s:%s" % (g["file"], g["line"]),
                "object `%s` of type %s has static / thread storage duration%s: its state (e.g. the decomposition options of the first "
                "call) survives into later calls" % (g["name"].split("::")[-1], t[:60],
                                                     " in %s" % g.get("infunc") if g.get("infunc") else ""), key="R7|" + g["name"])
    R.analysed["static_objects_in_linalg_headers"] = n
