"""C13 -- SLHA input is interpreted by content, not by layout (structural clauses K1..K6)."""
import importlib.util
import os
import re

from .facts import walk, kids, strip_all, call_args, call_object, is_call, in_macro
from .structure import Struct, switch_arms, always_exits
from .terms import Evaluator, Frame, show, num, subst_fold
from .render import Renderer
from .throwmodel import _unq
from . import readme
from .extract import AnalysisBroken, VERIF

PID = "C13"
LEVEL = "other"


def _spec():
    p = os.path.join(VERIF, "specs", "slha_keys.py")
    spec = importlib.util.spec_from_file_location("slha_keys", p)
    m = importlib.util.module_from_spec(spec)
    spec.loader.exec_module(m)
    return m


def _norm_value(s):
    s = s.replace(" ", "")
    s = re.sub(r"\(?157079632679489661923/12500000000000000000\*value\)?", "4*pi*value", s)
    s = re.sub(r"^\((.*)\)$", r"\1", s)
    s = s.replace("(1/value)", "1/value")
    return s


def code_table(F, f):
    """{key: [(target, value)]} of one process_*_tuple function, by abstract evaluation per case label"""
    sws = [n for n in walk(f["body"]) if n.get("k") == "SwitchStmt"]
    labels = [l for sw in sws for labs, st in switch_arms(sw) for l in labs]
    # dispatch written as an if / else-if chain: keys compared with the key parameter
    keyp = f["params"][1]["id"] if len(f["params"]) > 1 else None
    for n in walk(f["body"]):
        if n.get("k") == "BinaryOperator" and n.get("op") in ("==", "!="):
            a, b = [strip_all(x) for x in n["c"]]
            for x, y in ((a, b), (b, a)):
                if x.get("k") == "DeclRefExpr" and x.get("id") == keyp and ("iv" in y or y.get("k") == "IntegerLiteral"):
                    lab = str(y.get("iv", y.get("v")))
                    if lab not in [str(l) for l in labels]:
                        labels.append(lab)
    if not labels:
        raise AnalysisBroken("%s: no key dispatch (switch or == chain) found" % f["name"])
    tgt = f["params"][0]
    out = {}
    for lab in labels + ["unknown"]:
        key = 987654321 if lab in ("default", "unknown") else int(lab)
        if lab == "default":
            continue
        E = Evaluator(F, inline=lambda n, g: n.endswith("read_double_non_zero") or n.endswith("::get_physical"))
        v, fr = E.function_value(f, args=[("sym", tgt["name"]), num(key), ("sym", "value")])
        rows = []
        for k, val in fr.heap.items():
            t = show(k) if isinstance(k, tuple) else str(k)
            vs = show(val)
            m = re.match(r"^\(!is_zero\(value, .*\) \? value : (.*)\)$", vs) or \
                re.match(r"^\(is_zero\(value, .*\) \? (.*) : value\)$", vs)
            if m:
                vs = "nonzero(value)"
            rows.append((t, _norm_value(vs)))
        for c, t, n in E.effects:
            s = show(t)
            if "cerr" in s:
                continue
            if t[1] == "assign":
                rows.append((show(t[2][0]), _norm_value(show(t[2][1]))))
            elif str(t[1]).split("::")[-1] in ("read_bool", "read_integer"):
                rows.append(("%s:%s" % (str(t[1]).split("::")[-1], show(t[2][1])),
                             ",".join(show(a) for a in t[2][2:-1]) if len(t[2]) > 3 else ""))
            else:
                args = t[2]
                rows.append(("%s(%s)" % (str(t[1]).split("::")[-1], ", ".join(show(a) for a in args[:-1])),
                             _norm_value(show(args[-1]))))
            if c is not None:
                rows[-1] = (rows[-1][0], rows[-1][1] + " if " + show(c))
        out["unknown" if lab == "unknown" else key] = sorted(rows)
    return out


def run(F, R, tier):
    S = _spec()
    R.explanation = (
        "Structural clauses of 'interpreted by content': (K1) every numeric conversion consumes the whole token "
        "(position out-parameter compared with the token length) and (K2) rejects non-finite values, every "
        "failure becoming EReadError (no handler swallows one); (K3) the 14 key->parameter switch tables, "
        "extracted by abstract evaluation per case label, equal an independent statement of the documented "
        "tables (SLHA conventions, PDG codes, README/example comments) and agree between sibling readers; "
        "(K4) exactly HMIX, AU, AD, AE, MSOFT are read at the model scale, after the scale is fixed from the "
        "last HMIX block, with an absolute tolerance; block lookup by name always goes through SLHAea's "
        "case-insensitive find; (K5) unknown keys write nothing; (K6) configuration fields are written only "
        "through the validating readers with the README's bounds.")
    R.assumptions = ["SLHAea tokenisation (comments, whitespace, case-insensitive find) is as documented",
                     "specs/slha_keys.py states the documented tables; each row's keyword is checked against README/examples"]
    R.undecided = ["SLHAea's tokeniser itself (comments, blank lines, order of blocks within find())"]

    # ---------------- K1 / K2 ------------------------------------------------------
    R.rule("K1", "every std::sto* conversion passes a position out-parameter and `pos != str.size()` leads to a throw "
                 "on the path to the normal return; other conversions are lexical casts", 8)
    R.rule("K2", "non-finite values are rejected and every handler of the conversion ends in EReadError "
                 "(no failure is swallowed or re-parsed)", 3)
    convs = F.fns("gm2calc::GM2_slha_io::convert_to")
    seen_sites = 0
    for f in convs:
        St = Struct(f)
        Rr = Renderer(f)
        tries = [n for n in walk(f["body"]) if n.get("k") == "CXXTryStmt"]
        inst = "convert_to<%s>" % (f["ret"] or "?")
        if len(tries) != 1:
            R.fail("K2", inst, F.loc(f), "expected exactly one try block around the conversions", key="K2|try")
            continue
        tr = tries[0]
        posvars = set()
        for n in walk(tr["c"][0]):
            if is_call(n) and re.match(r"^std::sto(i|l|ll|ul|ull|f|d|ld)$", n.get("fn") or ""):
                from .rules_c14 import is_dead
                if is_dead(St, n):
                    continue
                seen_sites += 1
                args = call_args(n)
                a1 = strip_all(args[1]) if len(args) > 1 else None
                ok = a1 is not None and a1.get("k") == "UnaryOperator" and a1.get("op") == "&" and \
                    strip_all(a1["c"][0]).get("k") == "DeclRefExpr"
                if ok:
                    posvars.add(strip_all(a1["c"][0])["id"])
                R.check("K1", bool(ok), "%s: %s(str, &pos)" % (inst, n["fn"]), F.loc(f, n),
                        "%s is called without a position out-parameter: trailing characters are ignored" % n["fn"],
                        key="K1|%s|pos" % n["fn"])
            elif is_call(n) and re.search(r"^(std::)?(strto\w+|atof|atoi|atol|sscanf)$", n.get("fn") or ""):
                R.fail("K1", "%s: %s" % (inst, n["fn"]), F.loc(f, n), "C conversion without full-token check",
                       key="K1|%s" % n["fn"])
        # the full-token test and the finiteness test: top-level ifs of the try block that throw
        top = tr["c"][0].get("c", [])
        tok = fin = False
        for s_ in top:
            if s_.get("k") == "IfStmt" and always_exits(s_.get("then")) and \
                    any(x.get("k") == "CXXThrowExpr" for x in walk(s_["then"])):
                txt = Rr.r(s_["cond"])
                if re.search(r"\(pos != str\.(size|length)\(\)\)|\(str\.(size|length)\(\) != pos\)|\(pos < str\.(size|length)\(\)\)", txt):
                    tok = True
                if re.search(r"!\(isfinite\(", txt):
                    fin = True
        if posvars:
            R.check("K1", tok, "%s: whole-token test" % inst, F.loc(f, tr),
                    "no unconditional `pos != str.size()` -> throw after the conversion", key="K1|token")
        R.check("K2", fin, "%s: finiteness test" % inst, F.loc(f, tr),
                "no unconditional `!isfinite(value)` -> throw after the conversion", key="K2|finite")
        for h in tr["c"][1:]:
            body = h["body"]
            ths = [x for x in walk(body) if x.get("k") == "CXXThrowExpr"]
            ok = always_exits(body) and ths and all(_unq(x.get("tt")) == "gm2calc::EReadError" for x in ths) and \
                len(body.get("c", [])) == 1
            R.check("K2", bool(ok), "%s: catch(%s) -> EReadError" % (inst, h.get("ct") or "..."), F.loc(f, h),
                    "handler does more than convert the failure into EReadError (a failed conversion can be "
                    "swallowed or re-parsed)", key="K2|handler|%s" % (h.get("ct") or "..."))
        last = tr["c"][-1]
        R.check("K2", last.get("ct") is None, "%s: last handler is catch(...)" % inst, F.loc(f, last),
                "conversion failures of other types escape as foreign exceptions", key="K2|catchall")
        # the function returns only after the try statement
        rets = [n for n in walk(f["body"]) if n.get("k") == "ReturnStmt"]
        R.check("K1", len(rets) == 1 and not St.contains(tr, rets[0]), "%s: single return after the checks" % inst,
                F.loc(f), "value is returned from inside the try block before the checks", key="K1|return")
    if seen_sites < 2:
        R.broken("K1: only %d live std::sto* conversion sites found" % seen_sites)
    # ---- K9: a file is read into an empty container ------------------------------------------------------------------
    R.rule("K9", "read_from_file empties the SLHA container before it reads (a second file read with the same object must not inherit "
                 "blocks of the first): data.clear() precedes the read on the path that reads", 1)
    for f9 in F.by_name.get("gm2calc::GM2_slha_io::read_from_file", []):
        St9 = Struct(f9)
        reads = [n for n in walk(f9["body"]) if is_call(n) and (str(n.get("fn") or "").endswith("Coll::read") or
                                                                 str(n.get("fn") or "").endswith("GM2_slha_io::read_from_stream"))]
        ok9, why9 = bool(reads), "no read call found"
        for rd in reads:
            before = St9.executed_before(rd)
            cleared = any(is_call(y) and re.search(r"(Coll|GM2_slha_io)::clear$", str(y.get("fn") or "")) for b in before for y in walk(b))
            # a callee that clears itself counts as well
            if not cleared and str(rd.get("fn") or "").endswith("read_from_stream"):
                g9 = F.functions.get(rd.get("mg"))
                cleared = g9 is not None and any(is_call(y) and re.search(r"Coll::clear$", str(y.get("fn") or "")) for y in walk(g9["body"]))
            if not cleared:
                ok9, why9 = False, "the container is not cleared before the read at line %s: blocks of an earlier file stay in it" % rd.get("l")
        R.check("K9", ok9, "read_from_file: clear() before read", F.loc(f9), why9, key="K9|read_from_file")

    # ---- K8: case-insensitive block lookup inside SLHAea ----------------------------------------------------------
    R.rule("K8", "block names are matched case-insensitively: SLHAea::Coll::find / count locate blocks through key_matches, whose "
                 "comparison is boost::iequals (the repository's copy of slhaea.h is part of the analysed source)", 2)
    km = [f for f in F.functions.values() if f["name"] == "SLHAea::Coll::key_matches::operator()"]
    ok8 = bool(km) and any(is_call(n) and re.search(r"(^|::)iequals$", str(n.get("fn") or "").split("<")[0]) for n in walk(km[0]["body"])) \
        and not any(n.get("k") in ("BinaryOperator", "CXXOperatorCallExpr") and n.get("op") in ("==", "!=") for n in walk(km[0]["body"]))
    R.check("K8", ok8, "Coll::key_matches compares with boost::iequals", F.loc(km[0]) if km else "src/slhaea.h",
            "block names are compared case-sensitively (or not through iequals): `Block sminputs` would no longer be read", key="K8|iequals")
    finds = [f for f in F.functions.values() if f["name"] == "SLHAea::Coll::find" and f["file"].endswith("slhaea.h")]
    ok8b = bool(finds) and all(any(n.get("k") in ("CXXConstructExpr", "CXXTemporaryObjectExpr", "CXXFunctionalCastExpr") and "key_matches" in str(n.get("t") or n.get("fn") or "")
                                   for n in walk(f_["body"])) for f_ in finds)
    R.check("K8", ok8b, "%d Coll::find overloads search with key_matches" % len(finds), F.loc(finds[0]) if finds else "src/slhaea.h",
            "Coll::find does not use the case-insensitive predicate", key="K8|find")

    # ---- K1c: the fallback conversion SLHAea::to<T> is a whole-token lexical cast ---------------------------------
    R.rule("K1c", "SLHAea::to<Target>(token), the fallback of convert_to and the converter of the SLHAea container itself, returns "
                  "boost::lexical_cast<Target>(token) (which rejects a token that is not consumed entirely) on its only path", 1)
    tos = [g for g in F.by_name.get("SLHAea::to", []) if g.get("body") is not None]
    if not tos:
        R.soft_broken("K1c: no instantiation of SLHAea::to found")
    for g in tos:
        body = g["body"].get("c", []) if g["body"].get("k") == "CompoundStmt" else [g["body"]]
        ok = len(body) == 1 and body[0].get("k") == "ReturnStmt" and body[0].get("c")
        if ok:
            c = strip_all(body[0]["c"][0])
            while c is not None and c.get("k") in ("CXXConstructExpr",) and len(c.get("c", [])) == 1:
                c = strip_all(c["c"][0])
            ok = c is not None and is_call(c) and str(c.get("fn") or "").split("<")[0] == "boost::lexical_cast"
        if not ok:
            # a different implementation: a definite alarm only for the known partial parsers (stream extraction, sto*/strto*/ato*)
            partial = any(is_call(x) and (x.get("op") == ">>" or re.search(r"(^|::)(sto[a-z]+|strto[a-z]+|ato[a-z])$", str(x.get("fn") or "")))
                          for x in walk(g["body"]))
            if not partial:
                R.soft_broken("K1c: SLHAea::to<%s> is implemented in a way this rule does not model" % (g.get("ret") or "?"))
                continue
        R.check("K1c", bool(ok), "SLHAea::to<%s> is boost::lexical_cast" % (g.get("ret") or "?"), F.loc(g),
                "SLHAea::to is not a plain boost::lexical_cast any more: a stream extraction or a partial parse accepts tokens such as "
                "`2x` or `3.7` for an integer index", key="K1c|%s" % (g.get("ret") or "?"))

    # ---- K7: a parsed integer is not narrowed afterwards ---------------------------------------------------------
    R.rule("K7", "a parsed key / index token is not narrowed to a smaller integer type without a range test (a token that "
                 "overflows the type it is used as must be rejected, not aliased to another key)", 0)
    from .rules_c14 import narrowing_check
    nn, nd = narrowing_check(F, R, "K7")
    _chain = any(x.get("k") == "DeclRefExpr" and re.search(r"is_same|integral_constant<bool", str(x.get("n") or ""))
                 for g_ in F.by_name.get("gm2calc::GM2_slha_io::convert_to", []) for x in walk(g_["body"]))
    if nn < 2 and _chain:      # positive control, meaningful only while convert_to<> has dead type branches
        R.soft_broken("K7: the narrowing sites of convert_to<> (dead template branches) were not seen: extraction incomplete")
    # all token conversions in the reader go through convert_to
    R.rule("K1b", "every token read from a data line / block header in GM2_slha_io is converted through convert_to", 6)
    for k, f in sorted(F.functions.items()):
        if not f["name"].startswith("gm2calc::GM2_slha_io::") or f["name"].endswith("::convert_to"):
            continue
        for n in walk(f["body"]):
            if is_call(n) and re.search(r"^(SLHAea::to|boost::lexical_cast|std::sto\w+|std::strto\w+|atof|atoi)$", n.get("fn") or ""):
                tt = _unq(n.get("t"))
                if tt not in ("std::basic_string<char>",):
                    R.fail("K1b", "%s: %s" % (f["name"], n["fn"]), F.loc(f, n),
                           "token converted with %s instead of convert_to (no EReadError, no whole-token/finite check)" % n["fn"],
                           key="K1b|%s|%s" % (re.sub(r"<.*", "", f["name"]), n["fn"]))
            if is_call(n) and (n.get("fn") or "").endswith("GM2_slha_io::convert_to"):
                R.ok("K1b", "%s -> convert_to<%s>" % (f["name"].split("::")[-1], n.get("t")), F.loc(f, n))

    # ---------------- K5m: matrix / vector block readers write only the named entries -------------
    R.rule("K5m", "read_matrix / read_vector touch their output only through element assignments indexed by the parsed "
                  "keys of a data line (no whole-object write such as setZero, fill or assignment): entries a block does "
                  "not name keep the value given by earlier blocks", 2)
    for f in sorted(F.functions.values(), key=lambda g: (g["name"], g["line"], g.get("mg") or "")):
        short = f["name"].split("::")[-1]
        if short not in ("read_matrix", "read_vector") or len(f["params"]) != 2 or not f.get("body"):
            continue
        outp = f["params"][1]
        S_ = Struct(f)
        bad = []
        n_assign = 0
        for n in walk(f["body"]):
            if n.get("k") != "DeclRefExpr" or n.get("id") != outp["id"]:
                continue
            # climb to the enclosing call / operator
            p_ = S_.parent(n)
            while p_ is not None and p_.get("k") in ("ImplicitCastExpr", "ParenExpr", "MemberExpr"):
                n, p_ = p_, S_.parent(p_)
            k_ = p_.get("k") if p_ is not None else None
            if k_ == "CXXMemberCallExpr":
                mname = str(p_.get("fn", "")).split("::")[-1]
                if mname in ("rows", "cols", "size"):
                    continue
                bad.append("%s() at line %s" % (mname, p_.get("l")))
            elif k_ == "CXXOperatorCallExpr" and p_.get("op") == "()":
                gp = S_.parent(p_)
                while gp is not None and gp.get("k") in ("ImplicitCastExpr", "ParenExpr"):
                    p_, gp = gp, S_.parent(gp)
                if gp is not None and gp.get("k") == "BinaryOperator" and gp.get("op") == "=" and strip_all(gp["c"][0]) is strip_all(p_):
                    n_assign += 1
                elif gp is not None and gp.get("k") == "CXXOperatorCallExpr" and gp.get("op") == "=" and len(gp.get("c", [])) >= 2 \
                        and strip_all(gp["c"][1]) is strip_all(p_):
                    n_assign += 1          # std::complex<double>::operator=(double) on the element
                else:
                    bad.append("element access that is not a plain assignment at line %s" % p_.get("l"))
            else:
                bad.append("use in %s at line %s" % (k_, (p_ or {}).get("l")))
        R.check("K5m", not bad and n_assign == 1, "%s<%s>: %d element assignment(s), no whole-object write"
                % (short, (outp["t"] or "")[-40:], n_assign), F.loc(f),
                "%s writes its output other than entry by entry from the data lines: %s" % (short, "; ".join(bad) or "no element assignment found"),
                key="K5m|%s|%s" % (short, outp["t"]))

    # ---------------- K3 / K5 tables ----------------------------------------------------------
    procs = [f for f in F.functions.values() if re.search(r"::process_\w+_tuple$", f["name"])]
    R.rule("K3", "each key of each process_*_tuple switch sets exactly the documented parameter with the documented "
                 "transform (independent table: SLHA conventions, PDG codes, README)", 150)
    R.rule("K5", "an unknown key writes nothing (default arm has no effect on the target)", 13)
    tables = {}
    for f in sorted(procs, key=lambda f: (f["name"], f["params"][0]["t"])):
        short = f["name"].split("::")[-1]
        ttype = re.sub(r"^.*::", "", (f["params"][0]["t"] or "").replace(" &", "").replace("const ", ""))
        if short == "process_gm2calcconfig_tuple":
            continue
        spec = S.TABLES.get((short, ttype))
        if spec is None:
            R.fail("K3", "%s(%s)" % (short, ttype), F.loc(f), "reader without a documented table", key="K3|%s|%s|undoc" % (short, ttype))
            continue
        block, want = spec
        got = code_table(F, f)
        tables[(short, ttype)] = got
        unk = got.pop("unknown")
        R.check("K5", not unk, "%s(%s) unknown key" % (short, ttype), F.loc(f),
                "an unknown key has an effect: %s" % unk, key="K5|%s|%s" % (short, ttype))
        for key in sorted(set(got) | set(want)):
            g = got.get(key)
            w = want.get(key)
            inst = "%s[%s] in %s(%s)" % (block, key, short, ttype)
            if w is None:
                if g:
                    R.fail("K3", inst, F.loc(f), "undocumented key sets %s" % g, key="K3|%s|%s|%s|extra" % (short, ttype, key))
                continue
            wt, wv, _kw = w
            if wt is None:
                R.check("K3", not g, inst + " ignored", F.loc(f), "documented as ignored, but sets %s" % g,
                        key="K3|%s|%s|%s" % (short, ttype, key))
                continue
            R.check("K3", g == [(wt, wv)], inst + " -> %s := %s" % (wt, wv), F.loc(f),
                    "sets %s, documented: %s := %s" % (g, wt, wv), key="K3|%s|%s|%s" % (short, ttype, key))
    # documentation cross-check of the spec rows
    R.rule("K3d", "the comment of each documented (block, key) row in README.md / input/example.* names the quantity "
                  "the table assigns (keeps the independent table honest)", 60)
    docs = readme.example_blocks(F.repo)
    for fn in ("example.slha", "example.gm2", "example.thdm"):
        try:
            with open(os.path.join(F.repo, "input", fn)) as fh:
                docs += readme.parse_slha_text("\n".join("    " + l for l in fh.read().splitlines()))
        except OSError:
            pass
    by_block = {}
    for b, rows in docs:
        for keys, val, comment in rows:
            if len(keys) == 1:
                by_block.setdefault(b.upper(), {}).setdefault(keys[0], set()).add(comment)
    for (short, ttype), (block, want) in sorted(S.TABLES.items()):
        for key, (wt, wv, kw) in sorted(want.items()):
            cs = by_block.get(block.upper(), {}).get(key)
            if not cs or kw is None:
                continue
            ok = any(re.search(kw, c) for c in cs)
            if not ok:
                R.broken("K3d: spec row %s[%s] (%s) does not match the documentation comments %s" % (block, key, wt, sorted(cs)))
            R.ok("K3d", "%s[%s] '%s' ~ /%s/" % (block, key, sorted(cs)[0][:40], kw))

    # ---------------- K4 scale ------------------------------------------------------------------
    R.rule("K4", "exactly HMIX, AU, AD, AE, MSOFT are read at the model scale; the scale is fixed from HMIX before; "
                 "scale comparison is absolute with the documented tolerance; the last block of a name wins", 20)
    for k, f in sorted(F.functions.items()):
        if not f["name"].startswith("gm2calc::GM2_slha_io::"):
            continue
        Rr = Renderer(f)
        for n in walk(f["body"]):
            if is_call(n) and (n.get("fn") or "").endswith("GM2_slha_io::read_block"):
                args = call_args(n)
                a0 = strip_all(args[0]) if args else None
                lit = None
                for x in walk(args[0]) if args else ():
                    if x.get("k") == "StringLiteral":
                        lit = x.get("v")
                if lit is None or len(args) < 3:
                    continue
                scaled = args[2].get("k") != "CXXDefaultArgExpr"
                stxt = Rr.r(args[2]) if scaled else "default 0"
                inst = "read_block(\"%s\", ..., %s) in %s" % (lit, stxt, f["name"].split("::")[-1])
                if lit in S.SCALED_BLOCKS:
                    R.check("K4", scaled and re.match(r"^model\.get_scale\(\)$", stxt) is not None, inst, F.loc(f, n),
                            "scale-dependent block %s is read without the model scale" % lit, key="K4|%s|scaled" % lit)
                elif lit in S.UNSCALED_BLOCKS:
                    R.check("K4", not scaled, inst, F.loc(f, n), "block %s must be read irrespective of Q" % lit,
                            key="K4|%s|unscaled" % lit)
                else:
                    R.fail("K4", inst, F.loc(f, n), "block %s is not in the documented set" % lit, key="K4|%s|unknown" % lit)
    # order in fill_slha
    f = F.fn("gm2calc::GM2_slha_io::fill_slha")
    names = [(x.get("fn") or "").split("::")[-1] for s_ in f["body"].get("c", []) for x in walk(s_) if is_call(x)
             and (x.get("fn") or "").startswith("gm2calc::GM2_slha_io::fill")]
    ok = "fill_scale" in names and all(names.index("fill_scale") < names.index(x) for x in
                                       ("fill_from_hmix", "fill_from_A", "fill_from_msoft") if x in names) and \
        all(x in names for x in ("fill_from_hmix", "fill_from_A", "fill_from_msoft"))
    R.check("K4", ok, "fill_slha: fill_scale precedes the scale-dependent readers: %s" % names, F.loc(f),
            "scale is not fixed before HMIX/A/MSOFT are read", key="K4|order")
    f = F.fn("gm2calc::GM2_slha_io::fill_scale")
    E = Evaluator(F, inline=lambda n, g: False)
    v, fr = E.function_value(f)
    sets = [show(t) for c, t, n in E.effects if str(t[1]).endswith("set_scale")]
    R.check("K4", sets == ["set_scale(model, read_scale(this, HMIX))"], "fill_scale: %s" % sets, F.loc(f),
            "model scale is not the scale of the HMIX block", key="K4|fill_scale")
    # is_at_scale: absolute comparison, default eps from the declaration
    f = F.fn("gm2calc::GM2_slha_io::is_at_scale")
    E = Evaluator(F, inline=lambda n, g: False)
    v, fr = E.function_value(f)
    sv = show(v)
    ok = re.match(r"^\(is_zero\(scale, epsilon\(\)\) \? 1 : is_equal\((scale, read_scale\(block\)|read_scale\(block\), scale), eps\)\)$", sv) is not None
    R.check("K4", ok, "is_at_scale = " + sv[:120], F.loc(f),
            "block scale is not compared with the absolute-tolerance is_equal(scale, block_scale, eps)", key="K4|is_at_scale")
    eps_vals = set()
    for k2, g in F.functions.items():
        for n in walk(g["body"]):
            if is_call(n) and (n.get("fn") or "").endswith("GM2_slha_io::is_at_scale"):
                a = call_args(n)
                if len(a) == 3 and a[2].get("k") == "CXXDefaultArgExpr" and a[2].get("c"):
                    eps_vals.add(show(Frame(Evaluator(F), g, {}, ("this",), 0).e(a[2]["c"][0])))
                elif len(a) == 3:
                    eps_vals.add("explicit:" + Renderer(g).r(a[2]))
    R.check("K4", eps_vals == {"1/100"}, "is_at_scale tolerance %s" % sorted(eps_vals), F.loc(f),
            "scale tolerance differs from the documented 0.01", key="K4|eps")
    # last block wins + case-insensitive lookup through SLHAea::Coll::find
    for f in F.fns("gm2calc::GM2_slha_io::read_scale") + F.fns("gm2calc::GM2_slha_io::read_block"):
        if not (f["params"] and "basic_string" in (f["params"][0]["t"] or "")):
            continue
        loops = [n for n in walk(f["body"]) if n.get("k") in ("WhileStmt", "ForStmt", "CXXForRangeStmt")]
        finds = [n for n in walk(f["body"]) if is_call(n) and (n.get("fn") or "") == "SLHAea::Coll::find"]
        inst = "%s(%s...) iterates all blocks of the name via SLHAea::Coll::find" % (f["name"].split("::")[-1], "block_name")
        ok = len(loops) == 1 and len(finds) >= 2
        # the find that advances to the next match sits in the loop (body, or the increment of a for statement)
        in_loop = [x for x in finds if any(y is x for y in walk(loops[0]))] if loops else []
        R.check("K4", bool(ok and in_loop), inst, F.loc(f),
                "blocks are not looked up through the case-insensitive SLHAea find in a loop over all matches",
                key="K4|%s|find" % re.sub(r"<.*", "", f["name"]))
        if f["name"].split("::")[-1].startswith("read_block") and loops:
            # every block that passes the scale filter is read, in file order (entries named only by an earlier block survive)
            per_block = [n for n in walk(f["body"]) if is_call(n) and str(n.get("fn") or "").split("<")[0].endswith("GM2_slha_io::read_block")
                         and n.get("mg") in F.functions and "Block" in str(F.functions[n["mg"]]["params"][0].get("t"))]
            Sx = Struct(f)
            Rx = Renderer(f, resolve_locals=False)
            okb, whyb = bool(per_block), "no per-block reader call"
            early = [y for y in walk(loops[0].get("body") or {}) if y.get("k") in ("BreakStmt", "ReturnStmt", "GotoStmt")]
            if early:
                okb, whyb = False, "the loop over the blocks is left early (line %s): blocks after the first match are never read" % early[0].get("l")
            rev = [y for y in walk(f["body"]) if is_call(y) and re.search(r"::c?r(begin|end)$", str(y.get("fn") or ""))]
            if okb and rev:
                okb, whyb = False, "the blocks are traversed in reverse order (line %s): with the earlier-blocks-first rule a later block must " \
                                   "be read after, not before, the earlier ones" % rev[0].get("l")
            for n in (per_block if okb else []):
                if not any(y is n for y in walk(loops[0])):
                    okb, whyb = False, "the per-block reader at line %s runs outside the loop over the blocks: only one block is read" % n.get("l")
                    break
                gs = [(Rx.r(c), pol) for c, pol in Sx.guards(n) if c != "switch" and not any(c is loops[0].get("cond") for _ in [0])]
                gs = [(t, pol) for t, pol in gs if "cend()" not in t and "end()" not in t]
                if not (len(gs) == 1 and gs[0][1] is True and gs[0][0].startswith("is_at_scale(")):
                    okb, whyb = False, "the per-block reader is conditional on %s (documented: every block at the scale)" % gs
                    break
            R.check("K4", okb, "%s(block_name, ...): every block at the scale is read inside the loop" % f["name"].split("::")[-1],
                    F.loc(f), whyb, key="K4|%s|every" % re.sub(r"<.*", "", f["name"]) + ("|m" if "Matrix" in str(f["params"][1].get("t")) else "|p"))
    for k, f in sorted(F.functions.items()):
        if f["file"] not in ("src/gm2_slha_io.cpp", "src/gm2_slha_io.hpp", "src/gm2calc.cpp"):
            continue
        for n in walk(f["body"]):
            if n.get("k") in ("CXXOperatorCallExpr", "BinaryOperator") and n.get("op") in ("==", "!="):
                if any(is_call(x) and (x.get("fn") or "") in ("SLHAea::Block::name",) for x in walk(n)):
                    R.fail("K4", "%s: block name compared with %s" % (f["name"], n["op"]), F.loc(f, n),
                           "case-sensitive comparison of a block name (block names are case-insensitive)",
                           key="K4|%s|namecmp" % re.sub(r"<.*", "", f["name"]))
    # read_scale(block): last Q= wins and goes through convert_to
    f = [g for g in F.fns("gm2calc::GM2_slha_io::read_scale") if "Block" in (g["params"][0]["t"] or "")]
    if len(f) != 1:
        R.broken("read_scale(Block) not found")

    # ---------------- K6 config ---------------------------------------------------------------------
    R.rule("K6", "GM2CalcConfig fields are written only through read_bool/read_integer with the README's value ranges", 9)
    tab = readme.config_table(F.repo)
    f = [g for g in procs if g["name"].endswith("process_gm2calcconfig_tuple")]
    if len(f) != 1:
        R.broken("process_gm2calcconfig_tuple not found")
    f = f[0]
    got = code_table(F, f)
    got.pop("unknown", None)
    for entry, (fld, reader, lo, hi) in sorted(S.CONFIG.items()):
        g = got.get(entry, [])
        poss = re.findall(r"`(\d+)`", tab[entry][1])
        doc_lo, doc_hi = (int(poss[0]), int(poss[-1])) if poss else (None, None)
        if (doc_lo, doc_hi) != (lo, hi):
            R.broken("K6: README range of GM2CalcConfig[%d] is %s..%s, spec says %d..%d" % (entry, doc_lo, doc_hi, lo, hi))
        want_t = "%s:config_options.%s" % (reader, fld)
        ok = len(g) == 1 and g[0][0] == want_t and (reader == "read_bool" or g[0][1] == "%d,%d" % (lo, hi))
        R.check("K6", ok, "GM2CalcConfig[%d] -> %s [%d..%d]" % (entry, want_t, lo, hi), F.loc(f),
                "entry %d is handled as %s" % (entry, g), key="K6|%d" % entry)
    # accepting conditions of the validators
    for nm, rx in (("read_bool", r"^\(\(value == 0\) \|\| \(value == 1\)\)$"),
                   ("read_integer", r"^\(\(is_integer\(value\) && \(min <= value\)\) && \(value <= max\)\)$")):
        for g in [x for x in F.functions.values() if x["name"].endswith("::" + nm) and len(x["params"]) >= 3]:
            Rr = Renderer(g)
            ifs = [n for n in g["body"].get("c", []) if n.get("k") == "IfStmt"]
            ok = len(ifs) == 1 and re.match(rx, Rr.r(ifs[0]["cond"])) is not None and \
                ifs[0].get("else") is not None and always_exits(ifs[0]["else"]) and \
                any(x.get("k") == "CXXThrowExpr" for x in walk(ifs[0]["else"]))
            R.check("K6", ok, "%s accepts exactly %s" % (nm, rx.strip("^$").replace("\\", "")), F.loc(g),
                    "validator condition changed: %s" % (Rr.r(ifs[0]["cond"]) if ifs else "?"), key="K6|%s|cond" % nm)
    # no direct assignment to Config_options fields in the reader
    for k, g in sorted(F.functions.items()):
        if g["file"] not in ("src/gm2_slha_io.cpp", "src/gm2_slha_io.hpp"):
            continue
        for n in walk(g["body"]):
            if n.get("k") in ("BinaryOperator", "CompoundAssignOperator") and n.get("op") == "=":
                l = strip_all(n["c"][0])
                if l.get("k") == "MemberExpr" and (l.get("n") or "").startswith("gm2calc::Config_options::"):
                    R.fail("K6", "%s assigns %s directly" % (g["name"], l["sn"]), F.loc(g, n),
                           "configuration field written without validation", key="K6|direct|%s" % l["sn"])
