"""C11 -- no spurious singularities: every coincidence-type pole of a rational coefficient is guarded."""
import re
from fractions import Fraction

from .facts import walk, kids, strip_all, call_args, is_call
from .terms import Evaluator, Frame, show, num, subterms, subst_fold
from .poly import to_rat, Rat, Poly, NotPolynomial
from .extract import AnalysisBroken

PID = "C11"
LEVEL = "other"

SCOPE = ("src/THDM/gm2_2loop_B.cpp", "src/THDM/gm2_2loop_F.cpp", "src/THDM/gm2_1loop_H.cpp", "src/gm2_ffunctions.cpp",
         "src/MSSMNoFV/gm2_1loop.cpp", "src/MSSMNoFV/gm2_2loop.cpp", "src/THDM/THDM.cpp")
OPAQUE = re.compile(r"^gm2calc::(thdm::)?(\(anonymous namespace\)::)?(Fa|Fb|Ixyz|Iabc|F1C|F2C|F3C|F4C|F1N|F2N|F3N|F4N|G3|G4|"
                    r"f_PS|f_S|f_sferm|dilog|clausen_2|Phi|lambda_2|FPZ|FSZ|FCWl|FCWu|FCWd|f_CSl|f_CSd|f_CSu|"
                    r"is_equal_rel|is_equal|is_zero|sort|phi_uv|phi_pos|phi_neg|phi_over_y)$")
INLINE_HELPERS = re.compile(r"::(sqr|cube|pow3|pow4|pow5|pow2|shift|sign|abs_sqrt|I1y|Ixx|I0y)$")
# helpers with a caller-side contract ("x == 1, y != 0"): analysed only inlined into their callers
AT_CALL_SITE = ("I1y", "Ixx", "I0y")

# atoms that are functions of the SM inputs MW, MZ only: their combinations cannot hit a pole for physical input
SM_ONLY = re.compile(r"^(cw2|cw4|cw6|cw8|sw2|mw2|mz2|mw|mz|thdm\.mw|thdm\.mz|pars\.mw|pars\.mz|sm\.mw2|sm\.mz2)$")

# argument relations that hold by construction at every call site (verified there, rule R1r):
#   function -> (lhs product of parameter names, rhs product)  meaning  lhs == rhs
RELATIONS = {
    "FCWd": (("xu", "yd"), ("xd", "yu")),     # xu/yu == xd/yd == mw^2/ms^2  ("xd == yd <=> xu == yu, per definition")
    "FCWu": (("xu", "yd"), ("xd", "yu")),
}

# reviewed exceptions.  Keyed by (function, normal form of the factor); valid only while the listed path
# facts are still on the path of the division and the named caller-side contract is verified (rule R1c).
REVIEWED = {
    ("Ixy", "y + -1"): dict(
        path=[("is_equal_rel((x / y), 1", False), ("is_equal_rel(x, 1", True)], tol_order=True, contract="Ixy_sorted",
        reason="dead path: Ixy is only called with sorted, normalised arguments x <= y <= 1, so x ~ 1 (tol e) implies "
               "x <= x/y <= 1, i.e. x/y ~ 1 (tol e' >= e), which is tested first and sends the call to Ixx"),
    ("l0v", "-1*v + 1"): dict(
        path=[], contract="phi_pos_lambda_positive",
        reason="l0v/lv0 are reached only from phi_pos (u,v <= 1, lambda^2(u,v) > 0): at v = 1, lambda^2 = u(u-4) < 0, "
               "and lambda^2 > 0 keeps 1-v > 2 sqrt(u), which bounds every term of the expansion"),
    ("lv0", "-1*v + 1"): dict(
        path=[], contract="phi_pos_lambda_positive",
        reason="see l0v"),
}

GUARD_BAND = (Fraction(1, 10 ** 10), Fraction(1, 10 ** 4))


def factors(t):
    if t[0] == "*":
        return factors(t[1]) + factors(t[2])
    if t[0] == "neg":
        return factors(t[1])
    return [t]


def ite_conds(t):
    out = []
    for x in subterms(t):
        if len(x) == 4 and x[0] == "ite" and x[1] not in out:
            out.append(x[1])
    return out


def know(c, facts):
    """truth value of condition c implied by the assumed atomic facts (None = unknown)"""
    for f_, tr in facts:
        if f_ == c:
            return tr
    if c[0] == "not":
        k = know(c[1], facts)
        return None if k is None else (not k)
    if c[0] == "and":
        a, b = know(c[1], facts), know(c[2], facts)
        if a is False or b is False:
            return False
        if a is True and b is True:
            return True
        return None
    if c[0] == "or":
        a, b = know(c[1], facts), know(c[2], facts)
        if a is True or b is True:
            return True
        if a is False and b is False:
            return False
        return None
    if c[0] == "num":
        return c[1] != 0
    for f_, tr in facts:
        if f_ == c:
            return tr
    return None


def flatten_assumed(c, truth, out):
    """decompose composite conditions into atomic assumed facts where that is sound (uses what is
    already known: not(A and B) with A known true gives not B)"""
    if c[0] == "not":
        flatten_assumed(c[1], not truth, out)
    elif c[0] == "and" and truth:
        flatten_assumed(c[1], True, out)
        flatten_assumed(c[2], True, out)
    elif c[0] == "or" and not truth:
        flatten_assumed(c[1], False, out)
        flatten_assumed(c[2], False, out)
    elif c[0] == "and" and not truth:
        a, b = know(c[1], out), know(c[2], out)
        if a is True:
            flatten_assumed(c[2], False, out)
        elif b is True:
            flatten_assumed(c[1], False, out)
        else:
            # resolution: not(P and D), not(P and not D)  =>  not P   (nested if/else under one outer test)
            for f_, tr in list(out):
                if tr is False and f_[0] == "and" and f_[1] == c[1] and (f_[2] == ("not", c[2]) or c[2] == ("not", f_[2])):
                    flatten_assumed(c[1], False, out)
                    return
            out.append((c, truth))
    elif c[0] == "or" and truth:
        a, b = know(c[1], out), know(c[2], out)
        if a is False:
            flatten_assumed(c[2], True, out)
        elif b is False:
            flatten_assumed(c[1], True, out)
        else:
            out.append((c, truth))
    else:
        out.append((c, truth))


def poly_of(t):
    r = to_rat(t)
    return r


def subs_power(p, atom, k, val):
    """replace atom^k by the rational function val in polynomial p (higher powers accordingly)"""
    tot = Rat(Poly())
    for m, c in p.t.items():
        d = dict(m)
        e = d.pop(atom, 0)
        mono = tuple(sorted(((a, x) for a, x in d.items() if x), key=lambda y: repr(y[0])))
        term = Rat(Poly({mono: c}))
        for _ in range(e // k):
            term = term * val
        if e % k:
            term = term * Rat(Poly({((atom, e % k),): Fraction(1)}))
        tot = tot + term
    return tot


_REL = []      # relations of the function under analysis: list of (atom, Rat) eliminations


def vanishes(t, sub):
    """does term t become identically zero under the substitution atom^k -> Rat (modulo the argument
    relations of the function under analysis)?"""
    try:
        r = to_rat(t)
    except NotPolynomial:
        return False
    atom, k, val = sub
    if subs_power(r.n, atom, k, val).is_zero():
        return True
    for a, v in _REL:
        if a == atom:
            continue
        r2 = subs_power(r.n, a, 1, v)
        if subs_power(r2.n, atom, k, val).is_zero():
            return True
    return False


def excluded_by(q, assumed):
    """is q == 0 impossible under the assumed conditions?  q: Poly.  Returns the excluding condition or None"""
    from .rules_c08 import subs_rat
    cands = []
    for a in q.atoms():
        k = q.degree_in(a)
        # q = c1 * a^k + c0 with a absent from c0, c1
        if k >= 1 and all(dict(m).get(a, 0) in (0, k) for m in q.t):
            c1 = q.coeff_of(a, k)
            c0 = q.coeff_of(a, 0)
            if c1.is_zero():
                continue
            cands.append((a, k, Rat(-c0, c1)))
    for sub in cands:
        for c, truth in assumed:
            h = c[0]
            if h == "call":
                name = str(c[1]).split("::")[-1]
                args = c[2]
                if name in ("is_equal_rel", "is_equal") and not truth and len(args) >= 2:
                    if vanishes(("-", args[0], args[1]), sub):
                        return c
                if name == "is_zero" and not truth and args:
                    if vanishes(args[0], sub):
                        return c
            if h == "cmp":
                op, l, r = c[1], c[2], c[3]
                # |X| < eps assumed false
                if op in ("<", "<=") and l[0] == "call" and str(l[1]).split("::")[-1] == "abs" and not truth:
                    if vanishes(l[2][0], sub):
                        return c
                z = vanishes(("-", l, r), sub)
                if z:
                    if (op == "<" and truth) or (op == "<=" and not truth) or (op == "==" and not truth) or (op == "!=" and truth):
                        return c
    # (b) q is, up to a monomial, the product of the numerators of two excluded closeness tests
    #     (Kaellen function = (xu - (1-sqrt xd)^2)(xu - (1+sqrt xd)^2))
    nums = []
    for c, truth in assumed:
        x = _abs_guard(c)
        if x is not None and not truth:
            try:
                nums.append((c, _reduce_sqrt(to_rat(x).n)))
            except NotPolynomial:
                pass
    qr = _reduce_sqrt(q)
    for i in range(len(nums)):
        for j in range(i + 1, len(nums)):
            if _monomial_multiple(_reduce_sqrt(nums[i][1] * nums[j][1]), qr):
                return ("and", ("not", nums[i][0]), ("not", nums[j][0]))
    # (c) on a near-coincidence branch (|X| < eps assumed true) the zero of q forces an argument to zero:
    #     a codimension-2 point on the boundary of the domain (a vanishing mass), not a mass coincidence
    for a, k, val in cands:
        if k != 1:
            continue
        for c, truth in assumed:
            x = _abs_guard(c)
            if x is None or not truth:
                continue
            try:
                n_ = _reduce_sqrt(to_rat(x).n)
            except NotPolynomial:
                continue
            r_ = subs_power(n_, a, 1, val)
            if isinstance(a, tuple) and a and a[0] == "call" and a[1] == "sqrt":
                try:
                    inner = to_rat(a[2][0]).n
                except NotPolynomial:
                    inner = None
                if inner is not None and len(inner.atoms()) == 1 and len(inner.t) == 1:
                    r_ = subs_power(r_.n, next(iter(inner.atoms())), 1, val * val)
            if len(r_.n.t) == 1 and not r_.n.is_const():
                return ("forced-zero", c)
    # quadratic / non-linear factor: an assumed-false is_zero(X) / is_equal with X a constant multiple of q or q = X^2
    for c, truth in assumed:
        if c[0] == "call" and str(c[1]).split("::")[-1] == "is_zero" and not truth:
            try:
                x = to_rat(c[2][0])
            except NotPolynomial:
                continue
            if x.d.is_const() and _proportional(x.n, q):
                return c
    return None


def _abs_guard(c):
    """X for a condition of the form |X| < eps"""
    if c[0] == "cmp" and c[1] in ("<", "<=") and c[2][0] == "call" and str(c[2][1]).split("::")[-1] == "abs":
        return c[2][2][0]
    return None


def _reduce_sqrt(p):
    """sqrt(B)^2 -> B for polynomial B"""
    for a in list(p.atoms()):
        if isinstance(a, tuple) and a and a[0] == "call" and a[1] == "sqrt" and p.degree_in(a) >= 2:
            try:
                b = to_rat(a[2][0])
            except NotPolynomial:
                continue
            r = subs_power(p, a, 2, b)
            if r.d.is_const():
                p = r.n.scale(1 / r.d.const_value())
    return p


def _monomial_multiple(P, q):
    """P == k * m * q for a constant k and a monomial m"""
    if not P.t or not q.t:
        return False
    mq = next(iter(q.t))
    dq = dict(mq)
    for mp in P.t:
        dp = dict(mp)
        m = {}
        ok = True
        for a in set(dp) | set(dq):
            e = dp.get(a, 0) - dq.get(a, 0)
            if e < 0:
                ok = False
                break
            if e:
                m[a] = e
        if not ok:
            continue
        mono = Poly({tuple(sorted(m.items(), key=lambda y: repr(y[0]))): Fraction(1)})
        if _proportional(q * mono, P):
            return True
    return False


def _proportional(a, b):
    if not a.t or not b.t:
        return False
    m = next(iter(a.t))
    if m not in b.t:
        return False
    k = b.t[m] / a.t[m]
    return (a.scale(k) - b).is_zero()


def mixed_sign(p):
    if len(p.t) < 2:
        return False
    s = {c > 0 for c in p.t.values()}
    return len(s) == 2


def atom_names(p):
    return {show(a) for a in p.atoms()}


def run(F, R, tier):
    R.explanation = (
        "(R1) Every function of the THDM two-loop/one-loop code and of the loop-function library is folded into "
        "a term; every syntactic factor of every denominator is normalised to a polynomial in the function's "
        "(positive) arguments. A factor with monomials of both signs can vanish at a coincidence of its "
        "arguments (u = 1, u = 4 cw^2, w = cw^2, x = y, 1 - 4x, a Kaellen form): it must be excluded on the path "
        "by one of the repository's guard idioms -- a shift(v, limit, eps), an is_equal(_rel)/==/|1-a/b| < eps "
        "branch, an ordered comparison chain -- which is decided by substituting the solution of factor = 0 "
        "into the path conditions. Factors made of SM inputs only (cw^2) are exempt. (R2) Phi(a,b,c) is set to "
        "zero where its Kaellen function vanishes, hence must not be divided by that Kaellen function. (R3) the "
        "tolerances of pole guards lie in a band where neither the shift itself nor floating-point cancellation "
        "can leave the 1% continuity band. (R4) a quantity that carries an unguarded pole on purpose (tan 2alpha) "
        "is used only through its reciprocal.")
    R.assumptions = ["arguments of the ratio functions are positive (mass ratios); sign-pattern test of factors relies on it",
                     "guard idioms enumerated in rules_c11.excluded_by"]
    R.undecided = ["the 1% continuity band as a number", "poles of the opaque loop functions themselves (C01/C02)"]

    global _REL
    sym = lambda n: Poly.atom(("sym", n))
    mk = lambda f_: Evaluator(F, inline=lambda n, g: bool(INLINE_HELPERS.search(n)), max_depth=4)

    # ---- R1r: argument relations hold at every call site -------------------------------------------
    R.rule("R1r", "argument relations used as guards (xu/yu == xd/yd for FCWu/FCWd) hold as identities at every call site", 2)
    rel_ok = {}
    for fn_, (lhs, rhs) in sorted(RELATIONS.items()):
        cal = [f for f in F.functions.values() if f["file"] in SCOPE and f["name"].split("::")[-1] == fn_]
        if len(cal) != 1:
            R.broken("relation anchor %s: %d definitions" % (fn_, len(cal)))
            continue
        cal = cal[0]
        pn = [p_["name"] for p_ in cal["params"]]
        sites = 0
        good = True
        for ck in sorted(F.callers.get(cal["mg"], ())):
            g = F.functions[ck]
            v, fr = mk(g).function_value(g)
            seen = set()
            for x in subterms(v):
                if isinstance(x, tuple) and len(x) == 3 and x[0] == "call" and str(x[1]).split("::")[-1] == fn_ and x not in seen:
                    seen.add(x)
                    sites += 1
                    try:
                        env = {n_: to_rat(a_) for n_, a_ in zip(pn, x[2])}
                        l_, r_ = Rat(Poly.const(1)), Rat(Poly.const(1))
                        for n_ in lhs:
                            l_ = l_ * env[n_]
                        for n_ in rhs:
                            r_ = r_ * env[n_]
                        holds = (l_ - r_).is_zero()
                    except (NotPolynomial, KeyError):
                        holds = False
                    good = good and holds
                    R.check("R1r", holds, "%s called from %s: %s == %s" % (fn_, g["name"].split("::")[-1], "*".join(lhs), "*".join(rhs)),
                            F.loc(g), "call of %s does not satisfy %s == %s, on which its equality guard relies"
                            % (fn_, "*".join(lhs), "*".join(rhs)), key="R1r|%s|%s" % (fn_, g["name"]))
        if sites == 0:
            R.soft_broken("relation %s: no call site found" % fn_)
        rel_ok[fn_] = good and sites > 0

    # ---- R1c: caller-side contracts of the reviewed exceptions -------------------------------------
    R.rule("R1c", "caller-side contracts under which reviewed exceptions of R1 are valid", 2)
    contract_ok = {}
    for cname in sorted({d["contract"] for d in REVIEWED.values() if d.get("contract")}):
        ok_, detail, loc = CONTRACTS[cname](F)
        contract_ok[cname] = ok_
        R.check("R1c", ok_, "contract %s: %s" % (cname, detail), loc,
                "contract %s no longer holds: %s" % (cname, detail), key="R1c|" + cname)

    R.rule("R1", "every coincidence-type denominator factor is excluded on its path by a guard (shift / equality branch / "
                 "ordered chain), or consists of SM inputs only", 40)
    n_sm = 0
    absorbed, guards_used = [], []
    for k, f in sorted(F.functions.items(), key=lambda x: (x[1]["file"], x[1]["line"])):
        if f["file"] not in SCOPE or (f.get("method") or {}).get("lambda"):
            continue
        short = f["name"].split("::")[-1]
        if short in ("shift", "sqr", "pow3", "pow4", "cube") or short in AT_CALL_SITE:
            continue
        _REL = []
        if short in RELATIONS and rel_ok.get(short):
            lhs, rhs = RELATIONS[short]
            num_ = Rat(Poly.const(1))
            for n_ in rhs:
                num_ = num_ * Rat(sym(n_))
            for n_ in lhs[1:]:
                num_ = num_ * Rat(Poly.const(1), sym(n_))
            _REL = [(("sym", lhs[0]), num_)]
        v, fr = mk(f).function_value(f)
        found = {}
        _walk(v, [], found, f, short)
        _REL = []
        mults = {}
        try:
            for extra_, vv in _cases(v, [])[:64]:
                for k_, n_ in spine_mult(vv).items():
                    mults[k_] = max(mults.get(k_, 0), n_)
        except RecursionError:
            mults = {}
        for key, (q, guard, qtxt, assumed_txt, shift_type) in sorted(found.items()):
            inst = "%s: 1/(%s)" % (short, qtxt[:70])
            names = atom_names(q)
            if names and all(SM_ONLY.match(n) for n in names):
                n_sm += 1
                R.ok("R1", inst + " [SM inputs only]", F.loc(f))
                continue
            rv = REVIEWED.get((short, qtxt))
            if guard is None and rv is not None:
                missing = [t_ for t_, tr in rv["path"]
                           if (("" if tr else "!") + t_) not in assumed_txt or (tr and ("!" + t_) in assumed_txt.replace("&& !" + t_, "", 0) and False)]
                if not missing and rv.get("tol_order"):
                    missing = [] if _tol_order(rv["path"], assumed_txt) else ["tolerance order"]
                c_ok = contract_ok.get(rv.get("contract"), True)
                R.check("R1", not missing and c_ok, inst + " [reviewed: %s]" % rv["reason"][:80], F.loc(f),
                        "reviewed exception for factor %s no longer applies (%s): %s"
                        % (qtxt, "path facts missing: %s" % missing if missing else "contract %s violated" % rv.get("contract"),
                           rv["reason"]), key="R1|%s|%s" % (short, qtxt[:80]))
                continue
            if guard is None:
                cls = absval(v)[0]
                if cls == FIN:
                    absorbed.append((inst, F.loc(f)))
                    R.ok("R1", inst + " [pole absorbed: the result stays finite in IEEE arithmetic, see R4]", F.loc(f))
                    continue
            else:
                guards_used.append((short, qtxt, guard, F.loc(f), mults.get(qtxt, 1) if shift_type else 1))
            R.check("R1", guard is not None, inst + (" guarded by %s" % show(guard)[:60] if guard is not None else ""), F.loc(f),
                    "denominator factor %s can vanish at a coincidence of its arguments and no guard on the path excludes it "
                    "(path: %s)" % (qtxt[:90], assumed_txt[:120] or "unconditional"),
                    key="R1|%s|%s" % (short, qtxt[:80]))
    R.analysed["sm_only_factors"] = n_sm

    R.rule("R4", "a quantity that carries an unguarded pole on purpose (tan 2alpha = ... /(MA^2 - MZ^2)) is used only through "
                 "its reciprocal: the abstract IEEE value (finite / +-inf / NaN) of the function result is `finite`", 1)
    for inst, loc in absorbed:
        R.ok("R4", inst, loc)
    if not absorbed:
        R.soft_broken("R4: no absorbed pole found (anchor tan_alpha in src/MSSMNoFV/gm2_2loop.cpp vanished?)")

    R.guard(_series_branches, F, R)
    R.guard(_limit_values, F, R)
    R.guard(_shift_consistency, F, R)

    lo, hi = GUARD_BAND
    R.rule("R3", "tolerance of every pole guard >= %.0e (below that the rounding error of the cancelling numerator, amplified "
                 "by the pole, exceeds 1%%); every shift(v, limit, eps) moves by <= %.0e (the quantifier bounds the slope by "
                 "20%% per 2e-3, so a larger shift can leave the 1%% band)" % (float(lo), float(hi)), 30)
    seen_tol = set()
    for short, qtxt, guard, loc, mult in guards_used:
        for g_ in _atomic_guards(guard):
            tol = _tolerance(g_)
            if tol is not None and mult >= 2 and (short, qtxt, "m") not in seen_tol:
                seen_tol.add((short, qtxt, "m"))
                need = (2.0 ** -53 / 1e-2) ** (1.0 / mult)
                R.check("R3", float(tol) >= need, "%s: factor %s enters with multiplicity %d, guard tolerance %.3g >= %.1e"
                        % (short, qtxt[:40], mult, float(tol), need), loc,
                        "%s divides by (%s)^%d; the guard %s keeps a distance of only %.3g: even a perfectly conditioned "
                        "numerator (rounding error 2^-53) divided by %.3g^%d is off by more than 1%% (need >= %.1e)"
                        % (short, qtxt[:60], mult, show(g_)[:60], float(tol), float(tol), mult, need),
                        key="R3m|%s|%s" % (short, qtxt[:60]))
            key = (short, show(g_))
            if tol is None or key in seen_tol:
                continue
            seen_tol.add(key)
            R.check("R3", tol >= lo, "%s: guard %s has tolerance %.3g" % (short, show(g_)[:70], float(tol)), loc,
                    "pole guard %s of %s has tolerance %.3g < %.0e: the formula is evaluated so close to its pole that "
                    "rounding errors dominate" % (show(g_)[:90], short, float(tol), float(lo)), key="R3|%s|%s" % (short, show(g_)[:80]))
    E0 = Evaluator(F, inline=lambda n, g: False, max_depth=0)
    for k, f in sorted(F.functions.items(), key=lambda x: (x[1]["file"], x[1]["line"])):
        if f["file"] not in SCOPE:
            continue
        for c in F.calls[k]:
            if str(c.get("fn", "")).split("::")[-1] != "shift" or len(call_args(c)) != 3:
                continue
            tgt = F.functions.get(c.get("mg"))
            if tgt is None or tgt["file"] not in SCOPE:
                continue
            fr = Frame(E0, f, {}, ("this",), 0)
            try:
                fr.run()
                t_ = fr.fz(fr.e(call_args(c)[2]))
            except Exception:
                t_ = None
            tol = t_[1] if isinstance(t_, tuple) and t_ and t_[0] == "num" else None
            short = f["name"].split("::")[-1]
            if tol is None:
                R.soft_broken("R3: tolerance of shift() in %s is not a constant" % short)
                continue
            R.check("R3", lo <= tol <= hi, "%s: shift by %.3g" % (short, float(tol)), F.loc(f, c),
                    "shift(...) in %s uses eps = %.3g outside [%.0e, %.0e]" % (short, float(tol), float(lo), float(hi)),
                    key="R3|shift|%s|%s" % (short, c.get("l")))


FIN, INF, NAN = 0, 1, 2
_INF_OK = ("sqrt", "abs", "hypot", "fabs")


def _nonzero_poly(t):
    try:
        r = to_rat(t)
    except NotPolynomial:
        return False
    return bool(r.n.t) and not mixed_sign(r.n)


def _maybe_zero(t):
    """can the finite term t vanish for positive arguments?"""
    try:
        r = to_rat(t)
    except NotPolynomial:
        return True
    return (not r.n.t) or mixed_sign(r.n)


def absval(t, memo=None):
    """abstract IEEE value of a term for finite positive inputs: (class, nonzero).
    FIN: finite; INF: may be +-inf (never NaN); NAN: may be NaN"""
    if memo is None:
        memo = {}
    if t in memo:
        return memo[t]
    h = t[0] if isinstance(t, tuple) and t else None
    if h == "num":
        r = (FIN, t[1] != 0)
    elif h == "sym":
        r = (FIN, True)
    elif h == "neg":
        r = absval(t[1], memo)
    elif h in ("+", "-"):
        a, b = absval(t[1], memo), absval(t[2], memo)
        if NAN in (a[0], b[0]) or (a[0] == INF and b[0] == INF):
            r = (NAN, False)
        elif INF in (a[0], b[0]):
            r = (INF, True)
        else:
            r = (FIN, _nonzero_poly(t))
    elif h == "*":
        a, b = absval(t[1], memo), absval(t[2], memo)
        if NAN in (a[0], b[0]):
            r = (NAN, False)
        elif a[0] == INF or b[0] == INF:
            r = (INF, True) if (a[1] and b[1]) else (NAN, False)      # inf * 0
        else:
            r = (FIN, a[1] and b[1])
    elif h == "/":
        a, b = absval(t[1], memo), absval(t[2], memo)
        if NAN in (a[0], b[0]):
            r = (NAN, False)
        elif b[0] == INF:
            r = (NAN, False) if a[0] == INF else (FIN, False)           # inf/inf ; x/inf = 0
        elif a[0] == INF:
            r = (INF, True)                                             # inf/x, inf/0
        elif b[1] and not _maybe_zero(t[2]):
            r = (FIN, a[1])
        elif b[1] is False and _maybe_zero(t[2]) or _maybe_zero(t[2]):
            r = (INF, True) if a[1] else (NAN, False)                   # x/0 = inf ; 0/0 = NaN
        else:
            r = (FIN, a[1])
    elif h == "ite":
        a, b = absval(t[2], memo), absval(t[3], memo)
        r = (max(a[0], b[0]), a[1] and b[1])
    elif h == "call":
        args = [absval(x, memo) for x in t[2] if isinstance(x, tuple)]
        worst = max([a[0] for a in args] or [FIN])
        name = str(t[1]).split("::")[-1]
        if worst == FIN:
            r = (FIN, name.startswith("get_") or (name in _INF_OK and all(a[1] for a in args)))
        elif worst == INF and name in _INF_OK:
            r = (INF, True)
        else:
            r = (NAN, False)
    else:
        r = (FIN, False)
    memo[t] = r
    return r


def _atomic_guards(g):
    if isinstance(g, tuple) and g and g[0] in ("and", "not", "forced-zero"):
        out = []
        for x in g[1:]:
            out.extend(_atomic_guards(x))
        return out
    return [g]


def _tolerance(g):
    """numeric tolerance of is_equal_rel(a,b,tol) / is_equal / is_zero(x,tol) / |X| < tol"""
    t = None
    if g[0] == "call":
        name = str(g[1]).split("::")[-1]
        if name in ("is_equal_rel", "is_equal") and len(g[2]) == 3:
            t = g[2][2]
        elif name == "is_zero" and len(g[2]) == 2:
            t = g[2][1]
    elif g[0] == "cmp" and _abs_guard(g) is not None:
        t = g[3]
    elif g[0] == "cmp" and g[1] in ("==", "!=", "<", "<="):
        return Fraction(0)          # exact comparison: excludes the point, not a neighbourhood
    return _numeric(t) if t is not None else None


def _numeric(t):
    """value of a constant tolerance expression (10*std::numeric_limits<double>::epsilon(), pow(eps, 0.25), ...)"""
    h = t[0] if isinstance(t, tuple) and t else None
    if h == "num":
        return Fraction(t[1])
    if h == "neg":
        v = _numeric(t[1])
        return None if v is None else -v
    if h in ("+", "-", "*", "/"):
        a, b = _numeric(t[1]), _numeric(t[2])
        if a is None or b is None or (h == "/" and b == 0):
            return None
        return a + b if h == "+" else a - b if h == "-" else a * b if h == "*" else a / b
    if h == "call":
        name = str(t[1]).split("::")[-1]
        if name == "epsilon" and not t[2]:
            return Fraction(1, 2 ** 52)
        if name == "sqrt" and len(t[2]) == 1:
            a = _numeric(t[2][0])
            if a is not None and a >= 0:
                return Fraction(float(a) ** 0.5)
        if name == "pow" and len(t[2]) == 2:
            a, b = _numeric(t[2][0]), _numeric(t[2][1])
            if a is not None and b is not None and a > 0:
                return Fraction(float(a) ** float(b))
    return None


def _tol_order(path, assumed_txt):
    """tolerance of the assumed-false test >= tolerance of the assumed-true test (both of the form name(a, b, tol))"""
    tol = {}
    for t_, tr in path:
        i = assumed_txt.find(("" if tr else "!") + t_)
        if i < 0:
            return False
        seg = assumed_txt[i:].split("&&")[0]
        m = re.search(r",\s*([0-9/]+)\)\s*$", seg.strip())
        if not m:
            return False
        tol[tr] = Fraction(m.group(1))
    return tol.get(False) is not None and tol.get(True) is not None and tol[False] >= tol[True]


# ---- caller-side contracts ----------------------------------------------------------------------

def _one(F, short):
    fs = [f for f in F.functions.values() if f["file"] in SCOPE and f["name"].split("::")[-1] == short]
    return fs


def _is_sorting_network(f, n):
    """body = sequence of `if (a > b) swap(a, b)` over the n reference parameters that sorts ascending (0-1 principle)"""
    import itertools
    from .structure import Struct
    pn = [p_["name"] for p_ in f["params"]]
    if len(pn) != n:
        return False
    steps = []
    for st in f["body"].get("c", []):
        if st.get("k") != "IfStmt" or st.get("else") is not None:
            return False
        c = strip_all(st["cond"])
        if c.get("k") != "BinaryOperator" or c.get("op") not in (">", "<"):
            return False
        a, b = [strip_all(x) for x in c["c"]]
        if a.get("k") != "DeclRefExpr" or b.get("k") != "DeclRefExpr":
            return False
        a, b = a.get("n"), b.get("n")
        if c["op"] == "<":
            a, b = b, a
        calls = [x for x in walk(st["then"]) if is_call(x)]
        if len(calls) != 1 or not str(calls[0].get("fn", "")).endswith("swap"):
            return False
        sw = sorted(strip_all(x).get("n") for x in call_args(calls[0]))
        if sw != sorted([a, b]) or a not in pn or b not in pn:
            return False
        steps.append((pn.index(a), pn.index(b)))   # if v[a] > v[b]: swap
    for bits in itertools.product((0, 1), repeat=n):
        v = list(bits)
        for i, j in steps:
            if v[i] > v[j]:
                v[i], v[j] = v[j], v[i]
        if v != sorted(v):
            return False
    return bool(steps)


def _contract_ixy_sorted(F):
    """every call Ixy(P/Z, Q/Z) is preceded by sort(P, Q, Z) (an ascending sorting network); Ixy has no other caller"""
    from .structure import Struct
    fs = _one(F, "Ixy")
    if len(fs) != 1:
        raise AnalysisBroken("anchor Ixy: %d definitions" % len(fs))
    ixy = fs[0]
    callers = sorted(F.callers.get(ixy["mg"], ()))
    if not callers:
        raise AnalysisBroken("Ixy has no caller")
    n = 0
    for ck in callers:
        g = F.functions[ck]
        S = Struct(g)
        for c in F.calls[ck]:
            if c.get("mg") != ixy["mg"]:
                continue
            n += 1
            args = [strip_all(a) for a in call_args(c)]
            if len(args) != 2 or any(a.get("k") != "BinaryOperator" or a.get("op") != "/" for a in args):
                return False, "call of Ixy in %s is not of the form Ixy(P/Z, Q/Z)" % g["name"], F.loc(g, c)
            (p_, z1), (q_, z2) = [[strip_all(x) for x in a["c"]] for a in args]
            names = [x.get("n") if x.get("k") == "DeclRefExpr" else None for x in (p_, q_, z1, z2)]
            if None in names or names[2] != names[3]:
                return False, "call of Ixy in %s is not of the form Ixy(P/Z, Q/Z)" % g["name"], F.loc(g, c)
            want = [names[0], names[1], names[2]]
            hit = False
            for st in S.executed_before(c):
                for x in walk(st):
                    if is_call(x) and str(x.get("fn", "")).split("::")[-1] == "sort":
                        got = [strip_all(a).get("n") for a in call_args(x)]
                        tgt = F.functions.get(x.get("mg"))
                        if got == want and tgt is not None and _is_sorting_network(tgt, 3):
                            hit = True
            if not hit:
                return False, "Ixy(%s/%s, %s/%s) in %s is not preceded by sort(%s)" % (
                    names[0], names[2], names[1], names[2], g["name"].split("::")[-1], ", ".join(want)), F.loc(g, c)
    return True, "%d call site(s) of Ixy pass sorted, normalised arguments (sort is an ascending 3-sorting network)" % n, F.loc(ixy)


def _contract_phi_pos(F):
    """l0v, lv0 <- luv <- phi_pos only; every call of phi_pos is control-dependent on `lambda > 0` with
    lambda = lambda_2(u, v)"""
    from .structure import Struct
    from .render import render
    chain = {"l0v": {"luv"}, "lv0": {"luv"}, "luv": {"phi_pos"}, "phi_pos": {"phi_uv"}}
    for callee, allowed in chain.items():
        fs = _one(F, callee)
        if len(fs) != 1:
            raise AnalysisBroken("anchor %s: %d definitions" % (callee, len(fs)))
        got = {F.functions[k]["name"].split("::")[-1] for k in F.callers.get(fs[0]["mg"], ())}
        if not got:
            raise AnalysisBroken("%s has no caller" % callee)
        if not got <= allowed:
            return False, "%s is also called from %s" % (callee, ", ".join(sorted(got - allowed))), F.loc(fs[0])
    pp = _one(F, "phi_pos")[0]
    pu = _one(F, "phi_uv")[0]
    S = Struct(pu)
    n = 0
    lam_init = None
    for x in walk(pu["body"]):
        for d_ in (x.get("decls", ()) if x.get("k") == "DeclStmt" else ()):
            if d_.get("name") == "lambda" and d_.get("init") is not None:
                lam_init = render(d_["init"], pu)
    if lam_init is None or not re.match(r"^lambda_2\(u, ?v\)$", lam_init):
        return False, "phi_uv: lambda is not lambda_2(u,v) (%s)" % lam_init, F.loc(pu)
    for c in F.calls[pu["mg"]]:
        if c.get("mg") != pp["mg"]:
            continue
        n += 1
        gs = [(render(g_[0], pu, resolve_locals=False), g_[1]) for g_ in S.guards(c) if g_[0] != "switch"]
        if not any(tr and re.match(r"^\(?0\.? < lambda\)?$|^\(?lambda > 0\.?\)?$", t_) for t_, tr in gs):
            return False, "call of phi_pos in phi_uv is not guarded by lambda > 0 (guards: %s)" % gs, F.loc(pu, c)
    if n == 0:
        raise AnalysisBroken("phi_uv does not call phi_pos")
    return True, "l0v, lv0 <- luv <- phi_pos <- phi_uv only; %d calls of phi_pos, all under lambda_2(u,v) > 0" % n, F.loc(pu)


CONTRACTS = {"Ixy_sorted": _contract_ixy_sorted, "phi_pos_lambda_positive": _contract_phi_pos}


def spine_mult(t, out=None, depth=0):
    """multiplicity with which each mixed-sign denominator factor enters a product chain:
    {normal form of factor: max count over all product chains of the term}"""
    out = {} if out is None else out

    def chain(u, d=0):
        """Counter of denominator factors of the product chain rooted at u"""
        c = {}
        if not isinstance(u, tuple) or not u or d > 200:
            return c
        h = u[0]
        if h == "neg":
            return chain(u[1], d + 1)
        if h == "*":
            for x in (u[1], u[2]):
                for k_, v_ in chain(x, d + 1).items():
                    c[k_] = c.get(k_, 0) + v_
            return c
        if h == "/":
            for k_, v_ in chain(u[1], d + 1).items():
                c[k_] = c.get(k_, 0) + v_
            for fac in factors(u[2]):
                if fac[0] == "/":
                    continue
                try:
                    q = to_rat(fac).n
                except NotPolynomial:
                    continue
                if mixed_sign(q):
                    c[repr(q)] = c.get(repr(q), 0) + 1
                # a denominator that is itself a product chain with divisions inside
            return c
        # a sum, call or ite ends the chain: its sub-terms start their own chains
        for x in (u[1:] if isinstance(h, str) else u):
            if isinstance(x, tuple):
                for k_, v_ in chain(x, d + 1).items():
                    out[k_] = max(out.get(k_, 0), v_)
        return c
    for k_, v_ in chain(t).items():
        out[k_] = max(out.get(k_, 0), v_)
    return out


def _walk(t, assumed, found, f, short, depth=0):
    if not isinstance(t, tuple) or not t or depth > 400:
        return
    h = t[0]
    if h == "ite":
        a_t, a_f = list(assumed), list(assumed)
        flatten_assumed(t[1], True, a_t)
        flatten_assumed(t[1], False, a_f)
        _walk(t[1], assumed, found, f, short, depth + 1)
        _walk(t[2], a_t, found, f, short, depth + 1)
        _walk(t[3], a_f, found, f, short, depth + 1)
        return
    if h == "/":
        _denominator(t[2], assumed, found, f, short)
    for x in (t[1:] if isinstance(h, str) else t):
        if isinstance(x, tuple):
            _walk(x, assumed, found, f, short, depth + 1)


def _cases(d, extra, depth=0):
    """ite-free instances of d with the conditions assumed for each (innermost conditions first)"""
    conds = [c for c in ite_conds(d) if not ite_conds(c)]
    if not conds or depth > 8:
        return [(extra, d)]
    c = conds[0]
    out = []
    for val in (1, 0):
        e2 = list(extra)
        flatten_assumed(c, bool(val), e2)
        out.extend(_cases(subst_fold(d, {c: num(val)}), e2, depth + 1))
    return out


def _sqrt_factor_exempt(q):
    """q = A + sqrt(B) with A^2 - B a single positive monomial: vanishes only if an argument is zero"""
    roots = [a for a in q.atoms() if isinstance(a, tuple) and a and a[0] == "call" and a[1] == "sqrt"]
    if len(roots) != 1 or q.degree_in(roots[0]) != 1:
        return False
    s_ = roots[0]
    c1 = q.coeff_of(s_, 1)
    if not ((c1 - Poly.const(1)).is_zero() or (c1 + Poly.const(1)).is_zero()):
        return False
    A = q.coeff_of(s_, 0)
    arg = s_[2][0]
    if arg[0] == "call" and arg[1] == "complex":
        arg = arg[2][0]
    try:
        B = to_rat(arg)
    except NotPolynomial:
        return False
    if not B.d.is_const():
        return False
    diff = A * A - B.n.scale(1 / B.d.const_value())
    return len(diff.t) == 1 and list(diff.t.values())[0] > 0


def _denominator(d, assumed, found, f, short):
    for extra, dd in _cases(d, []):
        if ite_conds(dd):
            continue
        for fac in factors(dd):
            try:
                r = to_rat(fac)
            except NotPolynomial:
                continue
            q = r.n
            if not mixed_sign(q):
                continue
            if _sqrt_factor_exempt(q):
                continue
            qtxt = repr(q)
            allassumed = list(assumed)
            for c, tr in extra:
                allassumed.append((c, tr))
            guard = excluded_by(q, allassumed)
            # shift-type guard: the excluding condition is an ite inside the value itself (the variable was moved away
            # and the same formula is evaluated at the guard distance), not a branch to an alternative formula
            shift_type = guard is not None and excluded_by(q, list(extra)) is not None
            key = (qtxt,)
            prev = found.get(key)
            # a factor is fine only if it is guarded on every path it occurs on
            if prev is None or (prev[1] is not None and guard is None):
                found[key] = (q, guard, qtxt, " && ".join(("" if tr else "!") + show(c)[:40] for c, tr in allassumed),
                              shift_type or bool(prev and prev[4]))
            elif shift_type and prev is not None and not prev[4]:
                found[key] = prev[:4] + (True,)



def _series_branches(F, R, rule="R5"):
    """R5: a near-degenerate branch that returns a truncated series must be the expansion of the generic branch of the
    same function (dxlog: (a^2 log a - b^2 log b)/(a - b) around a = b), to the order written"""
    from .closedform import canon
    from .series import SeriesError
    from .rules_c01 import leaves
    from .rules_c02 import small_o, generic_leaf, subst_sym, true_conds
    from .closedform import N as NUM
    R.rule(rule, "near-degenerate series branch == expansion of the generic branch of the same function, to the written order "
                 "(dxlog around a = b)", 1)
    n = 0
    for k, f in sorted(F.functions.items(), key=lambda x: (x[1]["file"], x[1]["line"])):
        if f["file"] != "src/THDM/gm2_2loop_B.cpp" or len(f["params"]) != 2:
            continue
        pn = [p["name"] for p in f["params"]]
        E = Evaluator(F, inline=lambda n_, g: bool(INLINE_HELPERS.search(n_)), max_depth=3)
        v, fr = E.function_value(f)
        ls = leaves(v)
        near = [(fa, val) for fa, val in ls if any(c[0] == "call" and str(c[1]).split("::")[-1] == "is_equal_rel" and
                                                   {c[2][0], c[2][1]} == {("sym", pn[0]), ("sym", pn[1])} for c in true_conds(fa))]
        g = generic_leaf(ls)
        if not near or g is None:
            continue
        short = f["name"].split("::")[-1]
        for fa, val in near:
            n += 1
            try:
                env = {pn[0]: ("*", ("sym", pn[1]), ("+", NUM(1), ("sym", "t")))}
                A, G = canon(subst_sym(val, env)), canon(subst_sym(g[1], env))
                deg = 0
                for o_ in range(1, 8):
                    if small_o(A, G, "t", o_) is None:
                        deg = o_
                    else:
                        break
                # order actually written in the code: degree of the series branch in (a - b)
                written = canon(subst_sym(val, {pn[0]: ("+", ("sym", pn[1]), ("sym", "__d"))})).n.degree_in(("sym", "__d"))
                R.check(rule, deg >= written + 1, "%s: series branch agrees with the generic branch to O((%s-%s)^%d)"
                        % (short, pn[0], pn[1], deg), F.loc(f),
                        "%s: the series returned for %s ~ %s (terms up to (%s-%s)^%d) differs from the expansion of the generic "
                        "branch already at order %d" % (short, pn[0], pn[1], pn[0], pn[1], written, deg), key=rule + "|" + short)
                # truncation at the window edge relative to the leading term
                W = [c[2][2][1] for c in true_conds(fa) if c[0] == "call" and str(c[1]).split("::")[-1] == "is_equal_rel" and c[2][2][0] == "num"]
                if W:
                    R.check(rule, float(2 * W[0]) ** (written + 1) <= 1e-7, "%s: window %g, first omitted order %d" % (short, float(W[0]), written + 1),
                            F.loc(f), "%s: window %g is too wide for a series truncated after order %d ((2W)^%d = %.1e > 1e-7)"
                            % (short, float(W[0]), written, written + 1, float(2 * W[0]) ** (written + 1)), key=rule + "w|" + short)
            except (NotPolynomial, SeriesError) as e:
                R.soft_broken(rule + " %s: %s" % (short, str(e)[:120]))
    if n == 0:
        R.soft_broken(rule + ": no series branch found in gm2_2loop_B.cpp (anchor dxlog vanished?)")



def _limit_values(F, R):
    """the value returned *at* a removable singularity must be the analytic limit, otherwise the result jumps there:
    shared with C02 (R8: Phi/lambda^2 at lambda^2 = 0 from the bracket of phi_pos; homogeneity of both branches)"""
    from .rules_c02 import _r8_phi_limit, fn as _fn
    from .domains import units, UnitFail
    _r8_phi_limit(F, R)
    from .rules_c02 import scale_free_guards
    R.rule("R6s", "the test that selects the lambda^2 -> 0 limit of Phi/lambda^2 compares a scale-free quantity with its pure-number "
                  "tolerance (lambda^2 of the normalised arguments): the protected window must not shrink like (M/MZ)^-4 for heavy spectra", 1)
    scale_free_guards(F, R, "R6s", ("Phi_over_lambda_2",), {})
    R.rule("R6", "Phi_over_lambda_2: the limit branch and the generic branch have the same homogeneity degree (-1): a "
                 "normalisation lost in one of them is a jump at lambda^2 = 0", 1)
    f = _fn(F, "Phi_over_lambda_2", 3)
    E = Evaluator(F, inline=lambda n_, g: bool(re.search(r"::(sqr|sort)$", n_)), max_depth=3)
    v, _ = E.function_value(f)
    try:
        d = units(v, {p["name"]: Fraction(2) for p in f["params"]})
        R.check("R6", d == -2, "Phi_over_lambda_2: squared-mass arguments -> GeV^%s in every branch" % d, F.loc(f),
                "Phi_over_lambda_2 has dimension GeV^%s instead of GeV^-2" % d, key="R6|Phi_over_lambda_2")
    except UnitFail as ex:
        R.fail("R6", "Phi_over_lambda_2: branches dimensionally consistent", F.loc(f), "%s: %s" % (ex, show(ex.term)[:120]),
               key="R6|Phi_over_lambda_2")


def _shift_consistency(F, R):
    """A pole-avoiding shift moves ONE variable; the numerator cancels the pole only if every quantity that depends on the
    same input is computed from the moved value.  After the shift the pre-shift value (and the locals / model fields it was
    computed from, unless the limit itself also depends on them) must be dead."""
    from .render import Renderer
    R.rule("R9", "after a pole-avoiding shift of a variable, nothing is computed from its pre-shift value any more (temporary "
                 "copies and the inputs it was derived from are not read again): numerator and denominator see the same point", 8)
    for k, f in sorted(F.functions.items(), key=lambda x: (x[1]["file"], x[1]["line"])):
        if f["file"] not in SCOPE or f["name"].split("::")[-1] == "shift":
            continue
        body = f["body"].get("c", [])
        Rr = Renderer(f, resolve_locals=False)
        inits = {}
        for st in body:
            if st.get("k") == "DeclStmt":
                for d in st.get("decls", ()):
                    if "id" in d and d.get("init") is not None:
                        inits[d["id"]] = d["init"]

        def refs(node):
            ids, flds = set(), set()
            for n in walk(node):
                if n.get("k") == "DeclRefExpr" and n.get("rk") in ("Var", "Param") and n.get("id") is not None:
                    ids.add(n["id"])
                if n.get("k") == "MemberExpr" and n.get("mk") == "Field":
                    flds.add(n.get("sn") or n.get("n"))
            return ids, flds

        def slice_of(node):
            ids, flds = refs(node)
            todo = list(ids)
            while todo:
                i = todo.pop()
                if i in inits:
                    a, b = refs(inits[i])
                    flds |= b
                    for j in a - ids:
                        ids.add(j)
                        todo.append(j)
            return ids, flds

        short = f["name"].split("::")[-1]

        def shift_at(st):
            shifted, pre_nodes, limit_nodes = [], [], []
            s0 = strip_all(st)
            if s0 is not None and is_call(s0) and str(s0.get("fn") or "").split("::")[-1] == "shift":
                args = call_args(s0)
                tgt = F.functions.get(s0.get("mg"))
                nref = len([p for p in (tgt["params"] if tgt else []) if p.get("ref") and not p.get("cref")])
                for a in args[:max(nref, 1)]:
                    a0 = strip_all(a)
                    if a0 is not None and a0.get("k") == "DeclRefExpr":
                        shifted.append(a0["id"])
                        if a0["id"] in inits:
                            pre_nodes.append(inits[a0["id"]])
                limit_nodes = args[max(nref, 1):]
            elif st.get("k") == "DeclStmt":
                for d in st.get("decls", ()):
                    ini = strip_all(d.get("init")) if d.get("init") is not None else None
                    if ini is not None and ini.get("k") == "ConditionalOperator":
                        cnd = ini.get("cond")
                        if any(is_call(x) and re.search(r"is_equal(_rel)?$|is_zero$", str(x.get("fn") or "").split("<")[0]) for x in walk(cnd)):
                            els = strip_all(ini.get("else"))
                            if els is not None and els.get("k") == "DeclRefExpr":
                                shifted.append(d["id"])
                                pre_nodes.append(els)
                                limit_nodes = [ini.get("then")]
            return s0, shifted, pre_nodes, limit_nodes

        # pole positions of one variable share inputs with it (xh = mh^2/mz^2 against 4 mw^2/mz^2): pool the limits of all
        # shifts of the same variable before deciding which inputs belong to the moving quantity alone
        pooled = {}
        for st in body:
            s0_, sh_, pre_, lim_ = shift_at(st)
            for v in sh_:
                pooled.setdefault(v, []).extend(lim_)
        for idx, st in enumerate(body):
            s0, shifted, pre_nodes, limit_nodes = shift_at(st)
            limit_nodes = list(limit_nodes)
            for v in shifted:
                limit_nodes += pooled.get(v, [])
            if not shifted:
                continue
            pre_ids, pre_flds = set(), set()
            for pn in pre_nodes:
                a, b = slice_of(pn)
                pre_ids |= a
                pre_flds |= b
            lim_ids, lim_flds = set(), set()
            for ln in limit_nodes:
                a, b = slice_of(ln)
                lim_ids |= a
                lim_flds |= b
            dead_ids = {i for i in pre_ids - lim_ids - set(shifted) if i in inits}     # local temporaries only
            dead_flds = pre_flds - lim_flds
            bad = None
            for later in body[idx + 1:]:
                l0 = strip_all(later)
                # a second shift of the same variable reads it legitimately
                for n in walk(later):
                    if n.get("k") == "DeclRefExpr" and n.get("id") in dead_ids:
                        bad = (n, "the pre-shift value `%s`" % n.get("n"))
                        break
                    if n.get("k") == "MemberExpr" and n.get("mk") == "Field" and (n.get("sn") or n.get("n")) in dead_flds:
                        bad = (n, "the input `%s` from which the shifted variable was computed" % Rr.r(n))
                        break
                if bad:
                    break
            names = ", ".join(sorted(Rr.r(strip_all(a)) for a in (call_args(s0)[:1] if is_call(s0) else [])) or
                              [d.get("name") for d in st.get("decls", ()) if d.get("id") in shifted])
            R.check("R9", bad is None, "%s: shift of %s at line %s" % (short, names, st.get("l") or (s0 or {}).get("l")), F.loc(f, st),
                    "%s is read again at line %s after the shift: a quantity computed from it is evaluated at the unshifted point "
                    "while the pole factor is evaluated at the shifted one, so the cancellation that removes the singularity is lost"
                    % (bad[1] if bad else "", bad[0].get("l") if bad else ""),
                    key="R9|%s|%s" % (short, names))
