"""C11 -- no spurious singularities: every coincidence-type pole of a rational coefficient is guarded."""
import re
from fractions import Fraction

from .facts import walk, kids, strip_all, call_args, is_call
from .terms import Evaluator, Frame, show, num, subterms, subst_fold
from .poly import to_rat, Rat, Poly, NotPolynomial
from .extract import AnalysisBroken

PID = "C11"
LEVEL = "other"

SCOPE = ("src/THDM/gm2_2loop_B.cpp", "src/THDM/gm2_2loop_F.cpp", "src/THDM/gm2_1loop_H.cpp", "src/gm2_ffunctions.cpp")
OPAQUE = re.compile(r"^gm2calc::(thdm::)?(\(anonymous namespace\)::)?(Fa|Fb|Ixyz|Iabc|F1C|F2C|F3C|F4C|F1N|F2N|F3N|F4N|G3|G4|"
                    r"f_PS|f_S|f_sferm|dilog|clausen_2|Phi|lambda_2|FPZ|FSZ|FCWl|FCWu|FCWd|f_CSl|f_CSd|f_CSu|"
                    r"is_equal_rel|is_equal|is_zero|sort|phi_uv|phi_pos|phi_neg|phi_over_y)$")
INLINE_HELPERS = re.compile(r"::(sqr|cube|pow3|pow4|pow5|pow2|shift|sign|abs_sqrt)$")

# atoms that are functions of the SM inputs MW, MZ only: their combinations cannot hit a pole for physical input
SM_ONLY = re.compile(r"^(cw2|cw4|cw6|cw8|sw2|mw2|mz2|mw|mz|thdm\.mw|thdm\.mz|pars\.mw|pars\.mz|sm\.mw2|sm\.mz2)$")

# reviewed exceptions: (function, factor) -> reason.  Keyed by the normal form of the factor, not by position.
EXCEPTIONS = {
}

GUARD_BAND = (Fraction(1, 10 ** 9), Fraction(1, 10 ** 3))


def factors(t):
    if t[0] == "*":
        return factors(t[1]) + factors(t[2])
    if t[0] == "neg":
        return factors(t[1])
    return [t]


def ite_conds(t):
    out = []
    for x in subterms(t):
        if len(x) == 4 and x[0] == "ite" and x[1] not in out:
            out.append(x[1])
    return out


def know(c, facts):
    """truth value of condition c implied by the assumed atomic facts (None = unknown)"""
    for f_, tr in facts:
        if f_ == c:
            return tr
    if c[0] == "not":
        k = know(c[1], facts)
        return None if k is None else (not k)
    if c[0] == "and":
        a, b = know(c[1], facts), know(c[2], facts)
        if a is False or b is False:
            return False
        if a is True and b is True:
            return True
        return None
    if c[0] == "or":
        a, b = know(c[1], facts), know(c[2], facts)
        if a is True or b is True:
            return True
        if a is False and b is False:
            return False
        return None
    if c[0] == "num":
        return c[1] != 0
    for f_, tr in facts:
        if f_ == c:
            return tr
    return None


def flatten_assumed(c, truth, out):
    """decompose composite conditions into atomic assumed facts where that is sound (uses what is
    already known: not(A and B) with A known true gives not B)"""
    if c[0] == "not":
        flatten_assumed(c[1], not truth, out)
    elif c[0] == "and" and truth:
        flatten_assumed(c[1], True, out)
        flatten_assumed(c[2], True, out)
    elif c[0] == "or" and not truth:
        flatten_assumed(c[1], False, out)
        flatten_assumed(c[2], False, out)
    elif c[0] == "and" and not truth:
        a, b = know(c[1], out), know(c[2], out)
        if a is True:
            flatten_assumed(c[2], False, out)
        elif b is True:
            flatten_assumed(c[1], False, out)
        else:
            # resolution: not(P and D), not(P and not D)  =>  not P   (nested if/else under one outer test)
            for f_, tr in list(out):
                if tr is False and f_[0] == "and" and f_[1] == c[1] and (f_[2] == ("not", c[2]) or c[2] == ("not", f_[2])):
                    flatten_assumed(c[1], False, out)
                    return
            out.append((c, truth))
    elif c[0] == "or" and truth:
        a, b = know(c[1], out), know(c[2], out)
        if a is False:
            flatten_assumed(c[2], True, out)
        elif b is False:
            flatten_assumed(c[1], True, out)
        else:
            out.append((c, truth))
    else:
        out.append((c, truth))


def poly_of(t):
    r = to_rat(t)
    return r


def subs_power(p, atom, k, val):
    """replace atom^k by the rational function val in polynomial p (higher powers accordingly)"""
    tot = Rat(Poly())
    for m, c in p.t.items():
        d = dict(m)
        e = d.pop(atom, 0)
        mono = tuple(sorted(((a, x) for a, x in d.items() if x), key=lambda y: repr(y[0])))
        term = Rat(Poly({mono: c}))
        for _ in range(e // k):
            term = term * val
        if e % k:
            term = term * Rat(Poly({((atom, e % k),): Fraction(1)}))
        tot = tot + term
    return tot


def vanishes(t, sub):
    """does term t become identically zero under the substitution atom^k -> Rat ?"""
    try:
        r = to_rat(t)
    except NotPolynomial:
        return False
    atom, k, val = sub
    return subs_power(r.n, atom, k, val).is_zero()


def excluded_by(q, assumed):
    """is q == 0 impossible under the assumed conditions?  q: Poly.  Returns the excluding condition or None"""
    from .rules_c08 import subs_rat
    cands = []
    for a in q.atoms():
        k = q.degree_in(a)
        # q = c1 * a^k + c0 with a absent from c0, c1
        if k >= 1 and all(dict(m).get(a, 0) in (0, k) for m in q.t):
            c1 = q.coeff_of(a, k)
            c0 = q.coeff_of(a, 0)
            if c1.is_zero():
                continue
            cands.append((a, k, Rat(-c0, c1)))
    for sub in cands:
        for c, truth in assumed:
            h = c[0]
            if h == "call":
                name = str(c[1]).split("::")[-1]
                args = c[2]
                if name in ("is_equal_rel", "is_equal") and not truth and len(args) >= 2:
                    if vanishes(("-", args[0], args[1]), sub):
                        return c
                if name == "is_zero" and not truth and args:
                    if vanishes(args[0], sub):
                        return c
            if h == "cmp":
                op, l, r = c[1], c[2], c[3]
                # |X| < eps assumed false
                if op in ("<", "<=") and l[0] == "call" and str(l[1]).split("::")[-1] == "abs" and not truth:
                    if vanishes(l[2][0], sub):
                        return c
                z = vanishes(("-", l, r), sub)
                if z:
                    if (op == "<" and truth) or (op == "<=" and not truth) or (op == "==" and not truth) or (op == "!=" and truth):
                        return c
    # quadratic / non-linear factor: an assumed-false is_zero(X) / is_equal with X a constant multiple of q or q = X^2
    for c, truth in assumed:
        if c[0] == "call" and str(c[1]).split("::")[-1] == "is_zero" and not truth:
            try:
                x = to_rat(c[2][0])
            except NotPolynomial:
                continue
            if x.d.is_const() and _proportional(x.n, q):
                return c
    return None


def _proportional(a, b):
    if not a.t or not b.t:
        return False
    m = next(iter(a.t))
    if m not in b.t:
        return False
    k = b.t[m] / a.t[m]
    return (a.scale(k) - b).is_zero()


def mixed_sign(p):
    if len(p.t) < 2:
        return False
    s = {c > 0 for c in p.t.values()}
    return len(s) == 2


def atom_names(p):
    return {show(a) for a in p.atoms()}


def run(F, R, tier):
    R.explanation = (
        "(R1) Every function of the THDM two-loop/one-loop code and of the loop-function library is folded into "
        "a term; every syntactic factor of every denominator is normalised to a polynomial in the function's "
        "(positive) arguments. A factor with monomials of both signs can vanish at a coincidence of its "
        "arguments (u = 1, u = 4 cw^2, w = cw^2, x = y, 1 - 4x, a Kaellen form): it must be excluded on the path "
        "by one of the repository's guard idioms -- a shift(v, limit, eps), an is_equal(_rel)/==/|1-a/b| < eps "
        "branch, an ordered comparison chain -- which is decided by substituting the solution of factor = 0 "
        "into the path conditions. Factors made of SM inputs only (cw^2) are exempt. (R2) Phi(a,b,c) is set to "
        "zero where its Kaellen function vanishes, hence must not be divided by that Kaellen function. (R3) the "
        "tolerances of pole guards lie in a band where neither the shift itself nor floating-point cancellation "
        "can leave the 1% continuity band. (R4) a quantity that carries an unguarded pole on purpose (tan 2alpha) "
        "is used only through its reciprocal.")
    R.assumptions = ["arguments of the ratio functions are positive (mass ratios); sign-pattern test of factors relies on it",
                     "guard idioms enumerated in rules_c11.excluded_by"]
    R.undecided = ["the 1% continuity band as a number", "poles of the opaque loop functions themselves (C01/C02)"]

    from .rules_c08 import subs_rat
    R.rule("R1", "every coincidence-type denominator factor is excluded on its path by a guard (shift / equality branch / "
                 "ordered chain), or consists of SM inputs only", 40)
    n_sm = 0
    for k, f in sorted(F.functions.items(), key=lambda x: (x[1]["file"], x[1]["line"])):
        if f["file"] not in SCOPE or (f.get("method") or {}).get("lambda"):
            continue
        short = f["name"].split("::")[-1]
        if short in ("shift", "sqr", "pow3", "pow4", "cube"):
            continue
        E = Evaluator(F, inline=lambda n, g: bool(INLINE_HELPERS.search(n)), max_depth=4)
        v, fr = E.function_value(f)
        found = {}
        _walk(v, [], found, f, short)
        for key, (q, guard, qtxt, assumed_txt) in sorted(found.items()):
            inst = "%s: 1/(%s)" % (short, qtxt[:70])
            names = atom_names(q)
            if names and all(SM_ONLY.match(n) for n in names):
                n_sm += 1
                R.ok("R1", inst + " [SM inputs only]", F.loc(f))
                continue
            if (short, qtxt) in EXCEPTIONS:
                R.ok("R1", inst + " [reviewed: %s]" % EXCEPTIONS[(short, qtxt)][:60], F.loc(f))
                continue
            R.check("R1", guard is not None, inst + (" guarded by %s" % show(guard)[:60] if guard is not None else ""), F.loc(f),
                    "denominator factor %s can vanish at a coincidence of its arguments and no guard on the path excludes it "
                    "(path: %s)" % (qtxt[:90], assumed_txt[:120] or "unconditional"),
                    key="R1|%s|%s" % (short, qtxt[:80]))
    R.analysed["sm_only_factors"] = n_sm


def _walk(t, assumed, found, f, short, depth=0):
    if not isinstance(t, tuple) or not t or depth > 400:
        return
    h = t[0]
    if h == "ite":
        a_t, a_f = list(assumed), list(assumed)
        flatten_assumed(t[1], True, a_t)
        flatten_assumed(t[1], False, a_f)
        _walk(t[1], assumed, found, f, short, depth + 1)
        _walk(t[2], a_t, found, f, short, depth + 1)
        _walk(t[3], a_f, found, f, short, depth + 1)
        return
    if h == "/":
        _denominator(t[2], assumed, found, f, short)
    for x in (t[1:] if isinstance(h, str) else t):
        if isinstance(x, tuple):
            _walk(x, assumed, found, f, short, depth + 1)


def _cases(d, extra, depth=0):
    """ite-free instances of d with the conditions assumed for each (innermost conditions first)"""
    conds = [c for c in ite_conds(d) if not ite_conds(c)]
    if not conds or depth > 8:
        return [(extra, d)]
    c = conds[0]
    out = []
    for val in (1, 0):
        e2 = list(extra)
        flatten_assumed(c, bool(val), e2)
        out.extend(_cases(subst_fold(d, {c: num(val)}), e2, depth + 1))
    return out


def _sqrt_factor_exempt(q):
    """q = A + sqrt(B) with A^2 - B a single positive monomial: vanishes only if an argument is zero"""
    roots = [a for a in q.atoms() if isinstance(a, tuple) and a and a[0] == "call" and a[1] == "sqrt"]
    if len(roots) != 1 or q.degree_in(roots[0]) != 1:
        return False
    s_ = roots[0]
    c1 = q.coeff_of(s_, 1)
    if not ((c1 - Poly.const(1)).is_zero() or (c1 + Poly.const(1)).is_zero()):
        return False
    A = q.coeff_of(s_, 0)
    arg = s_[2][0]
    if arg[0] == "call" and arg[1] == "complex":
        arg = arg[2][0]
    try:
        B = to_rat(arg)
    except NotPolynomial:
        return False
    if not B.d.is_const():
        return False
    diff = A * A - B.n.scale(1 / B.d.const_value())
    return len(diff.t) == 1 and list(diff.t.values())[0] > 0


def _denominator(d, assumed, found, f, short):
    for extra, dd in _cases(d, []):
        if ite_conds(dd):
            continue
        for fac in factors(dd):
            try:
                r = to_rat(fac)
            except NotPolynomial:
                continue
            q = r.n
            if not mixed_sign(q):
                continue
            if _sqrt_factor_exempt(q):
                continue
            qtxt = repr(q)
            allassumed = list(assumed)
            for c, tr in extra:
                allassumed.append((c, tr))
            guard = excluded_by(q, allassumed)
            key = (qtxt,)
            prev = found.get(key)
            # a factor is fine only if it is guarded on every path it occurs on
            if prev is None or (prev[1] is not None and guard is None):
                found[key] = (q, guard, qtxt, " && ".join(("" if tr else "!") + show(c)[:40] for c, tr in allassumed))
