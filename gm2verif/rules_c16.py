"""C16 -- unphysical input is rejected or flagged, never silently computed."""
import re

from .facts import walk, kids, strip_all, call_args, call_object, is_call, in_macro
from .structure import Struct, always_exits
from .render import Renderer
from .throwmodel import ThrowModel, _unq
from . import rules_c17
from .rules_c14 import ValSet, disjuncts, conjuncts, same_expr

PID = "C16"
LEVEL = "other"

MODEL_CLASSES = ("gm2calc::MSSMNoFV_onshell", "gm2calc::THDM")
FORCE_RX = re.compile(r"^(do_force_output\(\)|config\.force_output)$")
# the flag each model class documents for force output (MSSM: setter do_force_output(bool);
# THDM: thdm::Config::force_output handed to the constructor)
FORCE_FLAG = {"gm2calc::MSSMNoFV_onshell": "do_force_output()", "gm2calc::THDM": "config.force_output"}

# V1: throws of the model classes that are deliberately not force-able (reason each)
NOT_FORCEABLE = {
    ("gm2calc::MSSMNoFV_onshell::get_TB", "is_zero(get_vd(), eps)"):
        "precondition of the quotient vu/vd itself; there is no value to proceed with",
}

# V2: documented rejection conditions -> (function regex, regex on the rendered defect condition, class)
DOCUMENTED = [
    ("MW >= MZ", r"MSSMNoFV_onshell::\w+$", r"^\(get_MZ\(\) <= get_MW\(\)\)$", "EInvalidInput"),
    ("MW = 0", r"MSSMNoFV_onshell::\w+$", r"^is_zero\(get_MW\(\), eps\)$", "EInvalidInput"),
    ("MZ = 0", r"MSSMNoFV_onshell::\w+$", r"^is_zero\(get_MZ\(\), eps\)$", "EInvalidInput"),
    ("muon mass = 0", r"MSSMNoFV_onshell::\w+$", r"^is_zero\(get_MM\(\), eps\)$", "EInvalidInput"),
    ("mu = 0", r"MSSMNoFV_onshell::\w+$", r"^is_zero\(get_Mu\(\), eps\)$", "EInvalidInput"),
    ("M1 = 0", r"MSSMNoFV_onshell::\w+$", r"^is_zero\(get_MassB\(\), eps\)$", "EInvalidInput"),
    ("M2 = 0", r"MSSMNoFV_onshell::\w+$", r"^is_zero\(get_MassWB\(\), eps\)$", "EInvalidInput"),
    ("tan(beta) = 0", r"MSSMNoFV_onshell::\w+$", r"^is_zero\(get_TB\(\), eps\)$", "EInvalidInput"),
    ("tan(beta) infinite", r"MSSMNoFV_onshell::\w+$", r"^!\(isfinite\(get_TB\(\)\)\)$", "EInvalidInput"),
    ("tachyon (MSSM)", r"MSSMNoFV_onshell::\w+$#final", r"^get_problems\(\)\.have_problem\(\)$", "EPhysicalProblem"),
    ("soft mu2 < 0", r"MSSMNoFV_onshell::\w+$#final", r"\(get_mu2\(\)\.diagonal\(\)\.minCoeff\(\) < 0\)", "EInvalidInput"),
    ("soft md2 < 0", r"MSSMNoFV_onshell::\w+$#final", r"\(get_md2\(\)\.diagonal\(\)\.minCoeff\(\) < 0\)", "EInvalidInput"),
    ("soft mq2 < 0", r"MSSMNoFV_onshell::\w+$#final", r"\(get_mq2\(\)\.diagonal\(\)\.minCoeff\(\) < 0\)", "EInvalidInput"),
    ("soft me2 < 0", r"MSSMNoFV_onshell::\w+$#final", r"\(get_me2\(\)\.diagonal\(\)\.minCoeff\(\) < 0\)", "EInvalidInput"),
    ("soft ml2 < 0", r"MSSMNoFV_onshell::\w+$#final", r"\(get_ml2\(\)\.diagonal\(\)\.minCoeff\(\) < 0\)", "EInvalidInput"),
    ("massless lightest chargino", r"MSSMNoFV_onshell::\w+$#final", r"^is_zero\(get_MCha\(0\), eps\)$", "EInvalidInput"),
    ("THDM gauge basis tan(beta) <= 0", r"gm2calc::THDM::\w+$#Gauge_basis", r"^\(basis\.tan_beta <= 0\)$", "EInvalidInput"),
    ("THDM mass basis tan(beta) <= 0", r"gm2calc::THDM::\w+$#Mass_basis", r"^\(basis\.tan_beta <= 0\)$", "EInvalidInput"),
    ("THDM mh > mH", r"gm2calc::THDM::\w+$#Mass_basis", r"^\(basis\.mH < basis\.mh\)$", "EInvalidInput"),
    ("THDM |sin(beta-alpha)| > 1", r"gm2calc::THDM::\w+$#Mass_basis", r"^\(1 < abs\(basis\.sin_beta_minus_alpha\)\)$", "EInvalidInput"),
    ("THDM mh < 0", r"gm2calc::THDM::\w+$#Mass_basis", r"^\(basis\.mh < 0\)$", "EInvalidInput"),
    ("THDM mH < 0", r"gm2calc::THDM::\w+$#Mass_basis", r"^\(basis\.mH < 0\)$", "EInvalidInput"),
    ("THDM mA < 0", r"gm2calc::THDM::\w+$#Mass_basis", r"^\(basis\.mA < 0\)$", "EInvalidInput"),
    ("THDM mH+ < 0", r"gm2calc::THDM::\w+$#Mass_basis", r"^\(basis\.mHp < 0\)$", "EInvalidInput"),
    ("THDM tachyon (gauge basis)", r"gm2calc::THDM::\w+$#Gauge_basis", r"^get_problems\(\)\.have_problem\(\)$", "EPhysicalProblem"),
    ("THDM tachyon (mass basis)", r"gm2calc::THDM::\w+$#Mass_basis", r"^get_problems\(\)\.have_problem\(\)$", "EPhysicalProblem"),
    ("THDM invalid Yukawa type", r"thdm::int_to_cpp_yukawa_type$", r".*", "ESetupError"),
    ("HMIX scale missing", r"GM2_slha_io::fill_scale$", r"^is_zero\(read_scale\(\"HMIX\"\)", "EInvalidInput"),
]


class FieldFlow:
    """transitive field read/write sets of statements (through repo callees)"""

    def __init__(self, F):
        self.F = F
        self._w = {}
        self._r = {}

    def stmt_closure(self, stmt):
        roots = [n["mg"] for n in walk(stmt) if is_call(n) and n.get("mg") in self.F.functions]
        return self.F.closure(roots)

    @staticmethod
    def _lhs_fields(e):
        out = set()
        e = strip_all(e)
        while e is not None:
            k = e.get("k")
            if k == "MemberExpr":
                if e.get("mk") == "Field":
                    out.add(e["n"])
                e = strip_all(e["c"][0]) if e.get("c") else None
            elif k == "CXXOperatorCallExpr" and e.get("op") in ("()", "[]"):
                e = strip_all(e["c"][1])
            elif k in ("CXXMemberCallExpr",):
                o = call_object(e)
                # accessor returning a reference to a field: treated through the callee's returned field
                out.add("call:" + (e.get("mg") or ""))
                e = strip_all(o) if o is not None else None
            elif k == "ArraySubscriptExpr":
                e = strip_all(e["c"][0])
            else:
                e = None
        return out

    def direct_writes(self, root):
        out = set()
        for n in walk(root):
            k = n.get("k")
            if k in ("BinaryOperator", "CompoundAssignOperator") and n.get("op") in ("=", "+=", "-=", "*=", "/="):
                out |= self._lhs_fields(n["c"][0])
            elif k == "CXXOperatorCallExpr" and n.get("op") in ("=", "+=", "-=", "*=", "/=", "<<"):
                out |= self._lhs_fields(n["c"][1])
            elif k == "UnaryOperator" and n.get("op") in ("++", "--"):
                out |= self._lhs_fields(n["c"][0])
            if is_call(n):
                # non-const member call on a field (setZero, swap, ...) or field passed by mutable reference
                if k == "CXXMemberCallExpr" and not n.get("cm"):
                    o = call_object(n)
                    if o is not None:
                        out |= {x for x in self._lhs_fields(o) if not x.startswith("call:")}
                for a in call_args(n) if k != "CXXOperatorCallExpr" else []:
                    if a.get("lv") and not (a.get("t") or "").startswith("const ") and a.get("k") in (
                            "MemberExpr", "DeclRefExpr", "CXXOperatorCallExpr"):
                        out |= {x for x in self._lhs_fields(a) if not x.startswith("call:")}
        # resolve accessor calls returning references to fields
        res = set()
        for x in out:
            if x.startswith("call:"):
                g = self.F.functions.get(x[5:])
                if g is not None:
                    for n in walk(g["body"]):
                        if n.get("k") == "ReturnStmt" and n.get("c"):
                            res |= {y for y in self._lhs_fields(n["c"][0]) if not y.startswith("call:")}
            else:
                res.add(x)
        return res

    def writes(self, stmt):
        out = set(self.direct_writes(stmt))
        for k in self.stmt_closure(stmt):
            if k not in self._w:
                g = self.F.functions[k]
                w = self.direct_writes(g["body"])
                for ini in g.get("inits", ()):
                    if "member" in ini:
                        w.add(ini["member"])
                self._w[k] = w
            out |= self._w[k]
        return out

    def reads(self, expr):
        out = set()
        for n in walk(expr):
            if n.get("k") == "MemberExpr" and n.get("mk") == "Field":
                out.add(n["n"])
        for k in self.stmt_closure(expr):
            if k not in self._r:
                self._r[k] = {n["n"] for n in walk(self.F.functions[k]["body"])
                              if n.get("k") == "MemberExpr" and n.get("mk") == "Field"}
            out |= self._r[k]
        return out


_SB = {}


def _reached_from_set_basis(F, f, basis):
    """f is THDM::set_basis(<basis>) itself or lies in its call closure"""
    if basis not in _SB:
        roots = [g["mg"] for g in F.fns("gm2calc::THDM::set_basis") if basis in (g["params"][0]["t"] or "")]
        _SB[basis] = F.closure(roots)
    return f["mg"] in _SB[basis]


def _throws(f):
    return [n for n in walk(f["body"]) if n.get("k") == "CXXThrowExpr" and n.get("tt")]



def _benign_guard(c):
    """enclosing conditions that do not narrow a documented rejection: Yukawa-type / basis dispatch"""
    return bool(re.search(r"yukawa_type|Yukawa_type|input_type|have_problem\(\)", c))


def _split_guard(cond, pol, locals_=None):
    """(A && B) held true -> A true, B true;  (A || B) held false -> A false, B false"""
    c = strip_all(cond)
    # a bool local that is initialised once stands for its initialiser
    seen = 0
    while c is not None and locals_ and c.get("k") == "DeclRefExpr" and c.get("rk") == "Var" and c.get("id") in locals_ and seen < 8:
        cond = locals_[c["id"]]
        c = strip_all(cond)
        seen += 1
    if c is not None and c.get("k") == "BinaryOperator" and ((c.get("op") == "&&" and pol) or (c.get("op") == "||" and not pol)):
        return _split_guard(c["c"][0], pol, locals_) + _split_guard(c["c"][1], pol, locals_)
    # !X held true is X held false (an inlined helper tests `if (!cond) return;`)
    if c is not None and c.get("k") == "UnaryOperator" and c.get("op") == "!" and not c.get("postfix"):
        return _split_guard(c["c"][0], not pol, locals_)
    return [(cond, pol)]


def _bool_eval(n, Rr, val, atoms):
    """truth value of a condition tree under an assignment of its atoms `X != 0` (keyed by the rendering of X);
    unknown leaves are collected in atoms when val is None"""
    c = strip_all(n)
    hops = 0
    while c is not None and c.get("k") == "DeclRefExpr" and c.get("rk") == "Var" and c.get("id") in Rr.local_init and hops < 8:
        c = strip_all(Rr.local_init[c["id"]])
        hops += 1
    if c is None:
        raise ValueError("empty condition")
    k = c.get("k")
    if k == "BinaryOperator" and c.get("op") in ("&&", "||"):
        a = _bool_eval(c["c"][0], Rr, val, atoms)
        b = _bool_eval(c["c"][1], Rr, val, atoms)
        return (a and b) if c["op"] == "&&" else (a or b)
    if k == "UnaryOperator" and c.get("op") == "!":
        return not _bool_eval(c["c"][0], Rr, val, atoms)
    if k == "BinaryOperator" and c.get("op") in ("==", "!="):
        l, r = strip_all(c["c"][0]), strip_all(c["c"][1])
        zero = lambda x: x.get("k") in ("IntegerLiteral", "FloatingLiteral") and float(x.get("v") or x.get("s") or 1) == 0
        if zero(r):
            key = Rr.r(l)
        elif zero(l):
            key = Rr.r(r)
        else:
            raise ValueError("comparison is not against zero: %s" % Rr.r(c))
        atoms.add(key)
        v = True if val is None else val[key]
        return v if c["op"] == "!=" else (not v)
    raise ValueError("not a boolean combination of zero tests: %s" % Rr.r(c)[:80])


def _undecidable_basis(F, R):
    """V2b: the basis is rejected as undecidable exactly when mass-basis and gauge-basis input are both present or both
    absent -- decided by the truth table of the throw's path condition over its atoms (robust to De Morgan rewrites,
    named predicates and early returns)"""
    import itertools
    R.rule("V2b", "the THDM reader rejects with EInvalidInput exactly when (some mass-basis parameter != 0) == (some of "
                  "lambda_1..5 != 0) is violated in neither direction: truth table of the throw's path condition over its "
                  "zero-test atoms equals (M and G) or (not M and not G), M over mh, mH, mA, mHp, sin(beta-alpha)", 1)
    fs = [f for f in F.functions.values() if re.search(r"THDM_reader::operator\(\)$", f["name"])]
    if not fs:
        R.broken("V2b: THDM_reader::operator() not found")
        return
    f = fs[0]
    S, Rr = Struct(f), Renderer(f)
    ths = [t for t in _throws(f) if _unq(t["tt"]) == "gm2calc::EInvalidInput"]
    if len(ths) != 1:
        R.broken("V2b: %d EInvalidInput throws in THDM_reader::operator()" % len(ths))
        return
    t = ths[0]
    gs = [g for g in S.guards(t) if g[0] != "switch"]
    atoms = set()
    try:
        for cond, pol in gs:
            _bool_eval(cond, Rr, None, atoms)
    except ValueError as e:
        R.broken("V2b: path condition of the basis rejection is outside the modelled boolean language (%s)" % e)
        return
    mass = sorted(a for a in atoms if a.startswith("mass_basis."))
    gauge = sorted(a for a in atoms if a.startswith("gauge_basis."))
    other = sorted(atoms - set(mass) - set(gauge))
    want_mass = ["mass_basis.mA", "mass_basis.mH", "mass_basis.mHp", "mass_basis.mh", "mass_basis.sin_beta_minus_alpha"]
    if other or not gauge:
        R.broken("V2b: unexpected atoms in the basis rejection: %s" % (other or "no gauge-basis atom"))
        return
    if mass != want_mass:
        R.fail("V2b", "atoms of the basis rejection", F.loc(f, t), "the decision reads %s, documented are the five mass-basis "
               "parameters %s" % (mass, want_mass), key="V2b|atoms")
        return
    al = sorted(atoms)
    bad = None
    for bits in itertools.product((False, True), repeat=len(al)):
        val = dict(zip(al, bits))
        pc = all(_bool_eval(c, Rr, val, set()) == pol for c, pol in gs)
        M = any(val[a] for a in mass)
        G = any(val[a] for a in gauge)
        if pc != ((M and G) or (not M and not G)):
            bad = (val, pc)
            break
    R.check("V2b", bad is None, "THDM_reader::operator(): throw <=> mass and gauge input both present or both absent",
            F.loc(f, t), "counterexample %s: rejection %s" % (bad[0] if bad else "", "taken" if bad and bad[1] else "not taken"),
            key="V2b|table", detail="%d atoms, %d rows" % (len(al), 2 ** len(al)))


def run(F, R, tier, M=None):
    M = M or ThrowModel(F)
    R.explanation = (
        "Path/shape clauses of the rejection discipline: (V1) every EInvalidInput/EPhysicalProblem throw of the "
        "model classes is control-dependent on the force flag being off and its forced branch warns or the "
        "condition is recorded in the problems object; (V2) each documented rejection condition has a throw "
        "site whose guard is that condition (normal-form match of the comparison) with the documented class, "
        "and that site is reached from the constructing/calculating API; (V3) the program's exit status is "
        "EXIT_FAILURE after a caught error, equals have_problem() in the MSSM, and the writer runs only after "
        "the reader returned; (V4) the C interface maps the classes to the error codes.")
    R.assumptions = ["the list of documented rejection conditions (README, headers, property text) frozen in DOCUMENTED"]
    R.undecided = ["finiteness of a result that is reported without error, problem or warning (numerical)"]

    # ---- V1 ------------------------------------------------------------------
    R.rule("V1", "every rejection throw of the model classes is conditional on !force_output, and the forced "
                 "branch emits WARNING or the condition is recorded in the problems object", 20)
    sites = []
    for k, f in sorted(F.functions.items()):
        cls = (f.get("method") or {}).get("cls")
        if cls not in MODEL_CLASSES:
            continue
        ths = _throws(f)
        if not ths:
            continue
        S = Struct(f)
        Rr = Renderer(f)
        for t in ths:
            ty = _unq(t["tt"])
            if ty not in ("gm2calc::EInvalidInput", "gm2calc::EPhysicalProblem"):
                continue
            gs = [g for g in S.guards(t) if g[0] != "switch"]
            gs = [x for g in gs for x in _split_guard(g[0], g[1], Rr.local_init)]
            force_g = None
            force_txt = None
            defect = []
            for cond, pol in gs:
                txt = Rr.r(cond)
                m = re.match(r"^!\((.*)\)$", txt)
                if FORCE_RX.match(txt) and pol is False:
                    force_g = (cond, pol)
                    force_txt = txt
                elif m and FORCE_RX.match(m.group(1)) and pol is True:
                    force_g = (cond, pol)
                    force_txt = m.group(1)
                else:
                    defect.append(("" if pol else "NOT ") + txt)
            dtxt = " && ".join(defect)
            sites.append((f, t, ty, dtxt, force_g))
            inst = "%s: throw %s if %s" % (f["name"], ty.split("::")[-1], dtxt[:120])
            if force_g is None:
                if (f["name"], dtxt) in NOT_FORCEABLE:
                    R.ok("V1", inst + " [frozen: not force-able]", F.loc(f, t), NOT_FORCEABLE[(f["name"], dtxt)])
                else:
                    R.fail("V1", inst, F.loc(f, t), "rejection is not conditional on the force-output flag",
                           key="V1|%s|%s|unconditional" % (f["name"], dtxt[:80]))
                continue
            if force_txt != FORCE_FLAG[cls]:
                R.fail("V1", inst, F.loc(f, t), "the throw is guarded by `%s`, but %s documents `%s` as its force-output "
                       "switch" % (force_txt, cls, FORCE_FLAG[cls]), key="V1|%s|%s|flag" % (f["name"], dtxt[:80]))
                continue
            # forced branch: find the IfStmt of the force guard
            ifs = S.parent(force_g[0])
            while ifs is not None and ifs.get("k") != "IfStmt":
                ifs = S.parent(ifs)
            warned = False
            if ifs is not None:
                other = ifs.get("else") if S.contains(ifs.get("then"), t) else ifs.get("then")
                if other is not None and any(in_macro(x, "WARNING") for x in walk(other)):
                    warned = True
                # statements following the force-if inside the defect branch
                par = S.parent(ifs)
                if par is not None and par.get("k") == "CompoundStmt":
                    sib = par["c"]
                    idx = [i for i, s in enumerate(sib) if s is ifs][0]
                    for s in sib[idx + 1:]:
                        if any(in_macro(x, "WARNING") for x in walk(s)):
                            warned = True
            recorded = bool(re.search(r"get_problems\(\)\.have_problem\(\)", dtxt))
            R.check("V1", warned or recorded, inst, F.loc(f, t),
                    "under force output this condition is neither warned about nor recorded as a problem",
                    key="V1|%s|%s|silent" % (f["name"], dtxt[:80]),
                    detail="warns" if warned else "recorded in problems")

    # ---- V2 -------------------------------------------------------------------
    R.rule("V2", "each documented rejection condition has a throw site guarded by exactly that condition, with "
                 "the documented exception class", len(DOCUMENTED))
    allsites = []
    for k, f in sorted(F.functions.items()):
        if f["file"] == "src/slhaea.h":
            continue
        ths = _throws(f)
        if not ths:
            continue
        S = Struct(f)
        Rr = Renderer(f)
        for t in ths:
            gs = [g for g in S.guards(t) if g[0] != "switch"]
            gs = [x for g in gs for x in _split_guard(g[0], g[1], Rr.local_init)]
            conds = []
            for cond, pol in gs:
                txt = Rr.r(cond)
                m = re.match(r"^!\((.*)\)$", txt)
                if FORCE_RX.match(txt) or (m and FORCE_RX.match(m.group(1))):
                    continue
                conds.append((txt, pol))
            ptypes = "#" + ",".join((p["t"] or "").split("::")[-1].replace(" &", "").replace("const ", "")
                                    for p in f["params"])
            allsites.append((f, t, _unq(t["tt"]), conds, ptypes))
    doc_sites = {}
    narrowed = {}
    for label, frx, crx, cls in DOCUMENTED:
        fr, _, pfilter = frx.partition("#")
        final = pfilter == "final"
        if final:
            pfilter = ""
        hits = []
        for f, t, ty, conds, ptypes in allsites:
            if not re.search(fr, f["name"]):
                continue
            if pfilter and not _reached_from_set_basis(F, f, pfilter):
                continue
            pos = [c for c, pol in conds if pol]
            neg = [c for c, pol in conds if not pol]
            # a condition held false is its negation held true (guards are split through `!`)
            pos = pos + ["!(%s)" % c for c in neg]
            if crx == ".*" or any(re.search(crx, c) for c in pos) or \
                    (label == "THDM undecidable basis" and any(re.search(crx, c) for c in neg)):
                hits.append((f, t, ty))
                # further conditions under which alone the rejection happens (they narrow the documented condition)
                extra = [c for c in pos if crx != ".*" and not re.search(crx, c)] + \
                        [("NOT " + c) for c in neg if not (label == "THDM undecidable basis" and re.search(crx, c))
                         and not (crx != ".*" and re.search(crx, "!(%s)" % c))]
                if label == "THDM undecidable basis":
                    extra = []            # the documented condition *is* the conjunction of the two negated basis tests
                narrowed.setdefault(label, []).append((f, t, extra))
        if not hits:
            R.fail("V2", label, "", "no throw site is guarded by this documented condition any more",
                   key="V2|%s|missing" % label)
            continue
        if label in narrowed and all(x[2] for x in narrowed[label]) and crx != ".*":
            f_, t_, extra = narrowed[label][0]
            if not all(_benign_guard(c) for c in extra):
                R.fail("V2", label, F.loc(f_, t_), "the documented condition is rejected only under the further condition(s) %s: "
                       "inputs that satisfy the documented condition but not these are accepted" % extra[:3],
                       key="V2|%s|narrowed" % label)
                continue
        f, t, ty = hits[0]
        R.check("V2", ty == "gm2calc::" + cls, "%s -> %s" % (label, ty.split("::")[-1]), F.loc(f, t),
                "documented class is %s" % cls, key="V2|%s|class" % label)
        doc_sites[label] = (hits, final, crx)
    R.guard(_undecidable_basis, F, R)
    # reachability and ordering of the rejection sites in the public entry points
    R.rule("V2r", "each MSSM rejection site is reached by an unconditional top-level statement of every public "
                  "spectrum entry point; the final-spectrum conditions (tachyon, soft m^2, chargino) are tested "
                  "after the last statement that can write the quantities they read", 30)
    FW = FieldFlow(F)
    entries = [f for f in F.fns("gm2calc::MSSMNoFV_onshell::calculate_masses")] + \
        [f for f in F.fns("gm2calc::MSSMNoFV_onshell::convert_to_onshell") if f["params"]]
    for label, (hits, final, crx) in sorted(doc_sites.items()):
        if not any(h[0]["name"].startswith("gm2calc::MSSMNoFV_onshell::") for h in hits):
            continue
        site_funcs = {h[0]["mg"] for h in hits}
        for e in entries:
            top = e["body"].get("c", [])
            idx_check = None
            for i, s_ in enumerate(top):
                if s_.get("k") in ("IfStmt", "ForStmt", "WhileStmt", "SwitchStmt", "CXXTryStmt"):
                    continue
                if FW.stmt_closure(s_) & site_funcs:
                    idx_check = i
            inst = "%s in %s(%d params)" % (label, e["name"].split("::")[-1], len(e["params"]))
            if idx_check is None:
                R.fail("V2r", inst, F.loc(e), "no unconditional top-level statement of the entry point reaches the "
                       "rejection site", key="V2r|%s|%s|reach" % (label, e["name"]))
                continue
            early = [p_ for p_ in top[:idx_check] if any(y.get("k") == "ReturnStmt" for y in walk(p_))]
            if early:
                R.fail("V2r", inst, F.loc(e, early[0]), "an early return can bypass the rejection site",
                       key="V2r|%s|%s|bypass" % (label, e["name"]))
                continue
            if not final:
                R.ok("V2r", inst, F.loc(e, top[idx_check]))
                continue
            # fields read by the defect condition
            reads = set()
            for f_, t_, ty_ in hits:
                S_ = Struct(f_)
                for cond, pol in [x for g in S_.guards(t_) if g[0] != "switch"
                                  for x in _split_guard(g[0], g[1], Renderer(f_).local_init)]:
                    if re.search(crx, Renderer(f_).r(cond)):
                        for d in disjuncts(cond):
                            if re.search(crx, Renderer(f_).r(d)):
                                reads |= FW.reads(d)
            if not reads:
                R.broken("V2r: could not determine the fields read by condition %s" % label)
            last_write = None
            for i, s_ in enumerate(top):
                if FW.writes(s_) & reads:
                    last_write = i
            ok = last_write is None or last_write < idx_check
            R.check("V2r", ok, inst + " after last write of {%s}" % ", ".join(sorted(x.split("::")[-1] for x in reads))[:80],
                    F.loc(e, top[idx_check]),
                    "the condition is tested at top-level statement %d but statement %d (line %s) can still "
                    "modify what it reads" % (idx_check, last_write or -1, top[last_write].get("l") if last_write is not None else "?"),
                    key="V2r|%s|%s|order" % (label, e["name"]))
    # THDM: set_basis is called by every constructing entry point
    for f in F.fns("gm2calc::THDM::THDM"):
        if not f["params"]:
            continue
        ok = any(is_call(x) and (x.get("fn") or "").endswith("::set_basis") for s_ in f["body"].get("c", [])
                 if s_.get("k") not in ("IfStmt", "ForStmt", "WhileStmt", "SwitchStmt") for x in walk(s_))
        R.check("V2r", ok, "THDM::THDM(%s) calls set_basis unconditionally" % (f["params"][0]["t"] or "")[:40], F.loc(f),
                "constructor does not validate the basis", key="V2r|THDM::THDM|%s" % (f["params"][0]["t"] or "")[:40])

    # ---- V3 ----------------------------------------------------------------------
    R.rule("V5", "tachyon detection is complete (MSSM and THDM): each sector flags a tachyon under `min over all squared masses < 0`, "
                 "tested on the squared masses before sqrt(|m^2|) (the eigenvalues are ordered by modulus, so testing one entry is "
                 "not enough)", 11)
    from .rules_c04 import _check_tachyons
    R.guard(_check_tachyons, F, R, "V5", False)

    R.rule("V3", "exit status: the handler assigns EXIT_FAILURE and nothing later reassigns it; the MSSM run "
                 "returns failure iff have_problem(); the writer is called only after the reader returned", 5)
    main = [f for f in F.functions.values() if f.get("main")]
    if len(main) != 1:
        R.broken("main not found")
    main = main[0]
    VS = ValSet(F)
    S = Struct(main)
    tr = [n for n in walk(main["body"]) if n.get("k") == "CXXTryStmt"]
    if len(tr) != 1:
        R.broken("main: expected one try block")
    tr = tr[0]
    rets = [n for n in walk(main["body"]) if n.get("k") == "ReturnStmt"]
    final = rets[-1]
    ev = strip_all(final["c"][0])
    if ev.get("k") != "DeclRefExpr":
        R.broken("main does not return a status variable")
    vid = ev["id"]
    for h in tr["c"][1:]:
        asg = [n for n in walk(h["body"]) if n.get("k") == "BinaryOperator" and n.get("op") == "=" and
               strip_all(n["c"][0]).get("id") == vid]
        vals = [VS.of(main, a["c"][1]) for a in asg]
        R.check("V3", bool(asg) and all(v == {1} for v in vals), "main catch(%s) sets EXIT_FAILURE" % (h.get("ct") or "..."),
                F.loc(main, h), "handler does not set the exit status to EXIT_FAILURE", key="V3|main|handler")
    # nothing after the try reassigns
    top = main["body"]["c"]
    idx = [i for i, s in enumerate(top) if s is tr]
    if not idx:
        R.broken("main: try block is not a top-level statement")
    later = []
    for s in top[idx[0] + 1:]:
        for n in walk(s):
            if n.get("k") in ("BinaryOperator", "CompoundAssignOperator") and n.get("op", "").endswith("=") and \
                    n.get("op") not in ("==", "!=", "<=", ">=") and strip_all(n["c"][0]).get("id") == vid:
                later.append(n)
    R.check("V3", not later, "main: status not reassigned after the try", F.loc(main, tr),
            "exit status is overwritten after the handler", key="V3|main|reassigned")
    R.check("V3", final is top[-1], "main returns the status variable last", F.loc(main, final), "", key="V3|main|return")
    # MSSM run
    run_m = F.fn("(anonymous namespace)::MSSMNoFV_setup::run")
    Rr = Renderer(run_m)
    rr = [n for n in walk(run_m["body"]) if n.get("k") == "ReturnStmt"]
    ok = len(rr) == 1
    if ok:
        e = strip_all(rr[0]["c"][0])
        ok = e.get("k") == "ConditionalOperator" and \
            re.match(r"^model\.get_problems\(\)\.have_problem\(\)$", Rr.r(e["cond"])) is not None and \
            VS.of(run_m, e["then"]) == {1} and VS.of(run_m, e["else"]) == {0}
    R.check("V3", ok, "MSSMNoFV_setup::run returns have_problem() ? EXIT_FAILURE : EXIT_SUCCESS", F.loc(run_m),
            "MSSM exit status is not `have_problem() ? failure : success`", key="V3|run|status")
    for fn in ("(anonymous namespace)::MSSMNoFV_setup::run", "(anonymous namespace)::THDM_setup::run"):
        f = F.fn(fn)
        Sx = Struct(f)
        w = r = None
        for n in walk(f["body"]):
            if n.get("k") == "CXXOperatorCallExpr" and n.get("op") == "()":
                o = strip_all(n["c"][1])
                if o.get("sn") == "writer":
                    w = n
                if o.get("sn") == "reader":
                    r = n
        if w is None or r is None:
            R.broken("V3: reader/writer calls not found in %s" % fn)
        before = Sx.executed_before(w)
        ok = any(Sx.contains(s, r) or s is r for s in before)
        R.check("V3", ok, "%s: writer call is dominated by the reader call" % fn.split("::")[-2], F.loc(f, w),
                "writer can run without the reader having returned", key="V3|%s|order" % fn)

    # ---- V4 (shared with C17-X5h) -----------------------------------------------------
    R.rule("V4", "C interface: exception classes map to the corresponding error codes (handler order, "
                 "completeness, null handle on failure)", 5)

    class Proxy:
        def __init__(self, R):
            self.R = R

        def check(self, rid, *a, **kw):
            return self.R.check("V4", *a, **kw)

        def fail(self, rid, *a, **kw):
            return self.R.fail("V4", *a, **kw)

        def ok(self, rid, *a, **kw):
            return self.R.ok("V4", *a, **kw)

        def broken(self, m):
            return self.R.broken(m)
    P = Proxy(R)
    for k, f in sorted(F.functions.items()):
        if f.get("externC") and _unq(f["ret"]) == "gm2calc_error":
            rules_c17._check_error_mapping(F, P, M, f)
