"""Canonical rational normal form of loop-function formulas over the transcendental atoms
x, LOG(.), LI2(.), named loop functions and constants -- shared by the C++ terms of the
evaluator and the Mathematica terms of math/ffunctions.m, so that `closed form == definition`
is equality of rational functions.  Identities applied (all valid for positive real arguments):
  log(a^i b^j q) = i log a + j log b + log q,   log q = sum e_p log p (prime factorisation)
  Li2(1 - 1/w)  = -Li2(1 - w) - log(w)^2 / 2          (w polynomial)
  sqrt(q), pi, pi^2, log 2 literals are recognised to 1 ulp (poly.literal_poly)."""
import math
from fractions import Fraction

from .poly import Poly, Rat, to_rat, NotPolynomial, PI, literal_poly, _small_rational

# names:  ffunctions.m  ->  C++ short name
M2C = {"fPS": "f_PS", "fS": "f_S", "fsferm": "f_sferm", "fCl": "f_CSl", "fCSd": "f_CSd", "fCSu": "f_CSu",
       "PhiOverY": "phi_over_y", "I2abc": "Ixyz"}
LOGN = ("log", "Log")
LI2N = ("dilog", "Li2")
POWN = {"sqr": 2, "pow2": 2, "cube": 3, "pow3": 3, "pow4": 4, "pow5": 5}


def short(name):
    return str(name).split("::")[-1]


ARGS = {}      # key -> Rat: the argument a canonical atom stands for


def key(r):
    """canonical hashable key of a rational function (registered in ARGS)"""
    n, d = r.n, r.d
    if d.is_const():
        c = d.const_value()
        n, d = n.scale(1 / c), Poly.const(1)
    else:
        # scale so that the first monomial (in repr order) of d has coefficient 1
        m0 = sorted(d.t, key=repr)[0]
        c = d.t[m0]
        n, d = n.scale(1 / c), d.scale(1 / c)
    k = (repr(n), repr(d))
    ARGS.setdefault(k, Rat(n, d))
    return k


def LOG(k):
    return ("LOG", k)


def LI2(k):
    return ("LI2", k)


def _monomial(p):
    """(coefficient, {atom: exp}) if p is a single monomial"""
    if len(p.t) != 1:
        return None
    (m, c), = p.t.items()
    return c, dict(m)


def _log_of_rational(q):
    """log q as a Poly over LOG(prime) atoms (q > 0)"""
    if q <= 0:
        raise NotPolynomial("log of non-positive constant %s" % q)
    res = Poly()
    for val, sgn in ((q.numerator, 1), (q.denominator, -1)):
        n, p = val, 2
        while n > 1 and p * p <= n:
            e = 0
            while n % p == 0:
                n //= p
                e += 1
            if e:
                res = res + Poly.atom(LOG(str(p))).scale(sgn * e)
            p += 1
        if n > 1:
            res = res + Poly.atom(LOG(str(n))).scale(sgn)
    return res


def canon(t, depth=0):
    """term (C++ evaluator term or Mathematica term) -> Rat in canonical atoms"""
    return to_rat(t, atomize=_atomize)


def _atomize(t):
    h = t[0]
    if h == "num":
        fr = t[1]
        if fr.denominator > 10 ** 6:
            v = float(fr)
            q = _small_rational(v / math.log(2.0), maxden=64)
            if q is not None:
                return Rat(Poly.atom(LOG("2")).scale(q))
            for k, name in ((math.pi ** 2, None),):
                pass
        return None
    if h == "sym":
        if t[1] == "Pi":
            return Rat(Poly.atom(PI))
        return None
    if h == "pow":
        base = canon(t[1])
        e = t[2]
        neg = False
        if e[0] == "neg":
            neg, e = True, e[1]
        if e[0] != "num" or e[1].denominator != 1:
            raise NotPolynomial("non-integer power")
        n = int(e[1])
        r = Rat(Poly.const(1))
        for _ in range(n):
            r = r * base
        return Rat(Poly.const(1)) / r if neg else r
    if h == "call":
        name = short(t[1])
        args = t[2]
        if name in POWN and len(args) == 1:
            b = canon(args[0])
            r = Rat(Poly.const(1))
            for _ in range(POWN[name]):
                r = r * b
            return r
        if name in LOGN and len(args) == 1:
            return _log(canon(args[0]))
        if name == "PolyLog" and len(args) == 2 and args[0] == ("num", Fraction(2)):
            return _li2(canon(args[1]))
        if name in LI2N and len(args) == 1:
            return _li2(canon(args[0]))
        if name in ("Sqrt", "sqrt") and len(args) == 1:
            a = canon(args[0])
            if a.n.is_const() and a.d.is_const():
                return to_rat(("call", "sqrt", (("num", a.n.const_value() / a.d.const_value()),)))
            return Rat(Poly.atom(("SQRT", key(a))))
        if name in ("Re",) and len(args) == 1:
            return Rat(Poly.atom(("RE", repr(args[0])[:200])))
        cname = M2C.get(name, name)
        return Rat(Poly.atom(("FN", cname, tuple(key(canon(a)) for a in args))))
    return None


def _log(a):
    mn, md = _monomial(a.n), _monomial(a.d)
    if mn is not None and md is not None:
        (cn, en), (cd, ed) = mn, md
        res = Poly()
        for atom, e in en.items():
            res = res + Poly.atom(LOG(key(Rat(Poly.atom(atom))))).scale(e)
        for atom, e in ed.items():
            res = res - Poly.atom(LOG(key(Rat(Poly.atom(atom))))).scale(e)
        q = cn / cd
        if q != 1:
            res = res + _log_of_rational(q)
        return Rat(res)
    # factor the monomial content out of numerator and denominator:  log(y (1 + t)) = log y + log(1 + t)
    cn, cd = _content(a.n), _content(a.d)
    if (cn is not None and cn[1]) or (cd is not None and cd[1]):
        res = Rat(Poly())
        rest_n, rest_d = a.n, a.d
        if cn is not None and cn[1]:
            mono = Poly({tuple(sorted(cn[1].items(), key=lambda y: repr(y[0]))): Fraction(1)})
            res = res + _log(Rat(mono))
            rest_n = _divide_mono(a.n, cn[1])
        if cd is not None and cd[1]:
            mono = Poly({tuple(sorted(cd[1].items(), key=lambda y: repr(y[0]))): Fraction(1)})
            res = res - _log(Rat(mono))
            rest_d = _divide_mono(a.d, cd[1])
        return res + _log(Rat(rest_n, rest_d))
    # monomial / polynomial or polynomial / monomial: split, with the sign convention "constant term of the
    # polynomial positive" (so that log(w/(1-x)) = log w - log(1-x))
    for mono_, pol_, mono_is_num in ((a.n, a.d, True), (a.d, a.n, False)):
        if len(mono_.t) == 1 and len(pol_.t) >= 2 and not (mono_.is_const() and mono_.const_value() == 1 and not mono_is_num):
            c0 = pol_.t.get((), None)
            s_ = 1 if (c0 is None or c0 > 0) else -1
            (m, c), = mono_.t.items()
            if c * s_ > 0:
                lm = _log(Rat(mono_.scale(s_)))
                lp = _log_poly(pol_.scale(s_))
                return (lm - lp) if mono_is_num else (lp - lm)
    if a.d.is_const() and len(a.n.t) >= 2 and a.d.const_value() > 0:
        return _log_poly(a.n.scale(1 / a.d.const_value()))
    return Rat(Poly.atom(LOG(key(a))))


def _log_poly(p):
    """log of a polynomial with >= 2 terms: the constant term (if positive) is normalised to 1"""
    c0 = p.t.get((), None)
    if c0 is not None and c0 > 0 and c0 != 1:
        return Rat(_log_of_rational(c0)) + Rat(Poly.atom(LOG(key(Rat(p.scale(1 / c0))))))
    return Rat(Poly.atom(LOG(key(Rat(p)))))


def _content(p):
    """(1, {atom: min exponent over all monomials}) of a polynomial with >= 2 terms"""
    if len(p.t) < 2:
        return None
    common = None
    for m in p.t:
        d = dict(m)
        if common is None:
            common = d
        else:
            common = {a: min(e, d.get(a, 0)) for a, e in common.items() if d.get(a, 0) > 0}
    return 1, {a: e for a, e in (common or {}).items() if e > 0}


def _divide_mono(p, mono):
    r = {}
    for m, c in p.t.items():
        d = dict(m)
        for a, e in mono.items():
            d[a] -= e
            if d[a] == 0:
                del d[a]
        r[tuple(sorted(d.items(), key=lambda y: repr(y[0])))] = c
    return Poly(r)


def _li2(a):
    one = Rat(Poly.const(1))
    om = one - a                       # 1 - arg
    if om.is_zero():
        return Rat(Poly())             # Li2(0) = 0
    if a.is_zero() is False and (one - a).n.is_const() and (one - a).d.is_const() and (one - a).n.const_value() == 0:
        return Rat(Poly())
    # Li2(1) = pi^2/6
    if a.d.is_const() and a.n.is_const() and a.n.const_value() == a.d.const_value():
        return Rat((Poly.atom(PI) ** 2).scale(Fraction(1, 6)))
    # arg = 1 - 1/w with w polynomial and 1 - arg not polynomial
    if not om.d.is_const():
        w = one / om
        if _is_poly(w):
            lw = _log(w)
            return Rat(Poly()) - _li2(one - w) - lw * lw * Rat(Poly.const(Fraction(1, 2)))
    return Rat(Poly.atom(LI2(key(a))))


def _is_poly(r):
    if r.d.is_const():
        return True
    m = _monomial(r.d)
    n = _monomial(r.n)
    # n/d with d monomial dividing every term?  only the trivial case (1/(1/x)) is needed
    if m is not None and n is not None:
        return all(n[1].get(a, 0) >= e for a, e in m[1].items())
    return False


# ---- derivative at the term level ------------------------------------------------------------

def N(v):
    return ("num", Fraction(v))


def diff_term(t, var, fn_derivs=None):
    """d t / d var  for a term over + - * / neg pow num sym and log / dilog / sqr.. calls.
    fn_derivs: {short name: function(args) -> derivative term w.r.t. its single argument}"""
    h = t[0]
    D = lambda u: diff_term(u, var, fn_derivs)
    if h == "num":
        return N(0)
    if h == "sym":
        return N(1) if t[1] == var else N(0)
    if h in ("+", "-"):
        return (h, D(t[1]), D(t[2]))
    if h == "neg":
        return ("neg", D(t[1]))
    if h == "*":
        return ("+", ("*", D(t[1]), t[2]), ("*", t[1], D(t[2])))
    if h == "/":
        return ("/", ("-", ("*", D(t[1]), t[2]), ("*", t[1], D(t[2]))), ("*", t[2], t[2]))
    if h == "pow":
        e = t[2]
        if e[0] == "neg" and e[1][0] == "num":
            e = ("num", -e[1][1])
        if e[0] != "num":
            _np("symbolic exponent")
        if e[1] == 1:
            return D(t[1])
        em1 = e[1] - 1
        pw = ("pow", t[1], ("num", em1)) if em1 >= 0 else ("/", N(1), ("pow", t[1], ("num", -em1)))
        return ("*", ("*", e, pw), D(t[1]))
    if h == "call":
        name = short(t[1])
        a = t[2]
        if name in POWN and len(a) == 1:
            n = POWN[name]
            r = N(n)
            for _ in range(n - 1):
                r = ("*", r, a[0])
            return ("*", r, D(a[0]))
        if name in LOGN and len(a) == 1:
            return ("/", D(a[0]), a[0])
        if name in LI2N and len(a) == 1:
            return ("*", ("neg", ("/", ("call", "log", (("-", N(1), a[0]),)), a[0])), D(a[0]))
        if name == "PolyLog" and len(a) == 2 and a[0] == N(2):
            return ("*", ("neg", ("/", ("call", "log", (("-", N(1), a[1]),)), a[1])), D(a[1]))
        if fn_derivs and name in fn_derivs and len(a) == 1:
            return ("*", fn_derivs[name](a[0]), D(a[0]))
    _np("cannot differentiate %s" % (t[:2],))


def _np(msg):
    raise NotPolynomial(msg)


def reduce_sqrt(p):
    """('SQRT', key)^2 -> the polynomial the key stands for (only for polynomial radicands)"""
    from .rules_c11 import subs_power
    for a in list(p.atoms()):
        if isinstance(a, tuple) and a and a[0] == "SQRT" and isinstance(a[1], tuple) and p.degree_in(a) >= 2:
            r = ARGS[a[1]]
            q = subs_power(p, a, 2, r)
            if q.d.is_const():
                p = q.n.scale(1 / q.d.const_value())
    return p
