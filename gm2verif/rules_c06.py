"""C06 -- MSSM a_mu is invariant under the joint sign flip of mu, M1, M2, M3 and A_f (parity domain)."""
import re

from .terms import Evaluator, show, subterms
from .domains import parity, EVEN, ODD, MIXED, UNKNOWN
from .extract import AnalysisBroken

PID = "C06"
LEVEL = "other"

# contributions that do not touch a mixing matrix: must be EVEN
EVEN_FUNCS = [
    "delta_down_lepton_correction", "delta_mu_correction", "delta_tau_correction", "delta_bottom_correction",
    "tan_beta_cor", "amu1LWHnu", "amu1LWHmuL", "amu1LBHmuL", "amu1LBHmuR", "amu1LBmuLmuR",
    "amu1Lapprox", "amu1Lapprox_non_tan_beta_resummed",
    "log_scale", "delta_g1", "delta_g2", "delta_yuk_higgsino", "delta_yuk_bino_higgsino", "delta_yuk_wino_higgsino",
    "delta_tan_beta", "amu2LWHnu", "amu2LWHmuL", "amu2LBHmuL", "amu2LBHmuR", "amu2LBmuLmuR",
    "amu2LFSfapprox", "amu2LFSfapprox_non_tan_beta_resummed", "tan_alpha",
]
# contributions whose invariance rests on the eigen-solver's conventions: reported, not decided
NOT_DECIDED = ["amu1LChi0", "amu1LChipm", "amu2LChi0Photonic", "amu2LChipmPhotonic", "amu2LaSferm", "amu2LaCha"]

# loop functions stay opaque; Iabc is opened one level (it squares its arguments: Iabc(a,b,c) = Ixyz(a^2,b^2,c^2)),
# so its evenness in each argument is derived, not assumed
LOOPFN = re.compile(r"^gm2calc::(\(anonymous namespace\)::)?(Fa|Fb|Ixyz|F1C|F2C|F3C|F4C|F1N|F2N|F3N|F4N|G3|G4|f_PS|f_S|f_sferm|dilog)$")


def run(F, R, tier):
    R.explanation = (
        "Parity abstract interpretation under the joint sign flip (mu, M1, M2, M3, A_f, T_f -> -): every function "
        "of the tan(beta)-resummation factors, the leading-log one- and two-loop approximations and the "
        "auxiliary logarithms is folded into a term (model getters inlined down to the stored parameters) and "
        "evaluated in the domain {even, odd, mixed, unknown}: products multiply parities, sums need equal "
        "parities, |x|, x^2 are even, comparisons/min/max/log of a sign-changing quantity are 'mixed'. The "
        "obligation is 'even'. A missing abs(), a bare M1 in a comparison, mu*A_t replaced by A_t are definite "
        "violations. Contributions that read a mixing matrix are listed as not decided.")
    R.assumptions = ["masses (eigenvalues) are invariant under the flip; only mixing matrices are treated as unknown",
                     "loop functions are called with the arguments shown (even in each argument where they square them)"]
    R.undecided = ["exact one-loop, photonic and 2L(a) contributions: invariance rests on how the eigen-solver "
                   "absorbs the signs into ZN, UM, UP, ZM (%s)" % ", ".join(NOT_DECIDED)]
    R.rule("P1", "contribution is even under the joint sign flip", len(EVEN_FUNCS) - 2)
    E = Evaluator(F, inline=lambda n, g: not LOOPFN.match(n), max_depth=14)
    n_done = 0
    for nm in EVEN_FUNCS:
        fs = [f for f in F.functions.values() if f["name"].split("::")[-1] == nm and f["file"].startswith("src/MSSMNoFV/")]
        if not fs:
            R.soft_broken("P1: function %s not found" % nm)
            continue
        for f in fs:
            v, fr = E.function_value(f)
            why = []
            p = parity(v, why)
            inst = "%s(%s)" % (nm, ", ".join(p_["name"] or "?" for p_ in f["params"]))
            if p == UNKNOWN:
                culprit = "; ".join(show(x)[:70] for q, x in why[:2])
                R.soft_broken("P1: %s: parity cannot be determined (%s)" % (inst, culprit))
                continue
            n_done += 1
            culprit = "; ".join("%s: %s" % (q, show(x)[:110]) for q, x in why[:2])
            R.check("P1", p == EVEN, inst, F.loc(f),
                    "is %s under (mu, M_i, A_f) -> -(mu, M_i, A_f): %s" % (p, culprit), key="P1|" + inst)
    R.analysed["functions_decided"] = n_done
    R.analysed["not_decided_by_design"] = NOT_DECIDED
