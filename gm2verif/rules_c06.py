"""C06 -- MSSM a_mu is invariant under the joint sign flip of mu, M1, M2, M3 and A_f (parity domain)."""
import re

from .terms import Evaluator, show, subterms
from .domains import parity, EVEN, ODD, MIXED, UNKNOWN
from .extract import AnalysisBroken

PID = "C06"
LEVEL = "other"

# contributions that do not touch a mixing matrix: must be EVEN
EVEN_FUNCS = [
    "delta_down_lepton_correction", "delta_mu_correction", "delta_tau_correction", "delta_bottom_correction",
    "tan_beta_cor", "amu1LWHnu", "amu1LWHmuL", "amu1LBHmuL", "amu1LBHmuR", "amu1LBmuLmuR",
    "amu1Lapprox", "amu1Lapprox_non_tan_beta_resummed",
    "log_scale", "delta_g1", "delta_g2", "delta_yuk_higgsino", "delta_yuk_bino_higgsino", "delta_yuk_wino_higgsino",
    "delta_tan_beta", "amu2LWHnu", "amu2LWHmuL", "amu2LBHmuL", "amu2LBHmuR", "amu2LBmuLmuR",
    "amu2LFSfapprox", "amu2LFSfapprox_non_tan_beta_resummed", "tan_alpha",
]
# contributions whose invariance rests on the eigen-solver's conventions: reported, not decided
NOT_DECIDED = []
# exact contributions that read the neutralino / chargino / smuon mixing matrices: decided by covariance (P2-P4)
MIXING_FUNCS = ["amu1LChi0", "amu1LChipm", "amu2LChi0Photonic", "amu2LChipmPhotonic", "amu2LaSferm", "amu2LaCha"]

# loop functions stay opaque; Iabc is opened one level (it squares its arguments: Iabc(a,b,c) = Ixyz(a^2,b^2,c^2)),
# so its evenness in each argument is derived, not assumed
LOOPFN = re.compile(r"^gm2calc::(\(anonymous namespace\)::)?(Fa|Fb|Ixyz|F1C|F2C|F3C|F4C|F1N|F2N|F3N|F4N|G3|G4|f_PS|f_S|f_sferm|dilog)$")


def run(F, R, tier):
    R.explanation = (
        "Parity abstract interpretation under the joint sign flip (mu, M1, M2, M3, A_f, T_f -> -): every function "
        "of the tan(beta)-resummation factors, the leading-log one- and two-loop approximations and the "
        "auxiliary logarithms is folded into a term (model getters inlined down to the stored parameters) and "
        "evaluated in the domain {even, odd, mixed, unknown}: products multiply parities, sums need equal "
        "parities, |x|, x^2 are even, comparisons/min/max/log of a sign-changing quantity are 'mixed'. The "
        "obligation is 'even'. A missing abs(), a bare M1 in a comparison, mu*A_t replaced by A_t are definite "
        "violations. Contributions that read a mixing matrix are listed as not decided.")
    R.assumptions = ["masses (eigenvalues) are invariant under the flip; only mixing matrices are treated as unknown",
                     "loop functions are called with the arguments shown (even in each argument where they square them)"]
    R.undecided = ["exactly degenerate masses, where the decomposition leaves a rotation (not only row phases) open",
                   "the CP-even Higgs mixing enters 2L(a) through the closed-form tan(alpha) (decided even by P1), not through ZH"]
    R.rule("P1", "contribution is even under the joint sign flip", len(EVEN_FUNCS) - 2)
    E = Evaluator(F, inline=lambda n, g: not LOOPFN.match(n), max_depth=14)
    n_done = 0
    for nm in EVEN_FUNCS:
        fs = [f for f in F.functions.values() if f["name"].split("::")[-1] == nm and f["file"].startswith("src/MSSMNoFV/")]
        if not fs:
            R.soft_broken("P1: function %s not found" % nm)
            continue
        for f in fs:
            v, fr = E.function_value(f)
            why = []
            p = parity(v, why)
            inst = "%s(%s)" % (nm, ", ".join(p_["name"] or "?" for p_ in f["params"]))
            if p == UNKNOWN:
                culprit = "; ".join(show(x)[:70] for q, x in why[:2])
                R.soft_broken("P1: %s: parity cannot be determined (%s)" % (inst, culprit))
                continue
            n_done += 1
            culprit = "; ".join("%s: %s" % (q, show(x)[:110]) for q, x in why[:2])
            R.check("P1", p == EVEN, inst, F.loc(f),
                    "is %s under (mu, M_i, A_f) -> -(mu, M_i, A_f): %s" % (p, culprit), key="P1|" + inst)
    R.analysed["functions_decided"] = n_done
    R.analysed["not_decided_by_design"] = NOT_DECIDED
    R.guard(_covariance, F, R)


# ---- exact contributions: covariance of the mass matrices + invariance of the formulas -------------------------------
FLIPPED_FIELDS = ("Mu", "MassB", "MassWB", "MassG", "TYu", "TYd", "TYe", "Au", "Ad", "Ae")


def _flip_params(p):
    """polynomial with every sign-flipped Lagrangian parameter negated"""
    from .poly import Poly
    mapping = {}
    for a in p.atoms():
        b = a
        while isinstance(b, tuple) and b and b[0] == "elem":
            b = b[1]
        if isinstance(b, tuple) and b and b[0] == "field" and b[2] in FLIPPED_FIELDS:
            mapping[a] = -Poly.atom(a)
    return p.subs(mapping) if mapping else p


def _covariance(F, R):
    from fractions import Fraction
    from .poly import Poly, Rat, to_rat, NotPolynomial
    from .eigenalg import CAlg, IMAG, Undecided
    from .rules_c03 import _fold, _is_complex_factory, LOOP as LOOP3
    from .rules_c04 import code_value, as_entries, CLS as CLS4
    from .rules_c20 import _reduce_roots

    def zero(p):
        if p.is_zero():
            return True
        for _ in range(6):
            p = _reduce_roots(p)
            if p.is_zero():
                return True
        return p.is_zero()

    def same(a, b):
        """a == b as rational functions; the common case of an untouched denominator is decided on the numerators alone"""
        if a.d == b.d:
            return zero(a.n - b.n)
        return zero(a.n * b.d - b.n * a.d)

    # -- P2: the mass matrices transform covariantly under the flip -----------------------------------------------------
    R.rule("P2", "under the joint sign flip the mass matrices transform covariantly: M_chi0 -> (iS) M_chi0 (iS), S = diag(1,1,-1,-1); "
                 "X_cha -> (i s) X (i s), s = diag(1,-1); M^2_smuon -> t M^2 t, t = diag(1,-1); m^2_sneutrino invariant "
                 "(entry-wise polynomial identities of the code's mass-matrix functions); likewise stop, sbottom, stau", 7)
    E4 = Evaluator(F, inline=lambda n, g: True, max_depth=8)
    SECT = {"Chi": ([1, 1, -1, -1], -1), "Cha": ([1, -1], -1), "Sm": ([1, -1], 1), "SvmL": ([1], 1),
            "St": ([1, -1], 1), "Sb": ([1, -1], 1), "Stau": ([1, -1], 1)}
    for nm, (sg, overall) in SECT.items():
        try:
            f, v = code_value(F, E4, "get_mass_matrix_" + nm)
            ents, (nr, nc) = as_entries(v)
            bad = None
            for (i, k), t in sorted(ents.items()):
                r = to_rat(t)
                flipped = Rat(_flip_params(r.n), _flip_params(r.d))
                want = Rat(r.n.scale(overall * sg[i] * sg[k]), r.d)
                if not zero(flipped.n * want.d - want.n * flipped.d):
                    bad = "entry (%d,%d): %s" % (i, k, show(t)[:80])
                    break
            R.check("P2", bad is None, "mass matrix %s" % nm, F.loc(f),
                    "the %s mass matrix does not transform covariantly under (mu, M_i, A_f) -> -(mu, M_i, A_f): %s; the flipped point "
                    "has a different spectrum" % (nm, bad), key="P2|" + nm)
        except (NotPolynomial, AnalysisBroken) as ex:
            R.soft_broken("P2 %s: %s" % (nm, str(ex)[:120]))

    # -- P5: the sign-carrying parameters are inputs only ---------------------------------------------------------------------
    R.rule("P5", "no spectrum routine (calculate_M*, calculate_DRbar_masses, reorder_*) writes a sign-carrying Lagrangian parameter "
                 "(mu, M1, M2, M3, A_f, T_f): a mass calculation that stores e.g. |M3| back would make the second evaluation on the "
                 "same object see another sign than the first", 30)
    from .rules_c16 import FieldFlow
    FW5 = FieldFlow(F)
    for k5, f5 in sorted(F.functions.items()):
        if not re.match(r"^gm2calc::MSSMNoFV_onshell_mass_eigenstates::(calculate_\w+|reorder_\w+|solve_ewsb\w*)$", f5["name"]):
            continue
        w5 = {x.split("::")[-1] for x in FW5.direct_writes(f5["body"])}
        bad5 = sorted(w5 & set(FLIPPED_FIELDS))
        R.check("P5", not bad5, "%s writes no sign-carrying parameter" % f5["name"].split("::")[-1], F.loc(f5),
                "%s overwrites %s: the Lagrangian parameter changes as a side effect of computing the spectrum (history dependence; "
                "the flipped point is no longer the flipped point on the second evaluation)" % (f5["name"].split("::")[-1], ", ".join(bad5)),
                key="P5|" + f5["name"].split("::")[-1])

    # -- P3 / P4: the formulas ----------------------------------------------------------------------------------------------------
    R.rule("P3", "exact one-loop, photonic two-loop and 2L(a) contributions are invariant under the substitution the covariance induces on the "
                 "decomposition outputs (ZN -> ZN iS, UM -> UM is, UP -> UP is, ZM, ZT, ZB, ZTau -> Z t; explicit mu, A_f negated; masses and the resummed Yukawa couplings unchanged)", 6)
    R.rule("P4", "... and do not depend on the row phases the decomposition contracts leave open (ZN -> diag(+-1) ZN, ZM -> diag(+-1) ZM, "
                 "UM -> Phi UM together with UP -> Phi^* UP): the result is a function of the model, not of the eigen-solver's conventions", 6)
    only = lambda rn: rn.startswith("gm2calc::MSSMNoFV")
    LOOP6 = re.compile(r"^gm2calc::(F1C|F2C|F1N|F2N|F3C|F4C|F3N|F4N|f_PS|f_S|f_sferm)$")
    I = Poly.atom(IMAG)

    def mix_atoms0(p):
        out = {}
        for a in p.atoms():
            conj = False
            b = a
            if isinstance(b, tuple) and b and b[0] == "cbar":
                conj, b = True, b[1]
            if isinstance(b, tuple) and b and b[0] == "cplx":
                b = b[1]
            if isinstance(b, tuple) and b and b[0] == "elem" and b[1][0] == "field" and b[1][2] in ("ZN", "UM", "UP", "ZM", "ZT", "ZB", "ZTau") \
                    and all(x[0] == "num" for x in b[2:]):
                out[a] = (b[1][2], tuple(int(x[1]) for x in b[2:]), conj)
        return out

    def substitute(r, fn, mix_atoms=None):
        mix_atoms = mix_atoms or mix_atoms0
        atoms = {}
        atoms.update(mix_atoms(r.n))
        atoms.update(mix_atoms(r.d))
        mp = {}
        for a, (mat, idx, conj) in atoms.items():
            k = fn(mat, idx, conj)
            if k is not None:
                mp[a] = Poly.atom(a) * k
        return Rat(scale_atoms(r.n, mp), scale_atoms(r.d, mp)) if mp else r

    def scale_atoms(p, mp):
        """p with every atom a replaced by a * k(a), k a single-term polynomial (sign, power of i, phase atom): done
        monomial by monomial"""
        from .poly import _mulmono
        fac = {}
        for a, q in mp.items():
            (m1, c1), = q.t.items()
            fac[a] = (m1, c1)
        out = {}
        for m, c in p.t.items():
            mono, coef = (), c
            for a, e in m:
                if a in fac:
                    m1, c1 = fac[a]
                    for _ in range(e):
                        mono, k = _mulmono(mono, m1)
                        coef = coef * c1 * k
                else:
                    mono, k = _mulmono(mono, ((a, e),))
                    coef = coef * k
            if coef != 0:
                v = out.get(mono, 0) + coef
                if v == 0:
                    out.pop(mono, None)
                else:
                    out[mono] = v
        return Poly(out)

    def induced(mat, idx, conj):
        s4, s2 = [1, 1, -1, -1], [1, -1]
        if mat == "ZN":
            return I.scale(-s4[idx[1]] if conj else s4[idx[1]])
        if mat in ("UM", "UP"):
            return I.scale(-s2[idx[1]] if conj else s2[idx[1]])
        if mat in ("ZM", "ZT", "ZB", "ZTau"):
            return Poly.const(s2[idx[1]])
        return None

    def cancel_pairs(p, a, b):
        """phi * phibar = 1"""
        out = Poly()
        for m, c in p.t.items():
            d = dict(m)
            k = min(d.get(a, 0), d.get(b, 0))
            if k:
                d[a] -= k
                d[b] -= k
            mono = tuple(sorted(((x, e) for x, e in d.items() if e), key=lambda y: repr(y[0])))
            out = out + Poly({mono: c})
        return out

    for nm in MIXING_FUNCS:
        try:
            f, s, ft = _fold(F, "gm2calc::" + nm, ("sym", "model"), only, loop=LOOP6)
            alg = CAlg(_is_complex_factory(ft))
            r = alg.rat(s)
        except (NotPolynomial, Undecided, AnalysisBroken) as ex:
            R.soft_broken("P3 %s: %s" % (nm, str(ex)[:140]))
            continue
        # intern the atoms (deeply nested tuples with Fractions hash slowly): ('a', n) stands for the n-th atom
        table, meta, fl = {}, {}, set()
        mix_atoms = mix_atoms0
        for a in sorted(r.n.atoms() | r.d.atoms(), key=repr):
            if isinstance(a, tuple) and a and a[0] == "sqrtQ":
                continue
            table[a] = ("a", len(table))
        meta.update({table[a]: v for a, v in mix_atoms(r.n).items()})
        meta.update({table[a]: v for a, v in mix_atoms(r.d).items()})
        for a, ia in table.items():
            b = a
            while isinstance(b, tuple) and b and b[0] in ("elem", "cplx", "cbar"):
                b = b[1]
            if isinstance(b, tuple) and b and b[0] == "field" and b[2] in FLIPPED_FIELDS:
                fl.add(ia)

        def interned(p):
            out = {}
            for m, c in p.t.items():
                mono = tuple(sorted(((table.get(a, a), e) for a, e in m), key=lambda y: repr(y[0])))
                out[mono] = out.get(mono, 0) + c
            return Poly({m: c for m, c in out.items() if c != 0})
        r = Rat(interned(r.n), interned(r.d))
        mix_atoms = lambda p, meta=meta: {a: meta[a] for a in p.atoms() if a in meta}
        flip = lambda p, fl=fl: scale_atoms(p, {a: -Poly.atom(a) for a in p.atoms() if a in fl})
        used = sorted({v[0] for v in list(mix_atoms(r.n).values()) + list(mix_atoms(r.d).values())})
        r2 = substitute(Rat(flip(r.n), flip(r.d)), induced, mix_atoms)      # explicit parameters flip as well
        ok = same(r2, r)
        R.check("P3", ok, "%s (reads %s)" % (nm, ", ".join(used)), F.loc(f),
                "%s changes under ZN -> ZN iS, UM/UP -> UM/UP is, ZM -> ZM t, i.e. under the joint sign flip of (mu, M1, M2, A_mu): a sign or "
                "a complex conjugation is inconsistent between the couplings" % nm, key="P3|" + nm)
        # residual freedom of the contracts
        bad = None
        for mat, rows in (("ZN", 4), ("ZM", 2), ("ZT", 2), ("ZB", 2), ("ZTau", 2)):
            if mat not in used:
                continue
            for i in range(rows):
                r3 = substitute(r, lambda m_, idx, cj, mat=mat, i=i: Poly.const(-1) if (m_ == mat and idx[0] == i) else None, mix_atoms)
                if not same(r3, r):
                    bad = "the sign of row %d of %s" % (i, mat)
                    break
            if bad:
                break
        if bad is None:
            for k in range(2):
                ph, phb = ("sym", "phi%d" % k), ("sym", "phibar%d" % k)

                def phase(m_, idx, cj, k=k, ph=ph, phb=phb):
                    if idx[0] != k or m_ not in ("UM", "UP"):
                        return None
                    fwd = (m_ == "UM") != cj          # UM -> phi UM, conj(UM) -> phibar conj(UM); UP -> phibar UP, conj(UP) -> phi conj(UP)
                    return Poly.atom(ph if fwd else phb)
                r3 = substitute(r, phase, mix_atoms)
                res = cancel_pairs(r3.n - r.n, ph, phb) if r3.d == r.d else cancel_pairs(r3.n * r.d - r.n * r3.d, ph, phb)
                if not zero(res):
                    bad = "the phase of row %d of (UM, UP)" % k
                    break
        R.check("P4", bad is None, "%s: independent of the row phases of %s" % (nm, ", ".join(used)), F.loc(f),
                "%s depends on %s, which the decomposition contract leaves arbitrary: the result changes with the eigen-solver's "
                "conventions" % (nm, bad), key="P4|" + nm)
