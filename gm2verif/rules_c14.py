"""C14 -- the command-line program is total and memory-safe on arbitrary input
(structural clauses A..I of DESIGN.md section 3)."""
import re

from .facts import walk, kids, strip_all, strip, call_args, call_object, is_call, CALL_KINDS, in_macro
from .structure import Struct, always_exits
from .throwmodel import ThrowModel, _unq, INT_TYPES
from .extract import AnalysisBroken

PID = "C14"
LEVEL = "other"

# D: functions of the program that may reference std::cout (reviewed; one reason each)
COUT_ALLOWED = {
    "(anonymous namespace)::print_usage": "--help output requested by the user",
    "(anonymous namespace)::get_cmd_line_options": "--version output requested by the user",
    "(anonymous namespace)::print_error": "SLHA output formats carry the error text in SPINFO on stdout",
    "(anonymous namespace)::Minimal_writer::operator()": "physics output (minimal)",
    "(anonymous namespace)::Detailed_writer::operator()": "physics output (detailed)",
    "(anonymous namespace)::SLHA_writer::operator()": "physics output (SLHA)",
}
STDOUT_FUNCS = ("printf", "puts", "putchar", "std::printf", "std::puts", "fputs", "fprintf", "fwrite", "write")


def same_expr(a, b):
    """structural equality of two expression trees (wrappers peeled)"""
    a, b = strip_all(a), strip_all(b)
    if a is None or b is None:
        return a is b
    if a.get("k") != b.get("k"):
        return False
    for key in ("op", "fn", "n", "v", "id", "sn"):
        if a.get(key) != b.get(key):
            return False
    ka, kb = list(kids(a)), list(kids(b))
    if len(ka) != len(kb):
        return False
    return all(same_expr(x, y) for x, y in zip(ka, kb))


def disjuncts(c):
    c = strip_all(c)
    if c.get("k") == "BinaryOperator" and c.get("op") == "||":
        return disjuncts(c["c"][0]) + disjuncts(c["c"][1])
    return [c]


def conjuncts(c):
    c = strip_all(c)
    if c.get("k") == "BinaryOperator" and c.get("op") == "&&":
        return conjuncts(c["c"][0]) + conjuncts(c["c"][1])
    return [c]


def is_dead(S, n):
    """n sits under a branch whose condition folds to a constant that excludes it"""
    for g in S.guards(n):
        if g[0] == "switch":
            continue
        cond, pol = g
        iv = cond.get("iv", strip_all(cond).get("iv"))
        if iv is None and strip_all(cond).get("k") == "CXXBoolLiteralExpr":
            iv = "1" if strip_all(cond).get("v") else "0"
        if iv is not None and (iv != "0") != pol:
            return True
    return False


class ValSet:
    """finite integer value sets of exit-status expressions"""

    def __init__(self, F):
        self.F = F
        self.busy = set()

    def of(self, f, e):
        e = strip_all(e)
        k = e.get("k")
        if "iv" in e:
            return {int(e["iv"])}
        if k == "IntegerLiteral":
            return {int(e["v"])}
        if k == "ConditionalOperator":
            a, b = self.of(f, e["then"]), self.of(f, e["else"])
            return None if a is None or b is None else a | b
        if k == "DeclRefExpr" and e.get("rk") in ("Var",):
            vid = e["id"]
            out = set()
            found = False
            for n in walk(f["body"]):
                if n.get("k") == "DeclStmt":
                    for d in n["decls"]:
                        if d.get("id") == vid and d.get("init") is not None:
                            found = True
                            r = self.of(f, d["init"])
                            if r is None:
                                return None
                            out |= r
                elif n.get("k") == "BinaryOperator" and n.get("op") == "=" and strip_all(n["c"][0]).get("id") == vid:
                    found = True
                    r = self.of(f, n["c"][1])
                    if r is None:
                        return None
                    out |= r
                elif n.get("k") in ("CompoundAssignOperator",) and strip_all(n["c"][0]).get("id") == vid:
                    return None
                elif n.get("k") == "UnaryOperator" and n.get("op") in ("++", "--", "&") and \
                        strip_all(n["c"][0]).get("id") == vid:
                    return None
            return out if found else None
        if is_call(e) and e.get("mg") in self.F.functions:
            g = self.F.functions[e["mg"]]
            if e["mg"] in self.busy:
                return set()
            self.busy.add(e["mg"])
            out = set()
            for n in walk(g["body"]):
                if n.get("k") == "ReturnStmt" and n.get("c"):
                    r = self.of(g, n["c"][0])
                    if r is None:
                        self.busy.discard(e["mg"])
                        return None
                    out |= r
            self.busy.discard(e["mg"])
            return out
        return None


def run(F, R, tier, M=None):
    M = M or ThrowModel(F)
    R.explanation = (
        "Structural totality/memory-safety clauses of the program, decided on the type-checked AST of the "
        "program and library: (A) only gm2calc::Error subclasses can reach main's handler and nothing can "
        "escape main or a noexcept function (may-throw fixed point); (B) every exit status is 0 or 1 (value-set "
        "of return/exit operands); (C) every failure exit is preceded by a diagnostic on the same path; "
        "(D) stdout is referenced only by the writers/usage/version/SPINFO code, log macros go to std::cerr; "
        "(E) every float->int conversion is dominated by a two-sided range test; (F) integers parsed from "
        "input are range-tested before arithmetic/indexing; (G) constant indices lie within fixed Eigen "
        "dimensions; (H) every loop follows a bounded idiom and there is no recursion; (I) raw new/delete only "
        "in the C constructors/free functions.")
    R.assumptions = ["A1 allocation failure out of scope", "A2 external callees behave as classified",
                     "A3 NDEBUG build", "third-party code (Eigen, boost, libstdc++) is memory-safe for in-contract calls"]
    R.undecided = ["undefined behaviour inside Eigen/boost/libstdc++", "uninitialised reads in general",
                   "leaks beyond 'no raw allocation'", "wall-clock bound (decided: every loop is in a bounded idiom)"]

    mains = [f for f in F.functions.values() if f.get("main")]
    if len(mains) != 1:
        R.broken("main not found")
    main = mains[0]
    mkey = main["mg"] or main["name"]
    prog = F.closure([mkey])
    # std::function targets are reached through type-based resolution
    grew = True
    while grew:
        grew = False
        for k in list(prog):
            for c in F.calls.get(k, ()):
                fn = c.get("fn") or ""
                if re.match(r"^std::function<.*>::operator\(\)$", fn) and c.get("k") == "CXXOperatorCallExpr":
                    ft = _unq(c["c"][1].get("t"))
                    for t in M.fn_targets.get(ft, ()):
                        if t not in prog:
                            prog |= F.closure([t])
                            grew = True
            for n in walk(F.functions[k]["body"]):
                # functor objects converted to std::function
                t = _unq(n.get("t"))
                if t in M.op_call:
                    for tg in M.op_call[t]:
                        if tg not in prog:
                            prog |= F.closure([tg])
                            grew = True
    R.analysed["program_call_closure_functions"] = len(prog)
    R.analysed["functions_in_fact_base"] = len(F.functions)

    # ---- A exceptions ------------------------------------------------------
    R.rule("A1", "every exception type that may leave main's try body is caught by one of its handlers "
                 "(only gm2calc::Error subclasses reach it)", 3)
    tries = [n for n in walk(main["body"]) if n.get("k") == "CXXTryStmt"]
    if len(tries) != 1:
        R.broken("main: expected exactly one try block, found %d" % len(tries))
    tr = tries[0]
    inner = M.thrown(main, tr["c"][0], None)
    for t, w in sorted(inner.items()):
        if t.startswith("UNKNOWN:"):
            R.broken("A1: unclassified external callee reachable from main: %s" % t)
        caught = any(M.catches(h.get("ct"), t) for h in tr["c"][1:])
        chain = M.witness(w[1], t) if w[0] == "call" else ["%s @ line %s" % (w[1], w[2])]
        R.check("A1", caught, t, F.loc(main, tr),
                "%s can leave the try body of main uncaught: %s" % (t, " -> ".join(chain)),
                key="A1|" + t, facts=dict(witness=chain))
    R.rule("A2", "nothing can escape main (code outside the try, the handler) or reach a noexcept boundary", 2)
    mt = M.mt[mkey]
    R.check("A2", not mt, "main", F.loc(main),
            "may escape main: " + "; ".join("%s via %s" % (t, " -> ".join(M.witness(mkey, t))) for t in sorted(mt)),
            key="A2|main|" + ",".join(sorted(mt)))
    nx = [k for k, f in F.functions.items() if f.get("nx")]
    # a helper whose every call was inlined into its callers (fact normalisation) is judged there
    bad = [k for k in nx if k in M.terminates and k not in F.superseded]
    for k in bad:
        f = F.functions[k]
        t = sorted(M.terminates[k])[0]
        R.fail("A2", f["name"] + " noexcept", F.loc(f), "%s reaches the noexcept boundary" % t,
               key="A2|nx|%s|%s" % (f["name"], t))
    R.ok("A2", "noexcept definitions without a reaching exception", detail=len(nx) - len(bad))

    # ---- B exit status ----------------------------------------------------------
    R.rule("B", "every return of main and every exit() operand evaluates to 0 or 1", 4)
    VS = ValSet(F)
    for n in walk(main["body"]):
        if n.get("k") == "ReturnStmt":
            vs = VS.of(main, n["c"][0])
            if vs is None:
                R.broken("B: cannot bound the value of `return` in main at line %s" % n.get("l"))
            R.check("B", vs <= {0, 1}, "main return @%s = %s" % (n.get("l"), sorted(vs)), F.loc(main, n),
                    "exit status outside {0,1}: %s" % sorted(vs), key="B|main|return")
    for k in sorted(prog):
        f = F.functions[k]
        for c in F.calls[k]:
            if c.get("fn") in ("exit", "std::exit", "_Exit", "quick_exit"):
                vs = VS.of(f, call_args(c)[0])
                if vs is None:
                    R.broken("B: cannot bound exit() operand in %s" % f["name"])
                R.check("B", vs <= {0, 1}, "%s exit(%s)" % (f["name"], sorted(vs)), F.loc(f, c),
                        "exit status outside {0,1}", key="B|%s|exit" % f["name"])
            if c.get("fn") in ("abort", "std::abort", "std::terminate", "raise", "kill"):
                R.fail("B", "%s %s()" % (f["name"], c.get("fn")), F.loc(f, c), "terminates by signal",
                       key="B|%s|%s" % (f["name"], c.get("fn")))

    # ---- C diagnostics -------------------------------------------------------------
    R.rule("C", "every failure exit (status 1) is preceded on its path by a diagnostic (ERROR / print_error / "
                "std::cerr <<) whose guard is implied by the failure condition", 4)
    _check_diagnostics(F, R, VS, main, prog)

    # ---- D stdout -----------------------------------------------------------------------
    R.rule("D", "std::cout / stdio output is referenced only by the writers, usage/version and the SPINFO error "
                "arm; the library never references it; log macros expand to std::cerr", 7)
    for k, f in sorted(F.functions.items()):
        for n in walk(f["body"]):
            hit = None
            if n.get("k") == "DeclRefExpr" and n.get("n") in ("std::cout", "std::wcout"):
                hit = n["n"]
            elif is_call(n) and n.get("fn") in STDOUT_FUNCS:
                hit = n["fn"]
            elif n.get("k") == "DeclRefExpr" and n.get("n") == "stdout":
                hit = "stdout"
            if hit is None:
                continue
            base = re.sub(r"<[^()]*>(?=::operator\(\)$)", "", f["name"])
            if any(in_macro(n, mm) for mm in ("ERROR", "WARNING", "VERBOSE")):
                R.fail("D", "%s macro %s" % (f["name"], n["m"]), F.loc(f, n), "log macro writes to stdout",
                       key="D|macro|%s" % n["m"])
            elif f["file"] != "src/gm2calc.cpp":
                R.fail("D", f["name"], F.loc(f, n), "library code references %s" % hit, key="D|lib|%s" % f["name"])
            elif base in COUT_ALLOWED:
                R.ok("D", "%s: %s" % (base, COUT_ALLOWED[base]), F.loc(f, n))
            else:
                R.fail("D", f["name"], F.loc(f, n), "%s referenced outside the output writers" % hit,
                       key="D|prog|%s" % base)
    nmac = 0
    for k, f in F.functions.items():
        for n in walk(f["body"]):
            if n.get("k") == "DeclRefExpr" and any(in_macro(n, mm) for mm in ("ERROR", "WARNING", "VERBOSE")) and \
                    n.get("rk") == "Global" and n.get("n", "").startswith("std::c") and not n.get("ma"):
                nmac += 1
                if n["n"] != "std::cerr":
                    R.fail("D", "macro %s" % n["m"], F.loc(f, n), "log macro targets %s" % n["n"],
                           key="D|macro|%s" % n["m"])
    R.check("D", nmac >= 50, "log macro expansions targeting std::cerr", "", "log macro expansions not found",
            detail=nmac)

    # ---- E float -> int --------------------------------------------------------------------
    R.rule("E", "every floating->integral conversion in live code is dominated by a two-sided range test of the "
                "same operand against bounds representable in the target", 3)
    for k, f in sorted(F.functions.items()):
        S = None
        for n in walk(f["body"]):
            if n.get("ck") != "FloatingToIntegral":
                continue
            S = S or Struct(f)
            if is_dead(S, n):
                continue
            _check_f2i(F, R, f, S, n)

    # ---- E2 integral narrowing of parsed values ----------------------------------------------------
    R.rule("E2", "input-processing code (gm2_slha_io, gm2calc.cpp): every live conversion of a 64-bit integer to a narrower "
                 "integer type is dominated by a two-sided range test of the same operand (a parsed key such as 2^32 + 3 "
                 "must be rejected, not aliased to key 3)", 0)
    n_narrow, n_dead = narrowing_check(F, R, "E2")
    R.analysed["integral_narrowings"] = dict(found=n_narrow, in_dead_template_branches=n_dead)
    # positive control: while convert_to<> dispatches on the type with an if-chain, its dead branches contain narrowing
    # conversions that must be seen (and skipped); an overload set has no dead branches
    _chain = any(x.get("k") == "DeclRefExpr" and re.search(r"is_same|integral_constant<bool", str(x.get("n") or ""))
                 for g_ in F.by_name.get("gm2calc::GM2_slha_io::convert_to", []) for x in walk(g_["body"]))
    if n_narrow < 2 and _chain:
        R.soft_broken("E2: the narrowing sites of convert_to<> (dead template branches) were not seen: extraction incomplete")

    # ---- F parsed indices ----------------------------------------------------------------------
    R.rule("F", "integers parsed from input are not used in arithmetic before a range test, and index an Eigen "
                "object only under 1 <= v <= rows/cols", 3)
    _check_parsed_indices(F, R)

    # ---- G constant indices ------------------------------------------------------------------------
    R.rule("G", "constant (or constant-bounded loop) indices of fixed-size Eigen objects lie within the "
                "compile-time dimensions", 300)
    _check_const_indices(F, R)

    # ---- H loops --------------------------------------------------------------------------------------
    R.rule("H", "every loop follows a bounded idiom (counted for, range-for, capped while, while(n--), iterator "
                "advance to end, getline, find-scanner, do-while(0)); no recursion; root finders get an iteration cap",
           60)
    _check_loops(F, R)

    # ---- J member initialisation -------------------------------------------------------------------------------
    R.rule("J", "every data member of arithmetic, enumeration or fixed-size Eigen type in a repository class has a default member "
                "initialiser or is initialised by every constructor (Eigen does not zero fixed-size objects): a freshly constructed "
                "model, problem list or parameter struct never exposes indeterminate values", 150)
    ctor_inits = {}
    for k, f in F.functions.items():
        m_ = f.get("method") or {}
        if m_.get("ctor"):
            cls = m_.get("clsT") or m_.get("cls")
            ctor_inits.setdefault(cls, []).append({(i.get("member") or "").split("::")[-1] for i in f.get("inits", ()) if i.get("written", True)})
    enum_names = {e["name"] for e in F.enums.values()}
    seen_rec = set()
    for rn, r in sorted(F.records.items()):
        if not rn.startswith("gm2calc::") or not (r["file"].startswith("include/") or r["file"].startswith("src/")):
            continue
        if r["file"].endswith("slhaea.h") or (r["name"], r["file"], r["line"]) in seen_rec:
            continue
        seen_rec.add((r["name"], r["file"], r["line"]))
        for fl in r.get("fields", ()):
            t = _unq(fl.get("t"))
            plain = re.match(r"^(double|float|long double|int|bool|unsigned|unsigned int|long|unsigned long|short|char|std::size_t|size_t)$", t)
            if not (plain or t.startswith("Eigen::Matrix<") or t.startswith("Eigen::Array<") or t in enum_names or
                    t.startswith("std::complex<")):
                continue
            ok = "init" in fl
            if not ok:
                cs = ctor_inits.get(r.get("t") or rn) or ctor_inits.get(rn) or []
                ok = bool(cs) and all(fl["name"] in c for c in cs)
            R.check("J", ok, "%s::%s : %s" % (rn.split("::")[-1], fl["name"], t[:40]), "%s:%s" % (r["file"], r["line"]),
                    "data member %s of %s has no default member initialiser and is not set by every constructor: its value is "
                    "indeterminate on a fresh object (undefined behaviour when read, non-deterministic output)" % (fl["name"], rn),
                    key="J|%s|%s" % (rn, fl["name"]))

    # ---- L constant subscripts of SLHA lines --------------------------------------------------------------------------
    R.guard(_line_subscripts, F, R)

    # ---- K definite assignment of entry-wise built Eigen locals ----------------------------------------------------
    R.guard(_eigen_locals, F, R)

    # ---- I allocation -------------------------------------------------------------------------------------
    R.rule("I", "raw new only in the C constructors, delete only in the C free functions", 5)
    for k, f in sorted(F.functions.items()):
        if k in F.superseded:
            continue        # a file-local helper used only by C entry points: judged where it is inlined
        for n in walk(f["body"]):
            if n.get("k") == "CXXNewExpr":
                ok = f.get("externC") and re.search(r"_new(_with_\w+)?$", f["name"]) and not n.get("array")
                R.check("I", bool(ok), "%s new" % f["name"], F.loc(f, n), "raw new outside a C constructor",
                        key="I|new|%s" % f["name"])
            elif n.get("k") == "CXXDeleteExpr":
                ok = f.get("externC") and f["name"].endswith("_free")
                R.check("I", bool(ok), "%s delete" % f["name"], F.loc(f, n), "raw delete outside a C free function",
                        key="I|delete|%s" % f["name"])
            elif is_call(n) and n.get("fn") in ("malloc", "calloc", "realloc", "free", "std::malloc", "std::free",
                                                "strdup", "alloca"):
                R.fail("I", "%s %s" % (f["name"], n["fn"]), F.loc(f, n), "raw C allocation", key="I|%s|%s" % (f["name"], n["fn"]))


# ---------------------------------------------------------------------------
def _is_diag(n):
    if in_macro(n, "ERROR") and n.get("k") == "DoStmt":
        return True
    if is_call(n) and (n.get("fn") or "").endswith("print_error"):
        return True
    if n.get("k") == "DeclRefExpr" and n.get("n") == "std::cerr" and not in_macro(n, "VERBOSE"):
        return True
    return False


def _has_diag(root):
    return any(_is_diag(x) for x in walk(root))


def _has_uncond_diag(S, root):
    """a diagnostic inside `root` that runs whenever `root` runs (no further guard between them: a message printed
    only for some output formats does not cover the failure)"""
    if root is None:
        return False
    for x in walk(root):
        if not _is_diag(x):
            continue
        inner = [g for g in S.guards(x) if g[0] == "switch" and S.contains(root, g[1]) or
                 (g[0] != "switch" and S.contains(root, g[0]))]
        # the do { } while (0) of the ERROR macro and the like carry no condition of their own
        inner = [g for g in inner if not (g[0] != "switch" and strip_all(g[0]).get("iv") in ("0", "1"))]
        if not inner:
            return True
    return False


def _check_diagnostics(F, R, VS, main, prog):
    # failure sites: return/exit/assignment with value set containing a non-zero status, in main and
    # in the functions whose return value flows into main's exit status
    status_funcs = {main["mg"] or main["name"]}
    for n in walk(main["body"]):
        if n.get("k") == "BinaryOperator" and n.get("op") == "=":
            rhs = strip_all(n["c"][1])
            if is_call(rhs) and rhs.get("mg") in F.functions and _unq(rhs.get("t")) == "int":
                status_funcs.add(rhs["mg"])
    sites = []
    for k in sorted(prog):
        f = F.functions[k]
        S = None
        for n in walk(f["body"]):
            site = None
            if k in status_funcs and n.get("k") == "ReturnStmt" and n.get("c"):
                e = strip_all(n["c"][0])
                if e.get("k") == "DeclRefExpr" and e.get("rk") == "Var":
                    continue   # the variable's assignments are the sites
                vs = VS.of(f, n["c"][0])
                if vs and vs - {0}:
                    site = (n, n["c"][0])
            elif k in status_funcs and n.get("k") == "BinaryOperator" and n.get("op") == "=" and \
                    _unq(strip_all(n["c"][0]).get("t")) == "int" and strip_all(n["c"][0]).get("k") == "DeclRefExpr":
                rhs = strip_all(n["c"][1])
                if is_call(rhs):
                    continue   # forwarded status: the callee's sites are checked
                vs = VS.of(f, n["c"][1])
                if vs and vs - {0}:
                    site = (n, n["c"][1])
            elif is_call(n) and n.get("fn") in ("exit", "std::exit"):
                vs = VS.of(f, call_args(n)[0])
                if vs and vs - {0}:
                    site = (n, call_args(n)[0])
            if site:
                sites.append((f, site[0], site[1]))
    for f, n, val in sites:
        S = Struct(f)
        ok = False
        why = "no diagnostic statement dominates this failure exit"
        before = S.executed_before(n)
        # the statement containing n at each compound level
        for s in before:
            if s.get("k") == "IfStmt":
                continue
            if _has_uncond_diag(S, s):
                ok = True
        if not ok:
            v = strip_all(val)
            if v.get("k") == "ConditionalOperator":
                fc = v["cond"]
                for s in before:
                    if s.get("k") == "IfStmt" and _has_uncond_diag(S, s.get("then")):
                        if any(same_expr(d, fc) for d in disjuncts(s["cond"])):
                            ok = True
                if not ok:
                    why = "failure status depends on a condition that no earlier diagnostic branch covers"
        # handler case: print_error in the same handler body counts (before covers siblings)
        R.check("C", ok, "%s @%s" % (f["name"], n.get("l")), F.loc(f, n), why,
                key="C|%s|%s" % (f["name"], n.get("k")))


def _line_subscripts(F, R):
    """line[k] on an SLHAea::Line is an unchecked std::vector subscript: it needs line.size() > k on its path"""
    R.rule("L", "every constant subscript line[k] of an SLHA line (an unchecked vector access) is dominated by a test that the line has "
                "more than k fields (size() >= k+1 / size() > k, as an enclosing condition or an earlier conjunct of the same &&)", 9)
    for k_, f in sorted(F.functions.items()):
        if not (f["file"].startswith("src/gm2_slha_io") or f["file"] == "src/gm2calc.cpp"):
            continue
        S = None
        seen = set()
        for n in walk(f["body"]):
            if not (n.get("k") == "CXXOperatorCallExpr" and n.get("op") == "[]" and len(n.get("c", [])) == 3):
                continue
            obj, idx = strip_all(n["c"][1]), strip_all(n["c"][2])
            if obj is None or "SLHAea::Line" not in str(obj.get("t") or "") or idx is None:
                continue
            kv = idx.get("iv", idx.get("v"))
            if kv is None:
                continue
            kk = int(kv)
            if (n.get("l"), n.get("i")) in seen:
                continue
            seen.add((n.get("l"), n.get("i")))
            S = S or Struct(f)
            conds = [(c, pol) for c, pol in S.guards(n) if c != "switch"]
            # earlier conjuncts of an enclosing && (short-circuit evaluation)
            cur = n
            for a in S.ancestors(n):
                if a.get("k") == "BinaryOperator" and a.get("op") == "&&" and len(a.get("c", [])) == 2:
                    if any(y is cur for y in walk(a["c"][1])) or a["c"][1] is cur:
                        conds.append((a["c"][0], True))
                cur = a
            ok = False
            for c, pol in conds:
                if pol is not True:
                    continue
                for q in conjuncts(c):
                    q = strip_all(q)
                    if q is None or q.get("k") != "BinaryOperator" or q.get("op") not in (">", ">=", "<", "<="):
                        continue
                    l, r = strip_all(q["c"][0]), strip_all(q["c"][1])

                    def is_size(u):
                        return u is not None and is_call(u) and str(u.get("fn") or "").endswith("::size") and \
                            same_expr(call_object(u), obj)

                    def lit(u):
                        v_ = u.get("iv", u.get("v")) if u is not None else None
                        try:
                            return int(v_)
                        except (TypeError, ValueError):
                            return None
                    if is_size(l) and lit(r) is not None:
                        bound = lit(r) + (1 if q["op"] == ">" else 0) if q["op"] in (">", ">=") else None
                    elif is_size(r) and lit(l) is not None:
                        bound = lit(l) + (1 if q["op"] == "<" else 0) if q["op"] in ("<", "<=") else None
                    else:
                        bound = None
                    if bound is not None and bound >= kk + 1:
                        ok = True
            R.check("L", ok, "%s: line[%d] under size() >= %d" % (f["name"].split("::")[-1], kk, kk + 1), F.loc(f, n),
                    "line[%d] is read without a dominating test that the line has at least %d fields: a short line (e.g. a block header "
                    "ending in `Q=`) makes this an out-of-bounds read" % (kk, kk + 1),
                    key="L|%s|%d|%s" % (re.sub(r"<.*", "", f["name"].split("::")[-1]), kk, n.get("l")))


def _eigen_locals(F, R):
    """Eigen does not initialise fixed-size objects: a default-constructed local must have every entry assigned (entry by
    entry with folded indices, by a full comma initialiser, or by setZero/setConstant/fill/setIdentity) before it is used"""
    from .terms import Evaluator, MatVal
    R.rule("K", "every default-constructed fixed-size Eigen local (Eigen leaves it uninitialised) has all its entries assigned: "
                "entry-wise with folded indices (loops unrolled), by a full comma initialiser or by setZero/setConstant/fill", 25)
    # helpers that complete a matrix in place (symmetrize, hermitianize: mutable Eigen reference parameter) are evaluated
    E = Evaluator(F, inline=lambda n, g: any(p_.get("ref") and not p_.get("cref") and "Eigen::" in str(p_.get("t")) for p_ in g["params"])
                  and not g["file"].endswith("gm2_linalg.hpp"), max_depth=3)
    undecided = []
    done = set()
    for k, f in sorted(F.functions.items(), key=lambda x: (x[1]["file"], x[1]["line"])):
        if not (F.in_lib(f) or f["file"] == "src/gm2calc.cpp") or f["file"].endswith("slhaea.h") or f["file"].endswith("gm2_linalg.hpp"):
            continue
        locs = []
        for st in walk(f["body"]):
            if st.get("k") == "DeclStmt":
                for d in st.get("decls", ()):
                    t = str(d.get("t") or "")
                    ini = d.get("init")
                    if "id" in d and re.match(r"^(const )?Eigen::(Matrix|Array)<", t) and \
                            (ini is None or (ini.get("k") == "CXXConstructExpr" and not ini.get("c"))):
                        locs.append(d)
        if not locs or (f["name"], f["file"], f["line"]) in done:
            continue
        done.add((f["name"], f["file"], f["line"]))
        fr = None
        try:
            v, fr = E.function_value(f)
        except Exception:
            fr = None
        for d in locs:
            dims = _dims(d.get("t"))
            inst = "%s: %s (%s)" % (f["name"].split("::")[-1], d.get("name"), "x".join(str(x) for x in dims) if dims else "?")
            # idioms on the syntax tree
            whole = False
            for n in walk(f["body"]):
                if n.get("k") == "CXXMemberCallExpr":
                    o = call_object(n)
                    me = n["c"][0] if n.get("c") else {}
                    while me.get("k") in ("ImplicitCastExpr", "ParenExpr"):
                        me = me["c"][0]
                    if o is not None and strip_all(o) is not None and strip_all(o).get("id") == d["id"] and \
                            me.get("sn") in ("setZero", "setConstant", "fill", "setIdentity", "setOnes"):
                        whole = True
                if n.get("k") == "CXXOperatorCallExpr" and n.get("op") == "<<" and len(n.get("c", [])) >= 3:
                    l_ = strip_all(n["c"][1])
                    if l_ is not None and l_.get("k") == "DeclRefExpr" and l_.get("id") == d["id"]:
                        # count the operands of the comma initialiser: the enclosing chain of operator,
                        cnt, cur = 1, n
                        S_ = Struct(f)
                        par = S_.parent(cur)
                        while par is not None:
                            if par.get("k") == "CXXOperatorCallExpr" and par.get("op") == ",":
                                cnt += 1
                            elif par.get("k") not in ("ImplicitCastExpr", "ExprWithCleanups", "MaterializeTemporaryExpr", "CXXBindTemporaryExpr"):
                                break
                            cur, par = par, S_.parent(par)
                        if dims and cnt == dims[0] * dims[1]:
                            whole = True
            val = fr.env.get(d["id"]) if fr is not None else None
            if whole:
                R.ok("K", inst + ": whole-object initialisation", F.loc(f))
                continue
            if isinstance(val, MatVal) and dims:
                have = set(val.el)
                need = {(i, k_) for i in range(dims[0]) for k_ in range(dims[1])}
                miss = sorted(need - have)
                if have:
                    R.check("K", not miss, inst + ": %d entries assigned" % len(have), F.loc(f),
                            "entries %s of %s are never assigned: Eigen leaves them uninitialised (indeterminate values enter the "
                            "result)" % (miss[:4], d.get("name")), key="K|%s|%s" % (f["name"].split("::")[-1], d.get("name")))
                    continue
            undecided.append(inst)
    R.analysed["eigen_locals_not_decided"] = undecided


def narrowing_check(F, R, rid):
    """shared by C14-E2 and C13-K7: live 64-bit -> narrower integral conversions in the input-processing code"""
    WID = {"long": 8, "unsigned long": 8, "long long": 8, "unsigned long long": 8, "Eigen::Index": 8, "std::size_t": 8,
           "size_t": 8, "std::ptrdiff_t": 8, "ptrdiff_t": 8, "int": 4, "unsigned int": 4, "unsigned": 4, "short": 2,
           "unsigned short": 2, "char": 1, "unsigned char": 1, "signed char": 1}
    n_narrow = n_dead = 0
    for k, f in sorted(F.functions.items()):
        if not (f["file"].startswith("src/gm2_slha_io") or f["file"] == "src/gm2calc.cpp"):
            continue
        S = None
        seen_sites = set()
        for n in walk(f["body"]):
            if n.get("k") not in ("ImplicitCastExpr", "CXXStaticCastExpr", "CStyleCastExpr", "CXXFunctionalCastExpr") or not n.get("c"):
                continue
            if n.get("k") == "ImplicitCastExpr" and n.get("ck") != "IntegralCast":
                continue
            src = n["c"][-1]
            ws, wt = WID.get(_unq(src.get("t"))), WID.get(_unq(n.get("t")))
            if not ws or not wt or ws <= wt or n.get("iv") is not None or src.get("iv") is not None:
                continue
            if (f["file"], n.get("l"), n.get("i")) in seen_sites:
                continue
            seen_sites.add((f["file"], n.get("l"), n.get("i")))
            S = S or Struct(f)
            n_narrow += 1
            if is_dead(S, n):
                n_dead += 1
                continue
            operand = strip_all(src)
            lo_ok = hi_ok = False
            for g in S.guards(n):
                if g[0] == "switch" or g[1] is not True:
                    continue
                for c in conjuncts(g[0]):
                    if c.get("k") != "BinaryOperator" or c.get("op") not in ("<", "<=", ">", ">="):
                        continue
                    l, r = c["c"]
                    if same_expr(l, operand):
                        op = c["op"]
                    elif same_expr(r, operand):
                        op = {"<": ">", "<=": ">=", ">": "<", ">=": "<="}[c["op"]]
                    else:
                        continue
                    if op in (">", ">="):
                        lo_ok = True
                    else:
                        hi_ok = True
            R.check(rid, lo_ok and hi_ok, "%s: %s -> %s" % (f["name"].split("::")[-1], _unq(src.get("t")), _unq(n.get("t"))),
                    F.loc(f, n), "a 64-bit integer is narrowed to %s without a dominating two-sided range test: values outside the "
                    "target range wrap around instead of being rejected" % _unq(n.get("t")),
                    key=rid + "|%s|%s" % (f["name"].split("::")[-1], _unq(n.get("t"))))
    return n_narrow, n_dead


def _check_f2i(F, R, f, S, n):
    operand = n["c"][0]
    tgt = _unq(n.get("t"))
    inst = "%s -> %s" % (f["name"], tgt)
    lo_ok = hi_ok = False
    for g in S.guards(n):
        if g[0] == "switch" or g[1] is not True:
            continue
        for c in conjuncts(g[0]):
            if c.get("k") != "BinaryOperator" or c.get("op") not in ("<", "<=", ">", ">="):
                continue
            l, r = c["c"]
            if same_expr(l, operand):
                bound, op = r, c["op"]
            elif same_expr(r, operand):
                bound, op = l, {"<": ">", "<=": ">=", ">": "<", ">=": "<="}[c["op"]]
            else:
                continue
            if not _bound_fits(bound, tgt):
                continue
            if op in (">", ">="):
                lo_ok = True
            else:
                hi_ok = True
    R.check("E", lo_ok and hi_ok, inst, F.loc(f, n),
            "float->int conversion without a dominating two-sided range test of the operand "
            "(lower %s, upper %s)" % (lo_ok, hi_ok), key="E|%s|%s" % (f["name"], tgt))


def _bound_fits(b, tgt):
    """the bound expression is representable in the target integer type"""
    b0 = strip_all(b)
    t = _unq(b0.get("t"))
    order = ["bool", "char", "signed char", "unsigned char", "short", "unsigned short", "int", "unsigned int",
             "long", "unsigned long", "long long", "unsigned long long"]
    # numeric_limits<T>::min()/max() of a type no wider than the target
    if is_call(b0) and re.match(r"^std::numeric_limits<(.*)>::(min|max|lowest)$", b0.get("fn") or ""):
        lt = re.match(r"^std::numeric_limits<(.*)>::", b0["fn"]).group(1)
        return lt in order and tgt in order and _rank(lt) <= _rank(tgt)
    if "iv" in b0 or b0.get("k") == "IntegerLiteral":
        return True
    # an integer/enum-typed variable or parameter no wider than the target
    if t in order and tgt in order:
        return _rank(t) <= _rank(tgt)
    if t and tgt and t == tgt:
        return True
    # enum typed bounds for enum targets
    if b0.get("k") in ("DeclRefExpr",) and t == tgt:
        return True
    # bounds of enum type converted to the float compare: accept when target is int and bound enum/int
    inner = strip_all(b)
    if inner.get("k") == "ImplicitCastExpr":
        return _bound_fits(inner["c"][0], tgt)
    if t and not t.startswith("std::") and tgt in ("int", "long"):
        # enumeration typed bound (underlying type int/unsigned)
        return "::" in t
    return False


def _rank(t):
    return {"bool": 0, "char": 1, "signed char": 1, "unsigned char": 1, "short": 2, "unsigned short": 2,
            "int": 3, "unsigned int": 3, "long": 4, "unsigned long": 4, "long long": 4,
            "unsigned long long": 4}[t]


def _check_parsed_indices(F, R):
    found = 0
    for k, f in sorted(F.functions.items()):
        parsed = {}   # decl id -> decl
        for n in walk(f["body"]):
            if n.get("k") == "DeclStmt":
                for d in n["decls"]:
                    ini = d.get("init")
                    if ini is None or _unq(d.get("t")) not in INT_TYPES:
                        continue
                    calls = [x for x in walk(ini) if is_call(x) and (x.get("fn") or "").endswith("GM2_slha_io::convert_to")]
                    if calls:
                        parsed[d["id"]] = (d, ini, calls)
        if not parsed:
            continue
        S = Struct(f)
        for vid, (d, ini, calls) in parsed.items():
            found += 1
            bare = strip_all(ini) is calls[0] or (strip_all(ini).get("k") in ("CXXConstructExpr",) and False)
            R.check("F", strip_all(ini) is calls[0], "%s: %s initialised from the bare parsed value" % (f["name"], d["name"]),
                    F.loc(f, ini), "arithmetic on a parsed integer before any range test (signed overflow possible)",
                    key="F|%s|arith" % re.sub(r"<.*", "", f["name"]))
        # index uses
        for n in walk(f["body"]):
            if not (is_call(n) and re.search(r"Eigen::.*::operator(\(\)|\[\])$", n.get("fn") or "")):
                continue
            args = call_args(n) if n.get("k") != "CXXOperatorCallExpr" else n["c"][2:]
            obj = n["c"][1] if n.get("k") == "CXXOperatorCallExpr" else call_object(n)
            for pos, a in enumerate(args):
                refs = [x for x in walk(a) if x.get("k") == "DeclRefExpr" and x.get("id") in parsed]
                if not refs:
                    continue
                vid = refs[0]["id"]
                e = strip_all(a)
                off = 0
                if e.get("k") == "BinaryOperator" and e.get("op") == "-" and strip_all(e["c"][1]).get("k") == "IntegerLiteral":
                    off = int(strip_all(e["c"][1])["v"])
                    e = strip_all(e["c"][0])
                if not (e.get("k") == "DeclRefExpr" and e.get("id") == vid):
                    R.fail("F", "%s index expr" % f["name"], F.loc(f, n), "unrecognised index arithmetic on a parsed integer",
                           key="F|%s|shape" % re.sub(r"<.*", "", f["name"]))
                    continue
                lo = hi = False
                for g in S.guards(n):
                    if g[0] == "switch" or g[1] is not True:
                        continue
                    for c in conjuncts(g[0]):
                        if c.get("k") != "BinaryOperator":
                            continue
                        l, r = strip_all(c["c"][0]), strip_all(c["c"][1])
                        op = c.get("op")
                        # lower: LIT <= v  /  v >= LIT
                        if op == "<=" and l.get("k") == "IntegerLiteral" and r.get("id") == vid and int(l["v"]) - off >= 0:
                            lo = True
                        if op == ">=" and r.get("k") == "IntegerLiteral" and l.get("id") == vid and int(r["v"]) - off >= 0:
                            lo = True
                        if op == "<" and l.get("k") == "IntegerLiteral" and r.get("id") == vid and int(l["v"]) + 1 - off >= 0:
                            lo = True
                        # upper: v <= DIM (off >= 1) / v < DIM (off >= 0)
                        if op in ("<=", "<") and l.get("id") == vid and _is_dim_of(f, r, obj, pos, len(args)):
                            if (op == "<=" and off >= 1) or (op == "<" and off >= 0):
                                hi = True
                R.check("F", lo and hi, "%s index %d of %s" % (f["name"], pos, d["name"] if False else refs[0]["n"]),
                        F.loc(f, n), "Eigen element access indexed by a parsed integer without a dominating "
                        "range test (lower %s, upper %s)" % (lo, hi),
                        key="F|%s|index%d" % (re.sub(r"<.*", "", f["name"]), pos))
    if found == 0:
        R.broken("F: no integer parsed via convert_to found (anchor moved)")


def _is_dim_of(f, e, obj, pos, nargs):
    """e is a local initialised from obj.rows()/cols()/size() matching index position pos"""
    e = strip_all(e)
    if e.get("k") != "DeclRefExpr":
        return False
    for n in walk(f["body"]):
        if n.get("k") == "DeclStmt":
            for d in n["decls"]:
                if d.get("id") == e.get("id") and d.get("init") is not None and d.get("const"):
                    ini = strip_all(d["init"])
                    if is_call(ini) and re.search(r"::(rows|cols|size)$", ini.get("fn") or ""):
                        which = ini["fn"].rsplit("::", 1)[1]
                        o = call_object(ini)
                        if o is None or strip_all(o).get("id") != strip_all(obj).get("id"):
                            return False
                        if nargs == 1:
                            return which in ("rows", "size")
                        return (pos == 0 and which == "rows") or (pos == 1 and which == "cols")
    return False


def _dims(t):
    t = _unq(t) or ""
    m = re.match(r"^Eigen::(Matrix|Array)<(.*)>$", t)
    if not m:
        return None
    # split top-level commas
    parts, depth, cur = [], 0, ""
    for ch in m.group(2):
        if ch == "<":
            depth += 1
        elif ch == ">":
            depth -= 1
        if ch == "," and depth == 0:
            parts.append(cur.strip())
            cur = ""
        else:
            cur += ch
    parts.append(cur.strip())
    try:
        r, c = int(parts[1]), int(parts[2])
    except (ValueError, IndexError):
        return None
    if r < 0 or c < 0:
        return None
    return r, c


def _loop_range(S, f, ref):
    """(lo, hi) inclusive range of a canonical for-loop variable with constant bounds"""
    vid = ref.get("id")
    for a in S.ancestors(ref):
        if a.get("k") == "ForStmt" and a.get("init") is not None and a["init"].get("k") == "DeclStmt":
            for d in a["init"]["decls"]:
                if d.get("id") != vid or d.get("init") is None:
                    continue
                ini = strip_all(d["init"])
                lo = ini.get("iv", ini.get("v") if ini.get("k") == "IntegerLiteral" else None)
                cond = strip_all(a.get("cond")) if a.get("cond") else None
                inc = strip_all(a.get("inc")) if a.get("inc") else None
                if lo is None or cond is None or inc is None:
                    return None
                if not (inc.get("k") == "UnaryOperator" and inc.get("op") == "++" and strip_all(inc["c"][0]).get("id") == vid):
                    return None
                if cond.get("k") != "BinaryOperator" or cond.get("op") not in ("<", "<=") or \
                        strip_all(cond["c"][0]).get("id") != vid:
                    return None
                b = strip_all(cond["c"][1])
                hi = b.get("iv", b.get("v") if b.get("k") == "IntegerLiteral" else None)
                if hi is None:
                    return None
                # not assigned in the body
                for x in walk(a["body"]):
                    if x.get("k") in ("BinaryOperator", "CompoundAssignOperator") and x.get("op", "").endswith("=") \
                            and x.get("op") not in ("==", "<=", ">=", "!=") and strip_all(x["c"][0]).get("id") == vid:
                        return None
                    if x.get("k") == "UnaryOperator" and x.get("op") in ("++", "--") and strip_all(x["c"][0]).get("id") == vid:
                        return None
                return int(lo), int(hi) - (1 if cond["op"] == "<" else 0)
    return None


def _check_const_indices(F, R):
    runtime = 0
    for k, f in sorted(F.functions.items()):
        if f["file"].startswith("src/gm2_linalg.hpp"):
            continue
        S = None
        for n in walk(f["body"]):
            if not (is_call(n) and re.search(r"^Eigen::.*::operator(\(\)|\[\])$", n.get("fn") or "")):
                continue
            if n.get("k") == "CXXOperatorCallExpr":
                obj, args = n["c"][1], n["c"][2:]
            else:
                obj, args = call_object(n), call_args(n)
            dims = _dims(strip_all(obj).get("t")) if obj is not None else None
            if dims is None:
                continue
            S = S or Struct(f)
            if len(args) == 1:
                limits = [dims[0] * dims[1]] if 1 in dims else None
                if limits is None:
                    continue
            elif len(args) == 2:
                limits = [dims[0], dims[1]]
            else:
                continue
            for pos, a in enumerate(args):
                e = strip_all(a)
                rng = None
                if "iv" in a or "iv" in e:
                    v = int(a.get("iv", e.get("iv")))
                    rng = (v, v)
                elif e.get("k") == "IntegerLiteral":
                    rng = (int(e["v"]), int(e["v"]))
                elif e.get("k") == "DeclRefExpr" and e.get("rk") == "Var":
                    rng = _loop_range(S, f, e)
                if rng is None:
                    runtime += 1
                    continue
                ok = 0 <= rng[0] and rng[1] < limits[pos]
                if not ok and is_dead(S, n):
                    continue
                R.check("G", ok, "%s: index %d in [%d,%d] of %s" % (f["name"], pos, rng[0], rng[1], _unq(strip_all(obj).get("t"))),
                        F.loc(f, n), "constant index out of the fixed dimension %d" % limits[pos],
                        key="G|%s|%s|%d|%d" % (f["name"], _unq(strip_all(obj).get("t")), pos, rng[1]))
    R.analysed["eigen_accesses_with_runtime_index_not_judged"] = runtime


def core_ref(n):
    """peel wrappers and single-argument copy/conversion constructions down to the referenced entity"""
    while n is not None:
        n = strip_all(n)
        if n is not None and n.get("k") in ("CXXConstructExpr", "CXXFunctionalCastExpr", "CXXStaticCastExpr") \
                and len(n.get("c", [])) == 1:
            n = n["c"][0]
            continue
        return n


def _assigned_in(root, vid):
    out = []
    for x in walk(root):
        if x.get("k") in ("BinaryOperator", "CompoundAssignOperator") and x.get("op") in (
                "=", "+=", "-=", "*=", "/=") and strip_all(x["c"][0]).get("id") == vid and \
                strip_all(x["c"][0]).get("k") == "DeclRefExpr":
            out.append(x)
        elif x.get("k") == "UnaryOperator" and x.get("op") in ("++", "--") and \
                strip_all(x["c"][0]).get("id") == vid and strip_all(x["c"][0]).get("k") == "DeclRefExpr":
            out.append(x)
        elif x.get("k") == "CXXOperatorCallExpr" and x.get("op") in ("++", "--", "=", "+=") and \
                strip_all(x["c"][1]).get("id") == vid:
            out.append(x)
    return out


def _top_level_stmts(body):
    if body is None:
        return []
    if body.get("k") == "CompoundStmt":
        return body.get("c", [])
    return [body]


def _classify_loop(F, f, S, n):
    k = n["k"]
    if k == "CXXForRangeStmt":
        return "range-for"
    if k == "DoStmt":
        c = strip_all(n.get("cond"))
        if c is not None and (c.get("iv") == "0" or (c.get("k") == "IntegerLiteral" and c.get("v") == "0") or
                              (c.get("k") == "CXXBoolLiteralExpr" and not c.get("v"))):
            return "do-while(0)"
        return None
    cond = n.get("cond")
    body = n.get("body")
    if k == "ForStmt":
        if cond is None:
            return None
        c = strip_all(cond)
        inc = strip_all(n.get("inc")) if n.get("inc") else None
        if inc is None:
            return _erase_or_advance(c, body)
        # loop variable = variable modified by inc
        lv = None
        x = inc
        if x.get("k") == "BinaryOperator" and x.get("op") == ",":
            x = strip_all(x["c"][0])
        if x.get("k") in ("UnaryOperator", "CompoundAssignOperator") and x.get("op") in ("++", "--", "+=", "-="):
            lv = strip_all(x["c"][0])
        elif x.get("k") == "CXXOperatorCallExpr" and x.get("op") in ("++", "--"):
            lv = strip_all(x["c"][1])
        if lv is None and x.get("k") in ("CXXOperatorCallExpr", "BinaryOperator") and x.get("op") == "=":
            # it = container.find(++it, end, key): the iterator moves strictly forward to the next match or to end()
            ops_ = x["c"][1:] if x["k"] == "CXXOperatorCallExpr" else x["c"]
            tgt_, rhs_ = strip_all(ops_[0]), ops_[1]
            if tgt_ is not None and tgt_.get("k") == "DeclRefExpr" and not _assigned_in(body, tgt_["id"]):
                adv = any(y.get("k") in ("UnaryOperator", "CXXOperatorCallExpr") and y.get("op") == "++" and
                          any(z.get("k") == "DeclRefExpr" and z.get("id") == tgt_["id"] for z in walk(y)) for y in walk(rhs_))
                fnd = any(is_call(y) and re.search(r"::find$", str(y.get("fn") or "")) for y in walk(rhs_))
                if adv and fnd and c.get("k") in ("BinaryOperator", "CXXOperatorCallExpr") and c.get("op") == "!=":
                    cops = c["c"] if c["k"] == "BinaryOperator" else c["c"][1:]
                    l_, r_ = core_ref(cops[0]), core_ref(cops[1])
                    if l_.get("k") == "DeclRefExpr" and l_.get("id") == tgt_["id"] and is_call(r_) and \
                            re.search(r"::(c?end)$", r_.get("fn") or ""):
                        return "find-scanner (for)"
            return None
        if lv is None or lv.get("k") != "DeclRefExpr":
            return None
        vid = lv["id"]
        if _assigned_in(body, vid):
            return None
        cj = conjuncts(c)
        for q in cj:
            if q.get("k") in ("BinaryOperator", "CXXOperatorCallExpr") and q.get("op") in ("<", "<=", ">", ">=", "!="):
                ops = q["c"] if q["k"] == "BinaryOperator" else q["c"][1:]
                ids = [strip_all(o).get("id") for o in ops]
                if vid in ids:
                    other = ops[1 - ids.index(vid)]
                    # bound must not be assigned in the body
                    bad = False
                    for r in walk(other):
                        if r.get("k") == "DeclRefExpr" and r.get("rk") in ("Var", "Param") and _assigned_in(body, r["id"]):
                            bad = True
                    if not bad:
                        return "counted for"
        return None
    if k == "WhileStmt":
        c = strip_all(cond)
        # while (n--)
        if c.get("k") == "UnaryOperator" and c.get("op") == "--" and c.get("postfix"):
            v = strip_all(c["c"][0])
            for x in walk(f["body"]):
                if x.get("k") == "DeclStmt":
                    for d in x["decls"]:
                        if d.get("id") == v.get("id") and d.get("init") is not None:
                            i = strip_all(d["init"])
                            if is_call(i) and i.get("fn") in ("std::abs", "abs"):
                                if not _assigned_in(body, v["id"]):
                                    return "while(n--) on |.|"
            return None
        # getline
        for q in walk(cond):
            if is_call(q) and q.get("fn") in ("std::getline",):
                return "getline"
        # ++it != end()
        if c.get("k") in ("BinaryOperator", "CXXOperatorCallExpr") and c.get("op") == "!=":
            ops = c["c"] if c["k"] == "BinaryOperator" else c["c"][1:]
            l, r = core_ref(ops[0]), core_ref(ops[1])
            if (l.get("k") in ("UnaryOperator", "CXXOperatorCallExpr") and l.get("op") == "++") and \
                    is_call(r) and re.search(r"::(c?end)$", r.get("fn") or ""):
                return "iterator advance to end"
            # it != X.end() with unconditional ++it in the body
            if l.get("k") == "DeclRefExpr" and is_call(r) and re.search(r"::(c?end)$", r.get("fn") or ""):
                vid = l["id"]
                for s in _top_level_stmts(body):
                    s0 = strip_all(s)
                    if s0.get("k") in ("UnaryOperator", "CXXOperatorCallExpr") and s0.get("op") == "++":
                        tgt = strip_all(s0["c"][0] if s0["k"] == "UnaryOperator" else s0["c"][1])
                        if tgt.get("id") == vid:
                            # any later reassignment must be a find() starting from the advanced iterator
                            ok = True
                            for a in _assigned_in(body, vid):
                                if a is s0 or a is s:
                                    continue
                                rhs = strip_all(a["c"][-1])
                                if not (is_call(rhs) and re.search(r"::find$", rhs.get("fn") or "") and
                                        call_args(rhs) and core_ref(call_args(rhs)[0]).get("id") == vid):
                                    ok = False
                            if ok:
                                return "iterator advance to end"
                    if always_exits(s) or s.get("k") == "IfStmt" and any(
                            x.get("k") == "ContinueStmt" for x in walk(s)):
                        break
            # find-scanner: pos != npos, every in-loop definition of pos is S.find*(.., start)
            if l.get("k") == "DeclRefExpr" and (r.get("n") or "").endswith("::npos"):
                vid = l["id"]
                asg = _assigned_in(body, vid)
                if asg and all(a.get("op") == "=" and is_call(strip_all(a["c"][1])) and
                               re.search(r"basic_string<char>::find", strip_all(a["c"][1]).get("fn") or "")
                               for a in asg):
                    return "find-scanner"
        # iteration cap conjunct
        for q in conjuncts(c):
            if q.get("k") == "BinaryOperator" and q.get("op") in ("<", "<="):
                l, r = strip_all(q["c"][0]), strip_all(q["c"][1])
                if l.get("k") == "DeclRefExpr" and l.get("rk") == "Var":
                    vid = l["id"]
                    capvars = [x["id"] for x in walk(r) if x.get("k") == "DeclRefExpr" and x.get("rk") in ("Var", "Param")]
                    if any(_assigned_in(body, cv) for cv in capvars):
                        continue
                    # counter incremented by a top-level statement not preceded by `continue`
                    asg = _assigned_in(body, vid)
                    incs = [a for a in asg if a.get("op") in ("++", "+=")]
                    if len(asg) != len(incs) or not incs:
                        continue
                    tl = _top_level_stmts(body)
                    has_continue = any(x.get("k") == "ContinueStmt" for x in walk(body))
                    if any(strip_all(s) is incs[0] or s is incs[0] for s in tl) and not has_continue:
                        return "capped while"
        return None
    return None


def _erase_or_advance(c, body):
    """for (it = begin(); it != end();) { if (p) it = erase(it); else ++it; }"""
    if c.get("k") not in ("BinaryOperator", "CXXOperatorCallExpr") or c.get("op") != "!=":
        return None
    ops = c["c"] if c["k"] == "BinaryOperator" else c["c"][1:]
    l, r = core_ref(ops[0]), core_ref(ops[1])
    if l.get("k") != "DeclRefExpr" or not (is_call(r) and re.search(r"(^|::)c?end$", r.get("fn") or "")):
        return None
    vid = l["id"]
    tl = _top_level_stmts(body)
    if len(tl) != 1 or tl[0].get("k") != "IfStmt" or tl[0].get("else") is None:
        return None
    def advances(branch):
        for x in walk(branch):
            x0 = x
            if x0.get("k") in ("UnaryOperator", "CXXOperatorCallExpr") and x0.get("op") == "++":
                t = core_ref(x0["c"][0] if x0["k"] == "UnaryOperator" else x0["c"][1])
                if t.get("id") == vid:
                    return True
            if x0.get("k") in ("BinaryOperator", "CXXOperatorCallExpr") and x0.get("op") == "=":
                ops2 = x0["c"] if x0["k"] == "BinaryOperator" else x0["c"][1:]
                if core_ref(ops2[0]).get("id") == vid:
                    rhs = core_ref(ops2[1])
                    if is_call(rhs) and re.search(r"(^|::)erase$", rhs.get("fn") or "") and call_args(rhs) and \
                            core_ref(call_args(rhs)[0]).get("id") == vid:
                        return True
        return False
    if advances(tl[0]["then"]) and advances(tl[0]["else"]):
        return "erase-or-advance"
    return None


def _check_loops(F, R):
    from collections import Counter
    kinds = Counter()
    for k, f in sorted(F.functions.items()):
        S = None
        for n in walk(f["body"]):
            if n.get("k") not in ("ForStmt", "WhileStmt", "DoStmt", "CXXForRangeStmt"):
                continue
            S = S or Struct(f)
            cl = _classify_loop(F, f, S, n)
            if cl is None and is_dead(S, n):
                continue
            kinds[cl] += 1
            R.check("H", cl is not None, "%s %s@%s: %s" % (f["name"], n["k"], n.get("l"), cl), F.loc(f, n),
                    "loop does not follow any bounded idiom (counted for / range-for / capped while / while(n--) / "
                    "iterator advance / getline / find-scanner / do-while(0))",
                    key="H|%s|%s" % (re.sub(r"<.*", "", f["name"]), n["k"]))
    R.analysed["loop_idioms"] = {str(k): v for k, v in kinds.items()}
    # recursion: strongly connected components of the repo call graph
    idx = {}
    low = {}
    onst = set()
    st = []
    sccs = []
    counter = [0]
    import sys
    sys.setrecursionlimit(10000)

    def sc(v):
        idx[v] = low[v] = counter[0]
        counter[0] += 1
        st.append(v)
        onst.add(v)
        for c in F.calls.get(v, ()):
            w = c.get("mg")
            if w not in F.functions:
                continue
            if w not in idx:
                sc(w)
                low[v] = min(low[v], low[w])
            elif w in onst:
                low[v] = min(low[v], idx[w])
        if low[v] == idx[v]:
            comp = []
            while True:
                w = st.pop()
                onst.discard(w)
                comp.append(w)
                if w == v:
                    break
            if len(comp) > 1 or any(c.get("mg") == v for c in F.calls.get(v, ())):
                sccs.append(comp)
    for v in F.functions:
        if v not in idx:
            sc(v)
    for comp in sccs:
        names = sorted(F.functions[c]["name"] for c in comp)
        f = F.functions[comp[0]]
        R.fail("H", "recursion: " + ", ".join(names)[:200], F.loc(f), "recursive call cycle (unbounded depth not excluded)",
               key="H|recursion|" + names[0])
    R.ok("H", "no recursion in the repo call graph", detail="%d functions" % len(F.functions)) if not sccs else None
    # root finders receive an iteration cap
    for k, f in sorted(F.functions.items()):
        for c in F.calls[k]:
            if (c.get("fn") or "").startswith("boost::math::tools::toms748_solve"):
                args = call_args(c)
                ok = len(args) >= 5
                R.check("H", ok, "%s toms748_solve iteration cap" % f["name"], F.loc(f, c),
                        "root finder called without max_iter argument", key="H|%s|toms748" % f["name"])
