"""Structural control-flow facts computed on the (goto-free) statement trees:
parents, guards (control dependence incl. early exits), dominance between
statements, switch arms.  The code base is structured (a GotoStmt anywhere is
reported as analysis-broken by the callers), so these tree computations are
exact for the idioms used."""
from .facts import walk, kids, strip_all, is_call, CALL_KINDS
from .extract import AnalysisBroken

EXIT_CALLS = ("exit", "abort", "std::exit", "std::abort", "_Exit", "quick_exit", "std::terminate")


def always_exits(n):
    """control never flows past n into the following sibling statement"""
    if n is None:
        return False
    k = n.get("k")
    if k in ("ReturnStmt", "CXXThrowExpr", "ContinueStmt", "BreakStmt"):
        return True
    if k in ("ExprWithCleanups",) and n.get("c"):
        return always_exits(n["c"][0])
    if k == "CompoundStmt":
        return any(always_exits(c) for c in n.get("c", []))
    if k == "IfStmt":
        return always_exits(n.get("then")) and always_exits(n.get("else"))
    if k in CALL_KINDS and n.get("fn") in EXIT_CALLS:
        return True
    if k == "DoStmt":
        return always_exits(n.get("body"))
    return False


class Struct:
    def __init__(self, f):
        self.f = f
        self.par = {}
        self.nodes = []
        roots = [f["body"]] + [i["init"] for i in f.get("inits", ()) if "init" in i]
        for r in roots:
            for n in walk(r):
                self.nodes.append(n)
                if n.get("k") == "GotoStmt":
                    raise AnalysisBroken("goto in %s: structural analysis not applicable" % f["name"])
                for c in kids(n):
                    self.par[id(c)] = n

    def parent(self, n):
        return self.par.get(id(n))

    def ancestors(self, n):
        p = self.parent(n)
        while p is not None:
            yield p
            p = self.parent(p)

    def enclosing(self, n, kinds):
        for a in self.ancestors(n):
            if a.get("k") in kinds:
                return a
        return None

    def contains(self, root, node):
        if root is None:
            return False
        if root is node:
            return True
        for a in self.ancestors(node):
            if a is root:
                return True
        return False

    # -- guards -------------------------------------------------------------
    def guards(self, n):
        """list of (cond_node, polarity) -- or ('switch', cond, labels) -- under which n runs"""
        out = []
        c = n
        p = self.parent(c)
        while p is not None:
            k = p.get("k")
            if k in ("IfStmt", "ConditionalOperator"):
                if p.get("then") is c:
                    out.append((p["cond"], True))
                elif p.get("else") is c:
                    out.append((p["cond"], False))
            elif k == "BinaryOperator" and p.get("op") in ("&&", "||"):
                ch = p.get("c", [])
                if len(ch) == 2 and ch[1] is c:
                    out.append((ch[0], p["op"] == "&&"))
            elif k == "CompoundStmt":
                sibs = p.get("c", [])
                idx = None
                for i, s in enumerate(sibs):
                    if s is c:
                        idx = i
                        break
                gp = self.parent(p)
                if gp is not None and gp.get("k") == "SwitchStmt" and gp.get("body") is p:
                    labels = self._arm_labels(sibs, idx)
                    out.append(("switch", gp["cond"], labels))
                    start = self._arm_start(sibs, idx)
                else:
                    start = 0
                if idx is not None:
                    for s in sibs[start:idx]:
                        s2 = s
                        while s2.get("k") in ("CaseStmt", "DefaultStmt") and s2.get("sub") is not None:
                            s2 = s2["sub"]
                        if s2.get("k") == "IfStmt":
                            te, ee = always_exits(s2.get("then")), always_exits(s2.get("else"))
                            if te and not ee:
                                out.append((s2["cond"], False))
                            elif ee and not te:
                                out.append((s2["cond"], True))
            elif k in ("CaseStmt", "DefaultStmt"):
                pass  # handled at the compound level
            elif k in ("WhileStmt", "ForStmt"):
                if p.get("body") is c and p.get("cond") is not None:
                    out.append((p["cond"], True))
            c = p
            p = self.parent(c)
        return out

    @staticmethod
    def _labels_of(s):
        labs = []
        while s is not None and s.get("k") in ("CaseStmt", "DefaultStmt"):
            if s["k"] == "DefaultStmt":
                labs.append("default")
            else:
                lhs = s.get("lhs")
                labs.append(lhs.get("iv", strip_all(lhs).get("iv", strip_all(lhs).get("v"))) if lhs else None)
            s = s.get("sub")
        return labs

    def _arm_start(self, sibs, idx):
        """index of the first statement of the arm containing sibs[idx] (after the last break before it)"""
        start = 0
        for i in range(idx - 1, -1, -1):
            s = sibs[i]
            inner = s
            while inner.get("k") in ("CaseStmt", "DefaultStmt") and inner.get("sub") is not None:
                inner = inner["sub"]
            if always_exits(inner):
                start = i + 1
                break
        return start

    def _arm_labels(self, sibs, idx):
        """case labels under which sibs[idx] is executed (with fall-through)"""
        labels = []
        start = self._arm_start(sibs, idx)
        for s in sibs[start:idx + 1]:
            labels.extend(self._labels_of(s))
        return labels

    # -- dominance between statements -------------------------------------------
    def executed_before(self, n):
        """nodes (top-level statements and their unconditional sub-expressions) that are
        evaluated on every path before n is reached"""
        out = []
        c = n
        p = self.parent(c)
        while p is not None:
            if p.get("k") == "CompoundStmt":
                for s in p.get("c", []):
                    if s is c:
                        break
                    out.append(s)
            elif p.get("k") in ("IfStmt", "WhileStmt", "ConditionalOperator", "SwitchStmt"):
                if p.get("cond") is not c and p.get("cond") is not None:
                    out.append(p["cond"])
            elif p.get("k") == "ForStmt":
                if p.get("init") is not None and p.get("init") is not c:
                    out.append(p["init"])
            c = p
            p = self.parent(c)
        return out


def switch_arms(sw):
    """[(labels, [statements])] of a switch whose body is a compound statement;
    fall-through arms repeat the following statements"""
    body = sw.get("body")
    if body is None or body.get("k") != "CompoundStmt":
        raise AnalysisBroken("switch body is not a compound statement")
    sibs = body.get("c", [])
    # flatten labels
    items = []  # (labels or None, stmt)
    for s in sibs:
        labs = Struct._labels_of(s)
        inner = s
        while inner is not None and inner.get("k") in ("CaseStmt", "DefaultStmt"):
            inner = inner.get("sub")
        items.append((labs, inner))
    arms = []
    i = 0
    n = len(items)
    while i < n:
        labs, st = items[i]
        if not labs:
            i += 1
            continue
        stmts = []
        j = i
        # collect statements from i until an exit
        done = False
        while j < n and not done:
            lj, sj = items[j]
            if sj is not None:
                stmts.append(sj)
                if always_exits(sj):
                    done = True
            j += 1
        arms.append((labs, stmts))
        i += 1
    # merge labels that start at the same statement list position: items with labels each produce own arm
    return arms


def no_runtime_statics(F, R, rid, files, what, min_instances=1):
    """statelessness: every variable with static or thread storage duration defined in `files` (namespace scope or function
    local) is a constant that does not depend on run-time data -- a memo/cache keyed on less than all inputs, or a value
    frozen at first use, makes a function's result depend on the call history"""
    R.rule(rid, "the %s keep no writable or run-time initialised static / thread-local storage: every such variable is a "
                "compile-time style constant, so a function value depends on the arguments only (not on earlier calls)" % what,
           min_instances)
    for key, g in sorted(F.globals.items()):
        if g["file"] not in files:
            continue
        ini = g.get("init")
        bad = None
        if ini is not None:
            for n in walk(ini):
                if (n.get("k") == "DeclRefExpr" and n.get("rk") in ("Param", "Var")) or n.get("k") == "CXXThisExpr":
                    bad = n
                    break
        ok = bad is None and (g.get("const") or g.get("constexpr") or str(g.get("t")).startswith("const "))
        R.check(rid, bool(ok), "%s is a compile-time style constant" % g["name"].split("::")[-1], "%s:%s" % (g["file"], g["line"]),
                "`%s` has static/thread storage and %s: results depend on what was evaluated before"
                % (g["name"].split("::")[-1], ("is initialised from run-time data (%s)" % bad.get("n")) if bad else "is writable"),
                key="%s|%s" % (rid, g["name"]))
