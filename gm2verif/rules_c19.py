"""C19 -- calculations are pure: deterministic, argument-preserving, thread-safe."""
import re

from .facts import walk, kids, strip_all, call_args, call_object, is_call
from .structure import Struct
from .throwmodel import _unq
from .extract import AnalysisBroken

PID = "C19"
LEVEL = "proof"

CALC_HEADERS = ("include/gm2calc/gm2_1loop.hpp", "include/gm2calc/gm2_2loop.hpp",
                "include/gm2calc/gm2_uncertainty.hpp", "src/MSSMNoFV/gm2_1loop_helpers.hpp",
                "src/MSSMNoFV/gm2_2loop_helpers.hpp", "src/THDM/gm2_1loop_helpers.hpp",
                "src/THDM/gm2_2loop_helpers.hpp", "src/gm2_uncertainty_helpers.hpp", "src/gm2_ffunctions.hpp",
                "src/gm2_mf.hpp", "src/gm2_dilog.hpp", "src/gm2_numerics.hpp")
MODEL_TYPES = ("gm2calc::MSSMNoFV_onshell", "gm2calc::THDM", "gm2calc::SM")

NONDET = re.compile(r"^(std::)?(rand|srand|random|srandom|drand48|lrand48|time|clock|clock_gettime|gettimeofday|"
                    r"getenv|secure_getenv|getpid|gethostname)$|^std::chrono::.*::now$|^std::random_device|"
                    r"^std::(mt19937|mersenne_twister_engine|default_random_engine|linear_congruential_engine)|"
                    r"^std::this_thread::get_id$|^std::thread::|^std::ios_base::sync_with_stdio$|^std::setlocale$|"
                    r"^setlocale$|^std::locale::global$|^std::(async|call_once)$")
SHARED_PTRS = re.compile(r"std::(shared_ptr|unique_ptr|weak_ptr|reference_wrapper|function|atomic)<")


def run(F, R, tier):
    R.explanation = (
        "Purity as facts about the program text, valid for every schedule and history: (P1) every function of "
        "the calculation API takes models/parameter structs by const reference or by value; (P2) the library "
        "has no const_cast, no const-dropping cast, no mutable field and no pointer/reference/smart-pointer "
        "member in any class reachable from the model types (deep const); (P3) no static-storage variable in "
        "repository code is writable (all const/constexpr); (P4) the call closure of the API reaches no source "
        "of nondeterminism or process-global state and uses no unordered container; (P6) every caller of the "
        "routine that overwrites the soft Higgs masses holds an RAII save of each overwritten field before the "
        "call. P1-P4 together give: arguments unchanged, results a function of the arguments only, and no "
        "writable location shared between concurrent evaluations.")
    R.assumptions = ["the only shared object is std::cerr (warnings); iostreams are internally synchronised",
                     "Eigen/boost/libstdc++ functions used have no hidden mutable static state "
                     "(IR cross-check of library globals in the thorough tier)"]
    R.undecided = ["bit-identity across different builds/compilers/FPU modes (outside the program text)"]

    lib = {k: f for k, f in F.functions.items() if F.in_lib(f)}
    R.analysed["library_functions"] = len(lib)

    # ---- P1 ------------------------------------------------------------------
    R.rule("P1", "every function declared in the calculation headers takes model/parameter structs by const "
                 "reference or by value (no mutable reference or pointer parameter)", 100)
    decls = {}
    for k, d in F.fdecls.items():
        if d["file"] in CALC_HEADERS:
            decls[k] = d
    for k, f in F.functions.items():
        if f["file"] in CALC_HEADERS:
            decls.setdefault(k, f)
    for k, d in sorted(decls.items()):
        bad = [p for p in d["params"] if (p.get("ref") and not p.get("cref")) or (p.get("ptr") and not p.get("cptr"))]
        # out-parameters of pure math helpers (e.g. sort(a,b,c), swap) are not model arguments; they must
        # still not be model types
        bad_model = [p for p in bad if any(m in (p["t"] or "") for m in MODEL_TYPES) or "gm2calc::thdm" in (p["t"] or "")
                     or "gm2calc::" in (p["t"] or "")]
        R.check("P1", not bad_model, d["name"], "%s:%s" % (d["file"], d["line"]),
                "takes %s by mutable reference/pointer" % ", ".join("%s %s" % (p["t"], p["name"]) for p in bad_model),
                key="P1|%s" % d["name"])

    # ---- P2 ------------------------------------------------------------------
    R.rule("P2", "no const_cast / const-dropping cast in the library; no mutable field; no pointer, reference or "
                 "smart-pointer member in any class reachable from the model types", 30)
    ncast = 0
    for k, f in sorted(lib.items()):
        if f["file"] == "src/slhaea.h":
            continue
        for n in walk(f["body"]):
            kk = n.get("k")
            if kk == "CXXConstCastExpr":
                R.fail("P2", "%s const_cast" % f["name"], F.loc(f, n), "const_cast in library code",
                       key="P2|const_cast|%s" % f["name"])
            elif kk in ("CStyleCastExpr", "CXXReinterpretCastExpr", "CXXStaticCastExpr", "CXXFunctionalCastExpr"):
                ncast += 1
                src = (strip_all(n["c"][0]).get("t") or "") if n.get("c") else ""
                # operand type before the cast: use the immediate child (after lvalue-to-rvalue)
                child = n["c"][0] if n.get("c") else None
                src = (child.get("t") or "") if child else ""
                dst = n.get("t") or ""
                if _drops_const(src, dst):
                    R.fail("P2", "%s cast %s -> %s" % (f["name"], src, dst), F.loc(f, n),
                           "cast removes const from the pointee", key="P2|dropconst|%s" % f["name"])
    R.ok("P2", "explicit casts inspected, none drops const", detail=ncast)
    # reachable records
    reach = []
    seen = set()
    stack = [t for t in F.records if _unq(t) in MODEL_TYPES]
    if len(stack) < 3:
        raise AnalysisBroken("model record types not found: %s" % stack)
    while stack:
        t = stack.pop()
        if t in seen or t not in F.records:
            continue
        seen.add(t)
        r = F.records[t]
        reach.append(r)
        for b in r.get("bases", ()):
            stack.append(_unq(b))
        for fl in r["fields"]:
            ft = _unq(fl["t"]) or ""
            for cand in F.records:
                if cand and cand in ft:
                    stack.append(cand)
    R.analysed["records_reachable_from_model_types"] = sorted(r["name"] for r in reach)
    for r in sorted(reach, key=lambda r: r["name"]):
        for fl in r["fields"]:
            where = "%s:%s" % (r["file"], r["line"])
            inst = "%s::%s : %s" % (r["name"], fl["name"], fl["t"])
            if fl.get("mutable"):
                R.fail("P2", inst, where, "mutable field in a model class", key="P2|mutable|%s::%s" % (r["name"], fl["name"]))
            elif fl.get("ptr") or fl.get("ref") or "*" in (fl["t"] or "") or SHARED_PTRS.search(fl["t"] or ""):
                R.fail("P2", inst, where, "pointer/reference/shared-ownership member: const access is not deep",
                       key="P2|indirect|%s::%s" % (r["name"], fl["name"]))
            else:
                R.ok("P2", inst, where)
    # mutable anywhere in library records
    for t, r in sorted(F.records.items(), key=lambda x: str(x[0])):
        if r["file"].startswith(("src/", "include/")) and r["file"] not in ("src/gm2calc.cpp",):
            for fl in r["fields"]:
                if fl.get("mutable"):
                    R.fail("P2", "%s::%s" % (r["name"], fl["name"]), "%s:%s" % (r["file"], r["line"]),
                           "mutable field in library class", key="P2|mutable|%s::%s" % (r["name"], fl["name"]))

    # ---- P3 -------------------------------------------------------------------
    R.rule("P3", "every static-storage variable in repository code is const or constexpr (no writable global, "
                 "static member or static local)", 30)
    for key, g in sorted(F.globals.items()):
        if g["file"] == "src/gm2calc.cpp":
            scope = "program"
        else:
            scope = "library"
        ok = g["const"] or g["constexpr"]
        t = g["t"] or ""
        # const arrays print const on the element type
        if not ok and re.match(r"^const ", t):
            ok = True
        R.check("P3", ok, "%s %s : %s" % (scope, g["name"], t), "%s:%s" % (g["file"], g["line"]),
                "writable static-storage variable%s" % (" (static local in %s)" % g.get("infunc") if g.get("staticlocal") else ""),
                key="P3|%s" % g["name"])

    R.rule("P3b", "no static-storage constant is initialised from run-time values (parameters, locals, object "
                  "state): such a 'constant' would freeze the first caller's data", 30)
    for key, g in sorted(F.globals.items()):
        ini = g.get("init")
        if ini is None:
            R.ok("P3b", "%s (no dynamic initialiser)" % g["name"], "%s:%s" % (g["file"], g["line"]))
            continue
        bad = None
        for n in walk(ini):
            if n.get("k") == "DeclRefExpr" and n.get("rk") in ("Param", "Var"):
                bad = n
                break
            if n.get("k") == "CXXThisExpr":
                bad = n
                break
        R.check("P3b", bad is None, "%s initialiser uses only constants" % g["name"], "%s:%s" % (g["file"], g["line"]),
                "static%s `%s` is initialised from the run-time value `%s`: it keeps the value of the first "
                "evaluation in the process" % (" local" if g.get("staticlocal") else "", g["name"].split("::")[-1],
                                               (bad.get("n") or "this") if bad else ""),
                key="P3b|%s" % g["name"])

    # ---- P4 ---------------------------------------------------------------------
    R.rule("P4", "the call closure of the calculation/model API reaches no nondeterminism source or "
                 "process-global state and uses no unordered container", 300)
    roots = [k for k, f in F.functions.items() if f["file"] in CALC_HEADERS or
             (f.get("method") or {}).get("cls") in MODEL_TYPES + ("gm2calc::MSSMNoFV_onshell_mass_eigenstates",
                                                                 "gm2calc::THDM_mass_eigenstates")]
    # definitions of the declared API functions
    roots += [k for k in decls if k in F.functions]
    clo = F.closure(roots)
    R.analysed["api_call_closure_functions"] = len(clo)
    for k in sorted(clo):
        f = F.functions[k]
        bad = None
        for c in F.calls[k]:
            fn = c.get("fn") or ""
            if NONDET.search(fn):
                bad = (c, fn)
                break
        if bad is None:
            for n in walk(f["body"]):
                if "unordered_" in (n.get("t") or ""):
                    bad = (n, "unordered container " + n["t"][:60])
                    break
        if bad:
            R.fail("P4", f["name"], F.loc(f, bad[0]), "reaches %s" % bad[1], key="P4|%s|%s" % (f["name"], bad[1][:40]))
        else:
            R.ok("P4", f["name"])
    # library-wide: sync_with_stdio / locale never touched
    for k, f in sorted(lib.items()):
        for c in F.calls[k]:
            if re.search(r"sync_with_stdio|setlocale|locale::global", c.get("fn") or ""):
                R.fail("P4", f["name"], F.loc(f, c), "modifies process-global I/O state: %s" % c.get("fn"),
                       key="P4|global|%s" % f["name"])

    # ---- P6 ----------------------------------------------------------------------
    R.rule("P6", "every caller of a routine that overwrites the soft Higgs masses holds an RAII save of each "
                 "overwritten field, declared before the call (except the public solve_ewsb API itself)", 4)
    ewsb = [k for k, f in F.functions.items() if re.search(r"::solve_ewsb_tree_level(_via_soft_higgs_masses)?$", f["name"])]
    if len(ewsb) < 3:
        raise AnalysisBroken("solve_ewsb_tree_level routines not found")
    writes = {}
    for k in ewsb:
        writes[k] = _fields_written(F, k, set())
    for k in ewsb:
        g = F.functions[k]
        if not writes[k]:
            raise AnalysisBroken("no field writes found in %s" % g["name"])
        for caller in sorted(F.callers.get(k, ())):
            h = F.functions[caller]
            if re.search(r"::solve_ewsb(_tree_level)?$", h["name"]):
                continue
            S = Struct(h)
            for c in F.calls[caller]:
                if c.get("mg") != k:
                    continue
                saved = set()
                for s in S.executed_before(c):
                    for n in walk(s):
                        if n.get("k") == "DeclStmt":
                            for d in n["decls"]:
                                if "RAII_save" in (d.get("t") or "") and d.get("init") is not None:
                                    for x in walk(d["init"]):
                                        if x.get("k") == "MemberExpr" and x.get("mk") == "Field":
                                            saved.add(x["n"])
                for fld in sorted(writes[k]):
                    R.check("P6", fld in saved, "%s saves %s before %s" % (h["name"], fld.split("::")[-1], g["name"].split("::")[-1]),
                            F.loc(h, c), "%s overwrites %s but the caller holds no RAII save of it" % (g["name"], fld),
                            key="P6|%s|%s" % (h["name"], fld))
    # the RAII class restores in its destructor
    dt = [f for f in F.functions.values() if f["name"].endswith("RAII_save<double>::~RAII_save")]
    R.check("P6", bool(dt) and any(n.get("k") == "BinaryOperator" and n.get("op") == "=" and
                                   strip_all(n["c"][0]).get("sn") == "var" and strip_all(n["c"][1]).get("sn") == "value"
                                   for n in walk(dt[0]["body"])) if dt else False,
            "RAII_save::~RAII_save restores var = value", "src/gm2_raii.hpp", "destructor does not restore the saved value",
            key="P6|dtor")

    if tier == "thorough":
        _ir_globals(F, R)


def _fields_written(F, k, seen):
    """fields assigned by function k or its repo callees (transitively)"""
    if k in seen or k not in F.functions:
        return set()
    seen.add(k)
    out = set()
    f = F.functions[k]
    for n in walk(f["body"]):
        if n.get("k") in ("BinaryOperator", "CompoundAssignOperator") and n.get("op") in ("=", "+=", "-=", "*=", "/="):
            l = strip_all(n["c"][0])
            if l.get("k") == "MemberExpr" and l.get("mk") == "Field":
                out.add(l["n"])
        if is_call(n) and n.get("mg") in F.functions and not F.functions[n["mg"]].get("method", {}).get("const", False):
            if n.get("k") == "CXXMemberCallExpr":
                out |= _fields_written(F, n["mg"], seen)
    return out


def _drops_const(src, dst):
    """pointer/reference cast whose pointee loses const"""
    def pointee(t):
        t = t.strip()
        m = re.match(r"^(.*?)\s*(\*|&)\s*(const)?$", t)
        return m.group(1).strip() if m else None
    ps, pd = pointee(src), pointee(dst)
    if ps is None or pd is None:
        return False
    return ps.startswith("const ") and not pd.startswith("const ")


THIRD_PARTY_STATICS = [
    (r"^(guard variable for )?Eigen::internal::manage_caching_sizes\(", "Eigen's CPU cache-size table: initialised once "
     "under the C++11 static-init guard, afterwards only written by setCpuCacheSizes (never called: rule P4 scope)"),
    (r"^(guard variable for )?boost::math::", "boost.math function-local constants (error-message names, "
     "initialiser objects), initialised once under guard"),
    (r"^(guard variable for )?boost::", "boost function-local statics, initialised once under guard"),
    (r"^std::__ioinit$|^guard variable for |^std::|^__gnu_cxx::|^__dso_handle$", "C++ runtime objects"),
    (r"^(vtable|typeinfo|typeinfo name|VTT) for ", "compiler generated"),
    (r"^Eigen::(fix<\d+>|all|last|lastp1|placeholders::\w+)$", "Eigen's empty tag objects (no state)"),
]


def _ir_globals(F, R):
    """thorough tier: writable globals of the compiled library according to LLVM IR. Catches what
    the AST rule cannot see: statics in template code instantiated from third-party headers."""
    import os
    import subprocess
    import tempfile
    import shutil
    from . import extract as X
    R.rule("P3ir", "LLVM IR of the library: every non-constant global is either a const AST variable with a "
                   "dynamic initialiser (stored only by its initialiser) or an allow-listed third-party/runtime "
                   "static", 10)
    tmp = tempfile.mkdtemp(prefix="gm2ir_")
    try:
        lib, _prog = X.tu_list(F.repo)
        procs = []
        for tu in lib:
            out = os.path.join(tmp, tu.replace("/", "__") + ".ll")
            cmd = ["clang++", "-S", "-emit-llvm", "-O0", "-g0", "-o", out] + X.flags(F.repo) + [os.path.join(F.repo, tu)]
            procs.append((tu, out, subprocess.Popen(cmd, stderr=subprocess.PIPE)))
        globs = {}
        for tu, out, p in procs:
            _, err = p.communicate()
            if p.returncode != 0:
                raise AnalysisBroken("IR generation failed for %s: %s" % (tu, err.decode()[-500:]))
            with open(out) as fh:
                for line in fh:
                    if not line.startswith("@"):
                        continue
                    m = re.match(r'^@("[^"]+"|[^ ]+) = (.*)$', line)
                    if not m:
                        continue
                    name, rest = m.group(1).strip('"'), m.group(2)
                    if re.search(r"(^| )constant ", rest) or "external " in rest[:60] or \
                            " alias " in " " + rest or rest.startswith("appending"):
                        continue
                    if not re.search(r"(^| )global ", rest):
                        continue
                    if name.startswith((".str", "llvm.", "__const")):
                        continue
                    globs.setdefault(name, tu)
        names = sorted(globs)
        dem = subprocess.run(["c++filt"], input="\n".join(names), capture_output=True, text=True).stdout.split("\n")
        ast_const = {}
        for key, g in F.globals.items():
            if g["const"] or g["constexpr"] or re.match(r"^const ", g["t"] or ""):
                ast_const.setdefault(g["name"].split("::")[-1], []).append(g)
        for name, d in zip(names, dem):
            tu = globs[name]
            short = re.sub(r"\[abi:[^\]]*\]", "", d).split("::")[-1]
            tp = None
            for rx, why in THIRD_PARTY_STATICS:
                if re.search(rx, d):
                    tp = why
                    break
            if tp:
                R.ok("P3ir", d[:140], tu, detail=tp)
            elif short in ast_const:
                R.ok("P3ir", d[:140], tu, detail="const in the AST; dynamic initialiser")
            else:
                R.fail("P3ir", d[:200], tu, "writable global in the library's IR that is not const in the AST",
                       key="P3ir|%s" % d[:120])
    finally:
        shutil.rmtree(tmp, ignore_errors=True)
