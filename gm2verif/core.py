"""Shared result/evidence plumbing for all property checks."""
import json
import os
import sys
import time

from .extract import AnalysisBroken, VERIF

KNOWN = os.path.join(VERIF, "known_findings.json")


def load_known(pid):
    try:
        with open(KNOWN) as fh:
            d = json.load(fh)
    except FileNotFoundError:
        return {}
    return {e["key"]: e for e in d.get("open", []) if e.get("property") == pid}


class Report:
    """collects obligations of one property run and writes the evidence file"""

    def __init__(self, pid, tier, level="other", design_ref=""):
        self.pid = pid
        self.tier = tier
        self.level = level
        self.t0 = time.time()
        self.seed = int(os.environ.get("VERIF_SEED", "0") or 0)
        self.rules = {}        # rule -> dict(text, obligations, discharged, min, instances[])
        self.violations = []   # dicts
        self.known_hit = []
        self.notes = []
        self.analysed = {}
        self.assumptions = []
        self.trusted = []
        self.known = load_known(pid)
        self.explanation = ""
        self.undecided = []
        self.deferred = []

    # -- declaration ------------------------------------------------------
    def rule(self, rid, text, min_instances=1):
        self.rules[rid] = dict(text=text, obligations=0, discharged=0, min=min_instances, instances=[])

    def ok(self, rid, instance, where="", detail=None):
        r = self.rules[rid]
        r["obligations"] += 1
        r["discharged"] += 1
        rec = {"instance": instance}
        if where:
            rec["where"] = where
        if detail is not None:
            rec["detail"] = detail
        r["instances"].append(rec)

    def fail(self, rid, instance, where, message, key=None, facts=None):
        """a definite violation; `key` identifies the finding semantically (no line numbers)"""
        r = self.rules[rid]
        r["obligations"] += 1
        key = key or "%s|%s" % (rid, instance)
        rec = dict(property=self.pid, rule=rid, rule_text=r["text"], instance=instance, where=where,
                   message=message, key=key, facts=facts or {})
        if any(v["key"] == key for v in self.violations) or any(v["key"] == key for v in self.known_hit):
            # same finding reached again (e.g. another instantiation of one template)
            r["obligations"] -= 1
            return
        if key in self.known:
            self.known_hit.append(rec)
            r["instances"].append({"instance": instance, "where": where, "known_finding": True})
        else:
            self.violations.append(rec)
            r["instances"].append({"instance": instance, "where": where, "violation": message})

    def check(self, rid, cond, instance, where="", message="", key=None, facts=None, detail=None):
        if cond:
            self.ok(rid, instance, where, detail)
        else:
            self.fail(rid, instance, where, message, key, facts)
        return cond

    def broken(self, msg):
        raise AnalysisBroken("%s: %s" % (self.pid, msg))

    def soft_broken(self, msg):
        """a rule could not be decided; the other rules still run. Reported as inconclusive (exit 2)
        unless another rule found a definite violation."""
        self.deferred.append("%s: %s" % (self.pid, msg))

    def guard(self, fn, *args, **kw):
        """run one independent group of rules; an engine error there is reported as inconclusive for that group only,
        so that the other groups still deliver their (definite) verdicts"""
        try:
            return fn(*args, **kw)
        except Exception as e:          # AnalysisBroken included
            import traceback
            tb = traceback.extract_tb(e.__traceback__)[-1]
            self.deferred.append("%s: %s failed: %s: %s (%s:%s)" % (self.pid, getattr(fn, "__name__", "group"),
                                                                     type(e).__name__, str(e)[:200], tb.filename.split("/")[-1], tb.lineno))
            return None

    # -- finish -------------------------------------------------------------
    def finish(self, broken=None):
        wall = time.time() - self.t0
        if broken is None and not self.violations and self.deferred:
            broken = "; ".join(self.deferred)
        if broken is None and not self.violations:
            for rid, r in self.rules.items():
                if r["obligations"] < r["min"]:
                    broken = "rule %s matched %d instances, fewer than the %d confirmed by hand " \
                             "(anchor moved or extraction incomplete)" % (rid, r["obligations"], r["min"])
                    break
        obligations = sum(r["obligations"] for r in self.rules.values())
        discharged = sum(r["discharged"] for r in self.rules.values())
        samples = []
        for rid, r in self.rules.items():
            inst = r["instances"]
            if not inst:
                continue
            step = max(1, len(inst) // 3)
            start = self.seed % step if step > 1 else 0
            for x in inst[start::step][:3]:
                s = dict(rule=rid)
                s.update(x)
                samples.append(s)
        for v in self.violations[:5]:
            samples.append(dict(rule=v["rule"], instance=v["instance"], where=v["where"], violation=v["message"]))
        rule_txt = "; ".join("%s: %s [%d/%d]" % (rid, r["text"], r["discharged"], r["obligations"])
                             for rid, r in self.rules.items())
        level = self.level
        if level == "proof" and (discharged != obligations or broken):
            level = "other"
        distinct = len({(rid, json.dumps(x.get("instance"), sort_keys=True, default=str))
                        for rid, r in self.rules.items() for x in r["instances"]})
        cov = dict(
            obligations=obligations, discharged=discharged,
            evaluations=max(obligations, 1), distinct_nontrivial=max(distinct, 0),
            rule="static rules over the type-checked AST of /repo (no execution). " + rule_txt,
            samples=samples or [{"note": "no instance"}],
            checker_cmd="./check %s --tier %s" % (self.pid, self.tier),
            trusted_base=self.trusted or ["clang 14 front end (AST, constant folding)", "gm2facts plugin",
                                          "python rule engine in /verif/gm2verif"],
            explanation=(self.explanation or rule_txt) + (" INCONCLUSIVE: " + broken if broken else ""),
            exhaustive=broken is None,
            analysed=self.analysed,
            per_rule={rid: dict(text=r["text"], obligations=r["obligations"], discharged=r["discharged"],
                                min_instances=r["min"]) for rid, r in self.rules.items()},
            undecided_clauses=self.undecided,
            known_findings=[dict(key=k["key"], where=k["where"]) for k in self.known_hit],
        )
        ev = dict(property_id=self.pid, tier=self.tier, seed=self.seed, level=level, coverage=cov,
                  assumptions=self.assumptions, wall_s=round(wall, 3), violations=len(self.violations))
        if broken:
            ev["inconclusive"] = broken
        no_ev = bool(os.environ.get("GM2_NO_EVIDENCE"))
        if not no_ev:
            os.makedirs(os.path.join(VERIF, "evidence"), exist_ok=True)
            with open(os.path.join(VERIF, "evidence", self.pid + ".json"), "w") as fh:
                json.dump(ev, fh, indent=1, default=str)
                fh.write("\n")
        if not no_ev:
            import glob
            for old in glob.glob(os.path.join(VERIF, "evidence", "replay", self.pid + "-*.json")):
                os.remove(old)
        # console
        print("%s [%s]: %d obligations, %d discharged, %d violations, %d known findings (%.1fs)" % (
            self.pid, self.tier, obligations, discharged, len(self.violations), len(self.known_hit), wall))
        for rid, r in self.rules.items():
            print("  %-6s %3d/%-3d %s" % (rid, r["discharged"], r["obligations"], r["text"]))
        for k in self.known_hit:
            print("KNOWN-FINDING: property=%s %s at %s: %s" % (self.pid, k["key"], k["where"], k["message"]))
        if broken and not self.violations:
            print("INCONCLUSIVE property=%s: %s" % (self.pid, broken))
            return 2
        if broken:
            # a definite violation found before / besides the part that could not be analysed stands on its own
            print("NOTE property=%s: part of the analysis was inconclusive (%s)" % (self.pid, broken[:300]))
        if self.violations:
            rdir = os.path.join(VERIF, "evidence", "replay") if not no_ev else \
                os.path.join(os.environ.get("GM2_CACHE") or "/tmp", "replay")
            os.makedirs(rdir, exist_ok=True)
            for i, v in enumerate(self.violations):
                path = os.path.join(rdir, "%s-%d.json" % (self.pid, i))
                with open(path, "w") as fh:
                    json.dump(v, fh, indent=1, default=str)
                print("  %s %s: %s -- %s" % (v["rule"], v["where"], v["instance"], v["message"]))
                print("VIOLATION property=%s replay=%s" % (self.pid, path))
            return 1
        return 0
