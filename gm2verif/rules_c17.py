"""C17 -- the C interface is a faithful, exception-tight mirror of the C++ one."""
import re

from .facts import walk, kids, strip_all, strip, call_args, call_object, is_call
from .structure import Struct, always_exits
from .throwmodel import ThrowModel, _unq

PID = "C17"
LEVEL = "proof"

C_HEADERS = ("include/gm2calc/MSSMNoFV_onshell.h", "include/gm2calc/THDM.h", "include/gm2calc/SM.h",
             "include/gm2calc/gm2_1loop.h", "include/gm2calc/gm2_2loop.h", "include/gm2calc/gm2_error.h",
             "include/gm2calc/gm2_uncertainty.h", "src/gm2_uncertainty_helpers.h")

ERR_MAP = {"gm2calc::EInvalidInput": "gm2calc_InvalidInput",
           "gm2calc::EPhysicalProblem": "gm2calc_PhysicalProblem",
           None: "gm2calc_UnknownError"}

# X4: C calculation wrappers live in these files
CALC_FILES = ("src/MSSMNoFV/gm2_1loop_c.cpp", "src/MSSMNoFV/gm2_2loop_c.cpp", "src/MSSMNoFV/gm2_uncertainty_c.cpp",
              "src/THDM/gm2_1loop_c.cpp", "src/THDM/gm2_2loop_c.cpp", "src/THDM/gm2_uncertainty_c.cpp")


def _ref_id(n):
    n = strip_all(n)
    if n is not None and n.get("k") == "DeclRefExpr":
        return n.get("id")
    return None


def _uses(root, decl_id):
    return [n for n in walk(root) if n.get("k") == "DeclRefExpr" and n.get("id") == decl_id]


def run(F, R, tier, M=None):
    M = M or ThrowModel(F)
    R.explanation = (
        "Decides, from the source alone, that no C++ exception can leave any extern \"C\" definition: the set of "
        "exception types that may propagate out of each function is the least fixed point over the resolved "
        "call graph (throw expressions, a frozen table of throwing external callees, try/catch absorption by "
        "class hierarchy, std::function targets resolved by type). The argument never mentions the model state, "
        "so it holds for every call history incl. an uninitialised model and out-of-range enum values. "
        "Structural rules decide the bounded string copy (incl. len = 0), unmodified same-stem forwarding of "
        "each calculation wrapper (=> bit-identical result), the error-code mapping, enum mirrors, and that "
        "free is a bare delete (null-safe).")
    R.assumptions = [
        "A1: allocation failure (bad_alloc/length_error) is out of scope",
        "A2: external callees behave as classified (throwing table T2 / nothrow-by-assumption classes T3, "
        "listed under coverage.analysed.external_callee_classes)",
        "A3: NDEBUG build: Eigen assertions are compiled out",
        "default iostream exception mask (nobody calls basic_ios::exceptions: checked by the throw table)"]
    R.undecided = ["bit-identity as a run-time fact (decided as unmodified forwarding)",
                   "termination by signals other than uncaught exceptions (e.g. null handle dereference by the caller)"]
    ext = {k: f for k, f in F.functions.items() if f.get("externC")}
    R.analysed["extern_C_definitions"] = len(ext)
    R.analysed["functions_in_fact_base"] = len(F.functions)
    R.analysed["throw_model_rounds"] = M.rounds
    R.analysed["external_callee_classes"] = {k: len(v) for k, v in M.ext_classes.items()}

    # ---- X1 tightness ---------------------------------------------------
    R.rule("X1", "may_throw(f) is empty for every extern \"C\" definition (state-independent fixed point "
                 "over the call graph with try/catch absorption)", min_instances=130)
    for k, f in sorted(ext.items()):
        mt = M.mt[k]
        unknown = [t for t in mt if t.startswith("UNKNOWN:")]
        if unknown:
            R.broken("X1: %s reaches an unclassified external callee: %s" % (f["name"], unknown))
        if mt:
            t = sorted(mt)[0]
            chain = M.witness(k, t)
            R.fail("X1", f["name"], F.loc(f), "%s can escape: %s" % (", ".join(sorted(mt)), " -> ".join(chain)),
                   key="X1|%s" % f["name"], facts=dict(may_throw=sorted(mt), witness=chain))
        else:
            has_handler = any(n.get("k") == "CXXTryStmt" for n in walk(f["body"]))
            R.ok("X1", f["name"], F.loc(f), detail="handler" if has_handler else "callee closure cannot throw")
        if k in M.terminates:
            R.fail("X1", f["name"] + " (noexcept)", F.loc(f), "exception reaches noexcept boundary",
                   key="X1t|%s" % f["name"])
        # a noexcept function in the call closure that an exception can reach calls std::terminate before any
        # handler of the wrapper runs: the process dies inside the C API
        term = sorted(c for c in F.closure([k]) if c in M.terminates)
        if term:
            g = F.functions[term[0]]
            t = sorted(M.terminates[term[0]])[0]
            R.fail("X1", f["name"] + " (terminate)", F.loc(f), "%s reaches the noexcept boundary of %s, which %s calls: "
                   "std::terminate instead of an error value" % (t, g["name"], f["name"]),
                   key="X1n|%s|%s" % (f["name"], g["name"]))

    R.rule("X1d", "every function declared in the C headers has an analysed extern \"C\" definition", 130)
    for k, d in sorted(F.fdecls.items()):
        if d["file"] in C_HEADERS and d.get("externC"):
            R.check("X1d", k in ext, d["name"], "%s:%s" % (d["file"], d["line"]),
                    "declared in the C API but no definition was analysed", key="X1d|%s" % d["name"])

    # ---- X2 bounded copy ---------------------------------------------------
    R.rule("X2", "every write through a caller-supplied char* is bounded by len-1 and guarded against len == 0", 2)
    for k, f in sorted(ext.items()):
        cps = [p for p in f["params"] if p.get("ptr") and not p.get("cptr") and _unq(p["t"]) == "char *"]
        for p in cps:
            _check_bounded_copy(F, R, f, p)

    # ---- X4 forwarding -------------------------------------------------------
    R.rule("X4", "each C calculation wrapper returns, unmodified, the result of exactly one call to the same-stem "
                 "gm2calc:: function on the const-cast handle with the remaining arguments in order", 25)
    for k, f in sorted(ext.items()):
        if f["file"] in CALC_FILES and f["name"].startswith("gm2calc_"):
            _check_forwarding(F, R, f)

    # ---- X5h error mapping ------------------------------------------------------
    R.rule("X5h", "handlers map EInvalidInput/EPhysicalProblem/... to the corresponding gm2calc_error code, "
                  "derived classes are not shadowed, success leaves gm2calc_NoError, constructors null the handle "
                  "on failure", 5)
    for k, f in sorted(ext.items()):
        if _unq(f["ret"]) == "gm2calc_error":
            _check_error_mapping(F, R, M, f)

    # ---- X6 free ------------------------------------------------------------------
    R.rule("X6", "the free functions consist of a delete of the cast handle only (delete of null is harmless)", 2)
    for k, f in sorted(ext.items()):
        if f["name"].endswith("_free"):
            body = f["body"].get("c", [])
            ok = len(body) == 1 and body[0].get("k") == "CXXDeleteExpr" and \
                _ref_id(_peel_casts(body[0]["c"][0])) == f["params"][0]["id"] and not body[0].get("array")
            R.check("X6", ok, f["name"], F.loc(f), "free function does more than `delete cast(handle)`",
                    key="X6|%s" % f["name"])

    # ---- X7 no ignored argument ---------------------------------------------------------
    R.rule("X7", "every parameter of every extern \"C\" definition is read in its body (a wrapper that ignores an argument "
                 "is not a mirror of the C++ call it stands for)", 130)
    for k, f in sorted(ext.items()):
        used = {n.get("id") for n in walk(f["body"]) if n.get("k") == "DeclRefExpr"}
        dead = [p["name"] or "#%d" % i for i, p in enumerate(f["params"]) if p["id"] not in used]
        R.check("X7", not dead, f["name"], F.loc(f), "parameter(s) %s never read: the call ignores what the C caller passed"
                % ", ".join(dead), key="X7|%s" % f["name"])

    # ---- X5m struct mirrors --------------------------------------------------------
    R.rule("X5m", "C<->C++ struct conversions pair each field with the same-named field/accessor (same index "
                  "order, real before imag) and cover every field of the C struct", 60)
    _check_struct_mirrors(F, R)

    # ---- X3 setter/getter pairing ------------------------------------------------------
    R.rule("X3", "for every set_<S>/get_<S> pair of the C header the access path written by the setter equals "
                 "the access path read by the getter (through the C++ accessors down to the field)", 14)
    _check_pairing(F, R, ext)

    # ---- X5e enum mirrors -------------------------------------------------------------
    R.rule("X5e", "C and C++ enumerators that are converted by static_cast have equal values", 6)
    c_en = _enum(F, "gm2calc_THDM_yukawa_type")
    cpp_en = _enum(F, "gm2calc::thdm::Yukawa_type")
    cn = {re.sub(r"^gm2calc_THDM_", "", e["name"]): e["v"] for e in c_en["values"]}
    pn = {e["name"]: e["v"] for e in cpp_en["values"]}
    for name in sorted(set(cn) | set(pn)):
        R.check("X5e", cn.get(name) == pn.get(name), "Yukawa_type::" + name,
                "%s:%s" % (c_en["file"], c_en["line"]),
                "C value %s != C++ value %s" % (cn.get(name), pn.get(name)), key="X5e|" + name)


def _enum(F, name):
    for e in F.enums.values():
        if e["name"] == name or e.get("tname") == name:
            return e
    from .extract import AnalysisBroken
    raise AnalysisBroken("enum %s not found" % name)


def _peel_casts(n):
    while n is not None:
        n = strip_all(n)
        if n.get("k") in ("CXXReinterpretCastExpr", "CXXStaticCastExpr", "CStyleCastExpr", "CXXConstCastExpr"):
            n = n["c"][0]
            continue
        return n


def _check_bounded_copy(F, R, f, p, len_ids=None, nonzero=False, depth=0, entry=None, classes=None):
    """every write through buffer parameter p of f is bounded by len-1 (interprocedural: the buffer may be
    handed to a repo helper together with its length)"""
    S = Struct(f)
    entry = entry or f
    if len_ids is None:
        len_ids = [q["id"] for q in f["params"] if _unq(q["t"]) in ("unsigned int", "unsigned long", "int", "unsigned")]
    classes = classes or {}        # parameter id -> 'idx' (<= len-1) / 'cnt' (<= len): limits computed by the caller
    uses = _uses(f["body"], p["id"])
    writes = 0
    inst0 = "%s(%s)" % (entry["name"], p["name"]) + ("" if entry is f else " via " + f["name"])

    def guarded_nonzero(node):
        if nonzero:
            return True
        for g in S.guards(node):
            if g[0] == "switch":
                continue
            cond, pol = g
            if pol is False and any(_cond_has_zero_test(cond, L) for L in len_ids):
                return True
        return False

    def bound(e, node):
        """'idx' if e <= len-1, 'cnt' if e <= len, 'over' if e can exceed, None if unknown"""
        e = strip_all(e)
        k = e.get("k")
        if k == "BinaryOperator" and e.get("op") == "-":
            a, b = strip_all(e["c"][0]), strip_all(e["c"][1])
            if b.get("k") == "IntegerLiteral" and b.get("v") == "1" and a.get("k") == "DeclRefExpr" and a.get("id") in len_ids:
                return "idx" if guarded_nonzero(node) else "wrap"
        if k == "DeclRefExpr" and e.get("id") in classes:
            return classes[e["id"]]
        if k == "DeclRefExpr" and e.get("id") in len_ids:
            return "cnt"
        if k == "DeclRefExpr" and e.get("rk") == "Var":
            for n in walk(f["body"]):
                if n.get("k") == "DeclStmt":
                    for d in n["decls"]:
                        if d.get("id") == e["id"] and d.get("init") is not None and d.get("const"):
                            return bound(d["init"], node)
            return None
        if is_call(e) and re.match(r"^std::min$", e.get("fn") or ""):
            bs = [bound(a, node) for a in call_args(e)]
            for want in ("idx", "wrap", "cnt"):
                if want in bs:
                    return want
            return None
        if is_call(e) and (e.get("fn") or "").endswith("basic_string<char>::copy"):
            args = call_args(e)
            if _ref_id(args[0]) == p["id"]:
                return bound(args[1], node)
        if k in ("CXXStaticCastExpr", "CXXFunctionalCastExpr", "CStyleCastExpr"):
            return bound(e["c"][0], node)
        return None

    for u in uses:
        par = S.parent(u)
        while par is not None and par.get("k") in ("ImplicitCastExpr", "ParenExpr"):
            u, par = par, S.parent(par)
        k = par.get("k")
        if k == "BinaryOperator" and par.get("op") in ("==", "!="):
            continue   # null test
        if is_call(par) and (par.get("fn") or "").endswith("basic_string<char>::copy"):
            writes += 1
            args = call_args(par)
            b = bound(args[1], par) if len(args) > 1 else None
            if b == "wrap":
                R.fail("X2", inst0 + " copy(len-1)", F.loc(f, par),
                       "`len - 1` wraps around for len == 0: no dominating `len == 0` early return",
                       key="X2|%s|len0" % entry["name"])
            elif b in ("idx", "cnt"):
                R.ok("X2", inst0 + " copy count <= len", F.loc(f, par))
            else:
                R.fail("X2", inst0, F.loc(f, par), "copy count is not bounded by the length parameter",
                       key="X2|%s|count" % entry["name"])
            continue
        if k == "ArraySubscriptExpr":
            writes += 1
            b = bound(par["c"][1], par)
            if b == "idx":
                R.ok("X2", inst0 + " terminator index <= len-1", F.loc(f, par))
            elif b == "wrap":
                R.fail("X2", inst0 + " terminator", F.loc(f, par), "`len - 1` wraps around for len == 0",
                       key="X2|%s|len0" % entry["name"])
            elif b == "cnt":
                R.fail("X2", inst0 + " terminator", F.loc(f, par), "index of the terminating write can equal len: "
                       "one byte beyond the given length", key="X2|%s|index" % entry["name"])
            else:
                R.fail("X2", inst0 + " terminator", F.loc(f, par),
                       "index of the terminating write is not bounded by len-1",
                       key="X2|%s|index" % entry["name"])
            continue
        if is_call(par) and par.get("fn") in ("memcpy", "std::memcpy", "strncpy", "std::strncpy", "memmove", "std::memmove"):
            writes += 1
            args = call_args(par)
            b = bound(args[2], par) if len(args) > 2 else None
            R.check("X2", b in ("idx", "cnt"), inst0 + " %s count <= len" % par["fn"], F.loc(f, par),
                    "%s count is not bounded by the length parameter" % par["fn"],
                    key="X2|%s|%s" % (entry["name"], par["fn"]))
            continue
        if is_call(par) and (par.get("fn") in ("strcpy", "strcat", "sprintf", "std::strcpy", "std::copy", "gets")):
            writes += 1
            R.fail("X2", inst0, F.loc(f, par), "unbounded write via %s" % par.get("fn"),
                   key="X2|%s|%s" % (entry["name"], par.get("fn")))
            continue
        if is_call(par) and par.get("mg") in F.functions and depth < 3:
            g = F.functions[par["mg"]]
            args = call_args(par)
            pos = [i for i, a in enumerate(args) if _ref_id(a) == p["id"]]
            lens = [i for i, a in enumerate(args) if _ref_id(a) in len_ids]
            if pos and lens and len(g["params"]) == len(args):
                writes += 1
                _check_bounded_copy(F, R, g, g["params"][pos[0]], [g["params"][i]["id"] for i in lens],
                                    guarded_nonzero(par), depth + 1, entry)
                continue
            # the helper receives a limit computed here (`len - 1`, `len`, min(...)): classify it at the call site
            lim = {}
            wrapped = False
            for i, a in enumerate(args):
                if i in pos:
                    continue
                b_ = bound(a, par)
                if b_ == "wrap":
                    wrapped = True
                elif b_ in ("idx", "cnt"):
                    lim[g["params"][i]["id"]] = b_
            if pos and wrapped and len(g["params"]) == len(args):
                writes += 1
                R.fail("X2", inst0 + " limit passed to " + g["name"].split("::")[-1], F.loc(f, par),
                       "`len - 1` wraps around for len == 0: no dominating `len == 0` early return", key="X2|%s|len0" % entry["name"])
                continue
            if pos and lim and len(g["params"]) == len(args):
                writes += 1
                _check_bounded_copy(F, R, g, g["params"][pos[0]], [], True, depth + 1, entry, classes=lim)
                continue
        R.broken("X2: unrecognised use of caller buffer %s in %s at line %s (%s)" % (p["name"], f["name"],
                                                                                      par.get("l"), k))
    if writes == 0:
        R.broken("X2: no write through %s found in %s" % (p["name"], f["name"]))


def _cond_has_zero_test(cond, lid):
    """cond is a disjunction containing `len == 0` (or !len, len < 1)"""
    cond = strip_all(cond)
    if cond.get("k") == "BinaryOperator" and cond.get("op") == "||":
        return any(_cond_has_zero_test(c, lid) for c in cond["c"])
    if cond.get("k") == "BinaryOperator" and cond.get("op") in ("==", "<", "<="):
        a, b = strip_all(cond["c"][0]), strip_all(cond["c"][1])
        if a.get("k") == "DeclRefExpr" and a.get("id") == lid and b.get("k") == "IntegerLiteral":
            return (cond["op"], b.get("v")) in (("==", "0"), ("<", "1"), ("<=", "0"))
        if b.get("k") == "DeclRefExpr" and b.get("id") == lid and a.get("k") == "IntegerLiteral":
            return (cond["op"], a.get("v")) == ("==", "0")
    if cond.get("k") == "UnaryOperator" and cond.get("op") == "!":
        return _ref_id(cond["c"][0]) == lid
    return False


def _check_forwarding(F, R, f):
    name = f["name"]
    m = re.match(r"^gm2calc_(mssmnofv|thdm)_(.*)$", name)
    if not m:
        R.broken("X4: unexpected wrapper name %s" % name)
    model, stem = m.group(1), m.group(2)
    stem = re.sub(r"(_amu[12]L)+$", "", stem)
    cls = {"mssmnofv": "gm2calc::MSSMNoFV_onshell", "thdm": "gm2calc::THDM"}[model]
    # calls to gm2calc:: functions in the body
    calls = [n for n in walk(f["body"]) if is_call(n) and (n.get("fn") or "").startswith("gm2calc::")
             and n.get("k") == "CallExpr"]
    where = F.loc(f)
    if len(calls) != 1:
        R.fail("X4", name, where, "%d calls to gm2calc:: functions (expected exactly one)" % len(calls),
               key="X4|%s|ncalls" % name)
        return
    c = calls[0]
    callee = c["fn"].split("::")[-1]
    if callee != stem:
        R.fail("X4", name, F.loc(f, c), "forwards to %s, not to the same-stem function gm2calc::%s" % (c["fn"], stem),
               key="X4|%s|stem" % name)
        return
    args = call_args(c)
    # first argument: *reinterpret_cast<const T*>(model)
    a0 = strip_all(args[0])
    ok0 = a0.get("k") == "UnaryOperator" and a0.get("op") == "*"
    if ok0:
        cast = strip_all(a0["c"][0])
        ok0 = cast.get("k") == "CXXReinterpretCastExpr" and (cast.get("t") or "").strip() == "const %s *" % cls and \
            _ref_id(cast["c"][0]) == f["params"][0]["id"]
    if not ok0:
        R.fail("X4", name, F.loc(f, c), "first argument is not *reinterpret_cast<const %s*>(handle)" % cls,
               key="X4|%s|handle" % name)
        return
    rest = [_ref_id(a) for a in args[1:]]
    want = [p["id"] for p in f["params"][1:]]
    if rest != want:
        R.fail("X4", name, F.loc(f, c), "remaining arguments are not the wrapper's parameters in order, unmodified",
               key="X4|%s|args" % name)
        return
    # the returned value is the call result, unmodified
    S = Struct(f)
    rets = [n for n in walk(f["body"]) if n.get("k") == "ReturnStmt"]
    ok = True
    why = ""
    for r in rets:
        rv = strip_all(r["c"][0]) if r.get("c") else None
        if rv is c:
            continue
        if rv is not None and rv.get("k") == "DeclRefExpr" and rv.get("rk") == "Var":
            vid = rv["id"]
            # all assignments to the variable
            assigns = [n for n in walk(f["body"]) if n.get("k") == "BinaryOperator" and n.get("op") == "="
                       and _ref_id(n["c"][0]) == vid]
            other = [n for n in walk(f["body"]) if n.get("k") in ("CompoundAssignOperator", "UnaryOperator")
                     and n.get("op") not in ("*", "&", "-", "!", "+") and any(_ref_id(x) == vid for x in n.get("c", []))]
            if len(assigns) != 1 or strip_all(assigns[0]["c"][1]) is not c or other:
                ok, why = False, "returned variable is not assigned exactly once from the forwarded call"
            # initial value must be NaN (error signal)
            for n in walk(f["body"]):
                if n.get("k") == "DeclStmt":
                    for d in n["decls"]:
                        if d.get("id") == vid:
                            ini = strip_all(d.get("init")) if d.get("init") else None
                            if not (ini is not None and is_call(ini) and (ini.get("fn") or "").endswith("quiet_NaN")):
                                ok, why = False, "error value of the wrapper is not NaN"
        elif rv is not None and is_call(rv) and (rv.get("fn") or "").endswith("quiet_NaN") and \
                not S.enclosing(r, ("CXXTryStmt",)) or (rv is not None and is_call(rv) and (rv.get("fn") or "").endswith("quiet_NaN")
                                                       and S.enclosing(r, ("CXXCatchStmt",))):
            continue         # the error value, returned after / inside the catch-all handler
        else:
            ok, why = False, "return value is not the forwarded call result"
    if not rets:
        ok, why = False, "no return statement"
    R.check("X4", ok, name, F.loc(f, c), why, key="X4|%s|return" % name, detail="-> " + c["fn"])


def _check_error_mapping(F, R, M, f):
    name = f["name"]
    tries = [n for n in walk(f["body"]) if n.get("k") == "CXXTryStmt"]
    if len(tries) != 1:
        R.fail("X5h", name, F.loc(f), "%d try blocks (expected one)" % len(tries), key="X5h|%s|try" % name)
        return
    t = tries[0]
    handlers = t["c"][1:]
    # the error variable
    rets = [n for n in walk(f["body"]) if n.get("k") == "ReturnStmt"]
    evar = None
    for r in rets:
        rv = strip_all(r["c"][0])
        if rv.get("k") == "DeclRefExpr" and rv.get("rk") == "Var":
            evar = rv["id"]
    if evar is None:
        R.fail("X5h", name, F.loc(f), "no error variable returned", key="X5h|%s|var" % name)
        return

    def assigned_codes(root):
        out = []
        for n in walk(root):
            if n.get("k") == "BinaryOperator" and n.get("op") == "=" and _ref_id(n["c"][0]) == evar:
                v = strip_all(n["c"][1])
                out.append(v.get("n") if v.get("k") == "DeclRefExpr" else None)
        return out

    # initial value and success path
    init_ok = False
    for n in walk(f["body"]):
        if n.get("k") == "DeclStmt":
            for d in n["decls"]:
                if d.get("id") == evar and d.get("init") is not None:
                    init_ok = strip_all(d["init"]).get("n") == "gm2calc_NoError"
    succ = assigned_codes(t["c"][0])
    R.check("X5h", init_ok and all(c == "gm2calc_NoError" for c in succ), name + " success",
            F.loc(f, t), "success path does not leave gm2calc_NoError", key="X5h|%s|success" % name)
    # handler bodies
    seen = []
    for h in handlers:
        ct = _unq(h.get("ct")) if h.get("ct") else None
        codes = assigned_codes(h["body"])
        want = ERR_MAP.get(ct, "gm2calc_UnknownError")
        R.check("X5h", codes == [want], "%s catch(%s)" % (name, ct or "..."), F.loc(f, h),
                "handler assigns %s, expected %s" % (codes, want), key="X5h|%s|%s" % (name, ct))
        for prev in seen:
            if prev is None or (ct is not None and prev in M.ancestors(ct)):
                R.fail("X5h", "%s catch(%s) order" % (name, ct or "..."), F.loc(f, h),
                       "handler is shadowed by the earlier catch(%s)" % (prev or "..."),
                       key="X5h|%s|%s|shadow" % (name, ct))
        seen.append(ct)
        # constructors: handle nulled
        if "new_with" in name:
            nulled = False
            for n in walk(h["body"]):
                if n.get("k") == "BinaryOperator" and n.get("op") == "=":
                    lhs = strip_all(n["c"][0])
                    rhs = strip_all(n["c"][1])
                    if lhs.get("k") == "UnaryOperator" and lhs.get("op") == "*" and \
                            _ref_id(lhs["c"][0]) == f["params"][0]["id"] and rhs.get("k") == "CXXNullPtrLiteralExpr":
                        nulled = True
            R.check("X5h", nulled, "%s catch(%s) nulls handle" % (name, ct or "..."), F.loc(f, h),
                    "handle is not set to null on failure", key="X5h|%s|%s|null" % (name, ct))
    # completeness: each documented class that the try body may raise has its own handler
    inner = M.thrown(f, t["c"][0], None)
    for ty in sorted(inner):
        if ty.startswith("UNKNOWN:"):
            continue
        anc = M.ancestors(ty)
        for doc in ("gm2calc::EInvalidInput", "gm2calc::EPhysicalProblem"):
            if doc in anc:
                first = None
                for h in handlers:
                    if M.catches(h.get("ct"), ty):
                        first = _unq(h.get("ct")) if h.get("ct") else None
                        break
                R.check("X5h", first == doc, "%s raises %s" % (name, ty), F.loc(f, t),
                        "%s thrown in the try body is first caught by catch(%s), not by catch(%s)" % (ty, first, doc),
                        key="X5h|%s|complete|%s" % (name, doc))


# ---------------------------------------------------------------------------
MIRROR_FUNCS = {
    "gm2calc::(anonymous namespace)::convert_to_config": "gm2calc_THDM_config",
    "gm2calc::(anonymous namespace)::convert_to_SM": "gm2calc_SM",
    "gm2calc::(anonymous namespace)::convert_to_basis": None,   # both overloads: struct from the parameter
    "gm2calc_sm_set_to_default": "gm2calc_SM",
    "gm2calc_thdm_config_set_to_default": "gm2calc_THDM_config",
}


def _norm_name(n):
    n = re.sub(r"^(set_|get_)", "", n)
    return n


_LOCAL_INIT = {}       # const locals of the function being analysed (decl id -> initialiser), set by _check_struct_mirrors


def _side_names(e, cparam_id):
    """(C-side field accesses [(name, index exprs, role)], C++-side names [(name, index exprs)]) in e"""
    from .render import Renderer
    Rr = Renderer(None, resolve_locals=False)
    cside, cppside = [], []

    def idx_of_subscripts(n):
        # n is the MemberExpr on the C struct; climb is done by the caller
        return []
    # walk with parent tracking for subscripts
    stack = [(e, [], None)]
    while stack:
        n, subs, role = stack.pop()
        n = strip_all(n)
        if n is None:
            continue
        k = n.get("k")
        if k == "DeclRefExpr" and n.get("rk") == "Var" and n.get("id") in _LOCAL_INIT:
            # a const local holding one element (e.g. `const std::complex<double> ckm_ik = def.get_ckm(i, k)`)
            stack.append((_LOCAL_INIT[n["id"]], subs, role))
            continue
        if k == "ArraySubscriptExpr":
            stack.append((n["c"][0], [Rr.r(n["c"][1])] + subs, role))
            for x in walk(n["c"][1]):
                pass
            continue
        if k == "MemberExpr" and n.get("mk") == "Field":
            base = strip_all(n["c"][0]) if n.get("c") else None
            if base is not None and base.get("k") == "DeclRefExpr" and base.get("id") == cparam_id:
                cside.append((n["sn"], subs, role))
                continue
            if base is not None and base.get("k") == "DeclRefExpr":
                cppside.append((n["sn"], subs))
                continue
        if is_call(n):
            fn = n.get("fn") or ""
            short = fn.split("::")[-1]
            if n.get("k") == "CXXMemberCallExpr":
                args = [Rr.r(a) for a in call_args(n)]
                # setter: index args precede the value; getter: all args are indices
                if short.startswith("set_"):
                    cppside.append((short, args[:-1]))
                    stack.append((call_args(n)[-1], [], role))
                    continue
                if short.startswith("get_"):
                    cppside.append((short, args))
                    continue
            if n.get("k") == "CXXOperatorCallExpr" and n.get("op") == "()":
                tgt = strip_all(n["c"][1])
                if tgt.get("k") in ("MemberExpr", "DeclRefExpr"):
                    nm = tgt.get("sn") or (tgt.get("n") or "").split("::")[-1]
                    cppside.append((nm, [Rr.r(a) for a in n["c"][2:]]))
                    continue
            if short in ("real", "imag"):
                for a in call_args(n):
                    stack.append((a, [], short))
                continue
            if re.search(r"complex<double>::complex$", fn) and len(call_args(n)) == 2:
                a, b = call_args(n)
                stack.append((a, [], "real"))
                stack.append((b, [], "imag"))
                continue
        for c in kids(n):
            stack.append((c, [], role))
    return cside, cppside


def _check_struct_mirrors(F, R):
    for fname, struct in MIRROR_FUNCS.items():
        for f in F.fns(fname):
            cp = [p for p in f["params"] if p.get("ptr")]
            if len(cp) != 1:
                R.broken("X5m: %s: expected one struct pointer parameter" % fname)
            cparam = cp[0]
            sname = struct or re.sub(r"^const |\s*\*$", "", cparam["t"]).strip()
            rec = F.records.get(sname)
            if rec is None:
                R.broken("X5m: C struct %s not found" % sname)
            fields = [fl["name"] for fl in rec["fields"]]
            covered = set()
            from .render import Renderer as _Rnd
            _LOCAL_INIT.clear()
            _LOCAL_INIT.update({i: v for i, v in _Rnd(f).local_init.items()
                                if strip_all(v) is not None and is_call(strip_all(v))})
            # local aliases: a C++ local filled element-wise then handed to a setter (ckm)
            for n in walk(f["body"]):
                is_asg = n.get("k") == "BinaryOperator" and n.get("op") == "="
                is_casg = n.get("k") == "CXXOperatorCallExpr" and n.get("op") == "="
                is_set = n.get("k") == "CXXMemberCallExpr" and (n.get("fn") or "").split("::")[-1].startswith("set_")
                if not (is_asg or is_casg or is_set):
                    continue
                if is_set:
                    cside, cppside = _side_names(n, cparam["id"])
                    lhs_c = []
                else:
                    ops = n["c"] if is_asg else n["c"][1:]
                    lc, lcpp = _side_names(ops[0], cparam["id"])
                    rc, rcpp = _side_names(ops[1], cparam["id"])
                    r0 = strip_all(ops[1])
                    if is_call(r0) and (r0.get("fn") or "").split("::")[-1] in ("real", "imag"):
                        lc = [(a, b, (r0["fn"].split("::")[-1]) if c is None else c) for a, b, c in lc]
                    cside, cppside = lc + rc, lcpp + rcpp
                if not cside:
                    continue
                for cn, cidx, role in cside:
                    covered.add(cn)
                    base = re.sub(r"_(real|imag)$", "", cn)
                    want_role = re.search(r"_(real|imag)$", cn)
                    match = [x for x in cppside if _norm_name(x[0]) == base]
                    inst = "%s: %s%s <-> %s" % (f["name"].split("::")[-1], cn, "".join("[%s]" % i for i in cidx),
                                                ", ".join("%s(%s)" % (x[0], ",".join(x[1])) for x in cppside) or "-")
                    where = F.loc(f, n)
                    if not match:
                        R.fail("X5m", inst, where, "C field %s is paired with a differently named C++ member (%s)" % (
                            cn, ", ".join(x[0] for x in cppside) or "none"), key="X5m|%s|%s|name" % (f["name"], cn))
                        continue
                    if match[0][1] != cidx:
                        R.fail("X5m", inst, where, "index order differs: C [%s] vs C++ (%s)" % (
                            ",".join(cidx), ",".join(match[0][1])), key="X5m|%s|%s|index" % (f["name"], cn))
                        continue
                    if want_role and role != want_role.group(1):
                        R.fail("X5m", inst, where, "%s is used as the %s part" % (cn, role),
                               key="X5m|%s|%s|part" % (f["name"], cn))
                        continue
                    R.ok("X5m", inst, where)
            missing = [x for x in fields if x not in covered]
            R.check("X5m", not missing, "%s(%s) covers all %d fields of %s" % (f["name"].split("::")[-1],
                    (cparam["t"] or "")[:40], len(fields), sname), F.loc(f),
                    "fields of %s not converted: %s" % (sname, ", ".join(missing)),
                    key="X5m|%s|%s|complete" % (f["name"], sname))


# frozen reviewed exceptions of X3 (C setter/getter pairs whose round trip is not an access-path identity)
X3_EXCEPTIONS = {
    "TB": "set_TB distributes tan(beta) over vd, vu at fixed v (vd = v cos b, vu = v sin b); get_TB returns vu/vd: "
          "checked structurally: the setter writes exactly {vd, vu} and the getter reads exactly {vd, vu}",
}


def _access_path(F, f, e, env, depth=0):
    """symbolic location denoted by lvalue/rvalue expression e inside f: (field names..., index terms...)"""
    from .render import Renderer
    e = strip_all(e)
    if e is None or depth > 6:
        return None
    k = e.get("k")
    if k == "MemberExpr" and e.get("mk") == "Field":
        base = _access_path(F, f, e["c"][0], env, depth + 1) if e.get("c") else ()
        if base is None:
            return None
        return base + (e["n"].split("::")[-1],)
    if k == "CXXThisExpr":
        return ()
    if k in ("CXXReinterpretCastExpr", "CXXStaticCastExpr"):
        return _access_path(F, f, e["c"][0], env, depth + 1)
    if k == "DeclRefExpr":
        if e.get("id") in env:
            return env[e["id"]]
        if e.get("rk") == "Param":
            return ()
        # a local that merely names (a cast of) the handle or a sub-object: follow its initialiser
        for n in walk(f["body"]):
            if n.get("k") == "DeclStmt":
                for d in n.get("decls", ()):
                    if d.get("id") == e.get("id") and d.get("init") is not None:
                        return _access_path(F, f, d["init"], env, depth + 1)
        return None
    if k == "UnaryOperator" and e.get("op") == "*":
        return _access_path(F, f, e["c"][0], env, depth + 1)
    if k == "CXXOperatorCallExpr" and e.get("op") in ("()", "[]"):
        base = _access_path(F, f, e["c"][1], env, depth + 1)
        if base is None:
            return None
        idx = []
        for a in e["c"][2:]:
            a0 = strip_all(a)
            if a0.get("k") == "DeclRefExpr" and a0.get("id") in env:
                idx.append(env[a0["id"]])
            elif a0.get("k") == "IntegerLiteral":
                idx.append(("lit", a0["v"]))
            elif "iv" in a0:
                idx.append(("lit", a0["iv"]))
            else:
                return None
        return base + (("idx",) + tuple(idx),)
    if k == "CXXMemberCallExpr" and e.get("mg") in F.functions:
        g = F.functions[e["mg"]]
        obj = call_object(e)
        base = _access_path(F, f, obj, env, depth + 1) if obj is not None else ()
        if base is None:
            return None
        genv = {}
        for p, a in zip(g["params"], call_args(e)):
            a0 = strip_all(a)
            if a0.get("k") == "DeclRefExpr" and a0.get("id") in env:
                genv[p["id"]] = env[a0["id"]]
            elif a0.get("k") == "IntegerLiteral":
                genv[p["id"]] = ("lit", a0["v"])
            else:
                genv[p["id"]] = ("expr",)
        body = g["body"].get("c", [])
        if len(body) == 1 and body[0].get("k") == "ReturnStmt" and body[0].get("c"):
            sub = _access_path(F, g, body[0]["c"][0], genv, depth + 1)
            if sub is None:
                return None
            return base + sub
        return None
    return None


def _setter_effect(F, f, env, depth=0):
    """[(written access path, value term)] of a straight-line setter body"""
    out = []
    for st in f["body"].get("c", []):
        st0 = strip_all(st)
        k = st0.get("k")
        if k == "DeclStmt" and all(d.get("init") is None or not any(is_call(x) and x.get("mg") in F.functions
                                                                     for x in walk(d["init"])) for d in st0.get("decls", ())):
            continue                     # local alias of the handle: no effect on the model
        if k in ("BinaryOperator",) and st0.get("op") == "=":
            path = _access_path(F, f, st0["c"][0], env)
            v = strip_all(st0["c"][1])
            val = env.get(v.get("id")) if v.get("k") == "DeclRefExpr" else None
            if val is None and v.get("k") == "BinaryOperator" and v.get("op") == "!=":
                l = strip_all(v["c"][0])
                if l.get("k") == "DeclRefExpr" and l.get("id") in env:
                    val = env[l["id"]]
            out.append((path, val))
        elif k == "CXXOperatorCallExpr" and st0.get("op") == "=":
            path = _access_path(F, f, st0["c"][1], env)
            v = strip_all(st0["c"][2])
            out.append((path, env.get(v.get("id")) if v.get("k") == "DeclRefExpr" else None))
        elif k == "CXXMemberCallExpr" and st0.get("mg") in F.functions and depth < 4:
            g = F.functions[st0["mg"]]
            obj = call_object(st0)
            base = _access_path(F, f, obj, env) if obj is not None else ()
            genv = {}
            for p, a in zip(g["params"], call_args(st0)):
                a0 = strip_all(a)
                if a0.get("k") == "DeclRefExpr" and a0.get("id") in env:
                    genv[p["id"]] = env[a0["id"]]
                elif a0.get("k") == "BinaryOperator" and a0.get("op") == "!=" and \
                        strip_all(a0["c"][0]).get("id") in env:
                    genv[p["id"]] = env[strip_all(a0["c"][0])["id"]]
                else:
                    genv[p["id"]] = None
            for path, val in _setter_effect(F, g, genv, depth + 1):
                out.append(((base or ()) + path if path is not None and base is not None else None, val))
        else:
            out.append((None, None))
    return out


def _fields_in(F, f, root=None, seen=None):
    """all field names read/written in f and its repo callees"""
    seen = seen if seen is not None else set()
    key = f["mg"] or f["name"]
    if key in seen:
        return set()
    seen.add(key)
    out = set()
    for n in walk(f["body"]):
        if n.get("k") == "MemberExpr" and n.get("mk") == "Field":
            out.add(n["sn"])
        if is_call(n) and n.get("mg") in F.functions:
            out |= _fields_in(F, F.functions[n["mg"]], None, seen)
    return out


def _check_pairing(F, R, ext):
    setters = {}
    getters = {}
    for k, f in ext.items():
        m = re.match(r"^gm2calc_mssmnofv_(set|get)_(\w+)$", f["name"])
        if m:
            (setters if m.group(1) == "set" else getters)[m.group(2)] = f
    for stem in sorted(set(setters) & set(getters)):
        sf, gf = setters[stem], getters[stem]
        where = F.loc(sf)
        # parameters: handle, indices..., value
        senv = {}
        for i, p in enumerate(sf["params"][1:-1]):
            senv[p["id"]] = ("index", i)
        senv[sf["params"][-1]["id"]] = ("value",)
        genv = {}
        for i, p in enumerate(gf["params"][1:]):
            genv[p["id"]] = ("index", i)
        eff = _setter_effect(F, sf, senv)
        # getter: return path
        rets = [n for n in walk(gf["body"]) if n.get("k") == "ReturnStmt" and n.get("c")]
        gpath = None
        for r in rets:
            e = strip_all(r["c"][0])
            if e.get("k") == "DeclRefExpr" and e.get("rk") == "Var":
                # value assigned inside try
                for n in walk(gf["body"]):
                    if n.get("k") == "BinaryOperator" and n.get("op") == "=" and strip_all(n["c"][0]).get("id") == e["id"]:
                        gpath = _access_path(F, gf, n["c"][1], genv)
            else:
                gpath = _access_path(F, gf, r["c"][0], genv)
        simple = len(eff) == 1 and eff[0][0] is not None and eff[0][1] == ("value",)
        if stem in X3_EXCEPTIONS:
            # structural part of the frozen reason: same field set on both sides
            cs = F.functions.get(next((c["mg"] for c in F.calls[sf["mg"]] if c.get("mg") in F.functions), None))
            cg = F.functions.get(next((c["mg"] for c in F.calls[gf["mg"]] if c.get("mg") in F.functions), None))
            ws = {p[-1] if isinstance(p[-1], str) else p[-2] for p, v in _setter_effect(F, sf, senv) if p}
            rs = _fields_in(F, cg) if cg else set()
            R.check("X3", ws == {"vd", "vu"} and {"vd", "vu"} <= rs, "%s [frozen: %s]" % (stem, X3_EXCEPTIONS[stem][:60]),
                    where, "set_%s writes %s, get_%s reads %s" % (stem, sorted(ws), stem, sorted(rs)),
                    key="X3|%s|exception" % stem)
            continue
        if not simple or gpath is None:
            R.fail("X3", stem, where, "setter/getter are not plain accessors of one location (setter effect %s, "
                   "getter path %s) and the pair is not a reviewed exception" % (eff, gpath), key="X3|%s|shape" % stem)
            continue
        R.check("X3", eff[0][0] == gpath, "%s: %s" % (stem, "/".join(str(x) for x in gpath)), where,
                "setter writes %s but getter reads %s" % (eff[0][0], gpath), key="X3|%s|path" % stem)
