"""C17 -- the C interface is a faithful, exception-tight mirror of the C++ one."""
import re

from .facts import walk, kids, strip_all, strip, call_args, call_object, is_call
from .structure import Struct, always_exits
from .throwmodel import ThrowModel, _unq

PID = "C17"
LEVEL = "proof"

C_HEADERS = ("include/gm2calc/MSSMNoFV_onshell.h", "include/gm2calc/THDM.h", "include/gm2calc/SM.h",
             "include/gm2calc/gm2_1loop.h", "include/gm2calc/gm2_2loop.h", "include/gm2calc/gm2_error.h",
             "include/gm2calc/gm2_uncertainty.h", "src/gm2_uncertainty_helpers.h")

ERR_MAP = {"gm2calc::EInvalidInput": "gm2calc_InvalidInput",
           "gm2calc::EPhysicalProblem": "gm2calc_PhysicalProblem",
           None: "gm2calc_UnknownError"}

# X4: C calculation wrappers live in these files
CALC_FILES = ("src/MSSMNoFV/gm2_1loop_c.cpp", "src/MSSMNoFV/gm2_2loop_c.cpp", "src/MSSMNoFV/gm2_uncertainty_c.cpp",
              "src/THDM/gm2_1loop_c.cpp", "src/THDM/gm2_2loop_c.cpp", "src/THDM/gm2_uncertainty_c.cpp")


def _ref_id(n):
    n = strip_all(n)
    if n is not None and n.get("k") == "DeclRefExpr":
        return n.get("id")
    return None


def _uses(root, decl_id):
    return [n for n in walk(root) if n.get("k") == "DeclRefExpr" and n.get("id") == decl_id]


def run(F, R, tier, M=None):
    M = M or ThrowModel(F)
    R.explanation = (
        "Decides, from the source alone, that no C++ exception can leave any extern \"C\" definition: the set of "
        "exception types that may propagate out of each function is the least fixed point over the resolved "
        "call graph (throw expressions, a frozen table of throwing external callees, try/catch absorption by "
        "class hierarchy, std::function targets resolved by type). The argument never mentions the model state, "
        "so it holds for every call history incl. an uninitialised model and out-of-range enum values. "
        "Structural rules decide the bounded string copy (incl. len = 0), unmodified same-stem forwarding of "
        "each calculation wrapper (=> bit-identical result), the error-code mapping, enum mirrors, and that "
        "free is a bare delete (null-safe).")
    R.assumptions = [
        "A1: allocation failure (bad_alloc/length_error) is out of scope",
        "A2: external callees behave as classified (throwing table T2 / nothrow-by-assumption classes T3, "
        "listed under coverage.analysed.external_callee_classes)",
        "A3: NDEBUG build: Eigen assertions are compiled out",
        "default iostream exception mask (nobody calls basic_ios::exceptions: checked by the throw table)"]
    R.undecided = ["bit-identity as a run-time fact (decided as unmodified forwarding)",
                   "termination by signals other than uncaught exceptions (e.g. null handle dereference by the caller)"]
    ext = {k: f for k, f in F.functions.items() if f.get("externC")}
    R.analysed["extern_C_definitions"] = len(ext)
    R.analysed["functions_in_fact_base"] = len(F.functions)
    R.analysed["throw_model_rounds"] = M.rounds
    R.analysed["external_callee_classes"] = {k: len(v) for k, v in M.ext_classes.items()}

    # ---- X1 tightness ---------------------------------------------------
    R.rule("X1", "may_throw(f) is empty for every extern \"C\" definition (state-independent fixed point "
                 "over the call graph with try/catch absorption)", min_instances=130)
    for k, f in sorted(ext.items()):
        mt = M.mt[k]
        unknown = [t for t in mt if t.startswith("UNKNOWN:")]
        if unknown:
            R.broken("X1: %s reaches an unclassified external callee: %s" % (f["name"], unknown))
        if mt:
            t = sorted(mt)[0]
            chain = M.witness(k, t)
            R.fail("X1", f["name"], F.loc(f), "%s can escape: %s" % (", ".join(sorted(mt)), " -> ".join(chain)),
                   key="X1|%s" % f["name"], facts=dict(may_throw=sorted(mt), witness=chain))
        else:
            has_handler = any(n.get("k") == "CXXTryStmt" for n in walk(f["body"]))
            R.ok("X1", f["name"], F.loc(f), detail="handler" if has_handler else "callee closure cannot throw")
        if k in M.terminates:
            R.fail("X1", f["name"] + " (noexcept)", F.loc(f), "exception reaches noexcept boundary",
                   key="X1t|%s" % f["name"])

    R.rule("X1d", "every function declared in the C headers has an analysed extern \"C\" definition", 130)
    for k, d in sorted(F.fdecls.items()):
        if d["file"] in C_HEADERS and d.get("externC"):
            R.check("X1d", k in ext, d["name"], "%s:%s" % (d["file"], d["line"]),
                    "declared in the C API but no definition was analysed", key="X1d|%s" % d["name"])

    # ---- X2 bounded copy ---------------------------------------------------
    R.rule("X2", "every write through a caller-supplied char* is bounded by len-1 and guarded against len == 0", 2)
    for k, f in sorted(ext.items()):
        cps = [p for p in f["params"] if p.get("ptr") and not p.get("cptr") and _unq(p["t"]) == "char *"]
        for p in cps:
            _check_bounded_copy(F, R, f, p)

    # ---- X4 forwarding -------------------------------------------------------
    R.rule("X4", "each C calculation wrapper returns, unmodified, the result of exactly one call to the same-stem "
                 "gm2calc:: function on the const-cast handle with the remaining arguments in order", 25)
    for k, f in sorted(ext.items()):
        if f["file"] in CALC_FILES and f["name"].startswith("gm2calc_"):
            _check_forwarding(F, R, f)

    # ---- X5h error mapping ------------------------------------------------------
    R.rule("X5h", "handlers map EInvalidInput/EPhysicalProblem/... to the corresponding gm2calc_error code, "
                  "derived classes are not shadowed, success leaves gm2calc_NoError, constructors null the handle "
                  "on failure", 5)
    for k, f in sorted(ext.items()):
        if _unq(f["ret"]) == "gm2calc_error":
            _check_error_mapping(F, R, M, f)

    # ---- X6 free ------------------------------------------------------------------
    R.rule("X6", "the free functions consist of a delete of the cast handle only (delete of null is harmless)", 2)
    for k, f in sorted(ext.items()):
        if f["name"].endswith("_free"):
            body = f["body"].get("c", [])
            ok = len(body) == 1 and body[0].get("k") == "CXXDeleteExpr" and \
                _ref_id(_peel_casts(body[0]["c"][0])) == f["params"][0]["id"] and not body[0].get("array")
            R.check("X6", ok, f["name"], F.loc(f), "free function does more than `delete cast(handle)`",
                    key="X6|%s" % f["name"])

    # ---- X5e enum mirrors -------------------------------------------------------------
    R.rule("X5e", "C and C++ enumerators that are converted by static_cast have equal values", 6)
    c_en = _enum(F, "gm2calc_THDM_yukawa_type")
    cpp_en = _enum(F, "gm2calc::thdm::Yukawa_type")
    cn = {re.sub(r"^gm2calc_THDM_", "", e["name"]): e["v"] for e in c_en["values"]}
    pn = {e["name"]: e["v"] for e in cpp_en["values"]}
    for name in sorted(set(cn) | set(pn)):
        R.check("X5e", cn.get(name) == pn.get(name), "Yukawa_type::" + name,
                "%s:%s" % (c_en["file"], c_en["line"]),
                "C value %s != C++ value %s" % (cn.get(name), pn.get(name)), key="X5e|" + name)


def _enum(F, name):
    for e in F.enums.values():
        if e["name"] == name or e.get("tname") == name:
            return e
    from .extract import AnalysisBroken
    raise AnalysisBroken("enum %s not found" % name)


def _peel_casts(n):
    while n is not None:
        n = strip_all(n)
        if n.get("k") in ("CXXReinterpretCastExpr", "CXXStaticCastExpr", "CStyleCastExpr", "CXXConstCastExpr"):
            n = n["c"][0]
            continue
        return n


def _check_bounded_copy(F, R, f, p):
    S = Struct(f)
    # the unsigned length parameter
    lens = [q for q in f["params"] if _unq(q["t"]) in ("unsigned int", "unsigned long", "int", "unsigned")]
    uses = _uses(f["body"], p["id"])
    writes = 0
    for u in uses:
        par = S.parent(u)
        while par is not None and par.get("k") in ("ImplicitCastExpr", "ParenExpr"):
            u, par = par, S.parent(par)
        k = par.get("k")
        if k == "BinaryOperator" and par.get("op") in ("==", "!="):
            continue   # null test
        inst = "%s(%s)" % (f["name"], p["name"])
        if is_call(par) and (par.get("fn") or "").endswith("basic_string<char>::copy"):
            writes += 1
            args = call_args(par)
            cnt = strip_all(args[1]) if len(args) > 1 else None
            L = None
            ok_shape = False
            if cnt is not None and cnt.get("k") == "BinaryOperator" and cnt.get("op") == "-":
                a, b = strip_all(cnt["c"][0]), strip_all(cnt["c"][1])
                if b.get("k") == "IntegerLiteral" and b.get("v") == "1" and a.get("k") == "DeclRefExpr" and \
                        a.get("id") in [q["id"] for q in lens]:
                    ok_shape = True
                    L = a["id"]
            if not ok_shape:
                R.fail("X2", inst, F.loc(f, par), "copy count is not `len - 1` of the length parameter",
                       key="X2|%s|count" % f["name"])
                continue
            # len == 0 guard dominating the copy
            guarded = False
            for cond, pol in [g for g in S.guards(par) if g[0] != "switch"]:
                if pol is False and _cond_has_zero_test(cond, L):
                    guarded = True
            R.check("X2", guarded, inst + " copy(len-1)", F.loc(f, par),
                    "`len - 1` wraps around for len == 0: no dominating `len == 0` early return",
                    key="X2|%s|len0" % f["name"])
            continue
        if k == "ArraySubscriptExpr":
            writes += 1
            idx = strip_all(par["c"][1])
            ok = is_call(idx) and (idx.get("fn") or "").endswith("basic_string<char>::copy") and \
                _ref_id(call_args(idx)[0]) == p["id"]
            R.check("X2", ok, inst + " terminator", F.loc(f, par),
                    "index of the terminating write is not the bounded copy's return value",
                    key="X2|%s|index" % f["name"])
            continue
        if is_call(par) and (par.get("fn") in ("strcpy", "strcat", "sprintf", "memcpy", "strncpy", "std::strcpy",
                                               "std::memcpy", "std::copy")):
            R.fail("X2", inst, F.loc(f, par), "unbounded/unchecked write via %s" % par.get("fn"),
                   key="X2|%s|%s" % (f["name"], par.get("fn")))
            continue
        R.broken("X2: unrecognised use of caller buffer %s in %s at line %s (%s)" % (p["name"], f["name"],
                                                                                      par.get("l"), k))
    if writes == 0:
        R.broken("X2: no write through %s found in %s" % (p["name"], f["name"]))


def _cond_has_zero_test(cond, lid):
    """cond is a disjunction containing `len == 0` (or !len, len < 1)"""
    cond = strip_all(cond)
    if cond.get("k") == "BinaryOperator" and cond.get("op") == "||":
        return any(_cond_has_zero_test(c, lid) for c in cond["c"])
    if cond.get("k") == "BinaryOperator" and cond.get("op") in ("==", "<", "<="):
        a, b = strip_all(cond["c"][0]), strip_all(cond["c"][1])
        if a.get("k") == "DeclRefExpr" and a.get("id") == lid and b.get("k") == "IntegerLiteral":
            return (cond["op"], b.get("v")) in (("==", "0"), ("<", "1"), ("<=", "0"))
        if b.get("k") == "DeclRefExpr" and b.get("id") == lid and a.get("k") == "IntegerLiteral":
            return (cond["op"], a.get("v")) == ("==", "0")
    if cond.get("k") == "UnaryOperator" and cond.get("op") == "!":
        return _ref_id(cond["c"][0]) == lid
    return False


def _check_forwarding(F, R, f):
    name = f["name"]
    m = re.match(r"^gm2calc_(mssmnofv|thdm)_(.*)$", name)
    if not m:
        R.broken("X4: unexpected wrapper name %s" % name)
    model, stem = m.group(1), m.group(2)
    stem = re.sub(r"(_amu[12]L)+$", "", stem)
    cls = {"mssmnofv": "gm2calc::MSSMNoFV_onshell", "thdm": "gm2calc::THDM"}[model]
    # calls to gm2calc:: functions in the body
    calls = [n for n in walk(f["body"]) if is_call(n) and (n.get("fn") or "").startswith("gm2calc::")
             and n.get("k") == "CallExpr"]
    where = F.loc(f)
    if len(calls) != 1:
        R.fail("X4", name, where, "%d calls to gm2calc:: functions (expected exactly one)" % len(calls),
               key="X4|%s|ncalls" % name)
        return
    c = calls[0]
    callee = c["fn"].split("::")[-1]
    if callee != stem:
        R.fail("X4", name, F.loc(f, c), "forwards to %s, not to the same-stem function gm2calc::%s" % (c["fn"], stem),
               key="X4|%s|stem" % name)
        return
    args = call_args(c)
    # first argument: *reinterpret_cast<const T*>(model)
    a0 = strip_all(args[0])
    ok0 = a0.get("k") == "UnaryOperator" and a0.get("op") == "*"
    if ok0:
        cast = strip_all(a0["c"][0])
        ok0 = cast.get("k") == "CXXReinterpretCastExpr" and (cast.get("t") or "").strip() == "const %s *" % cls and \
            _ref_id(cast["c"][0]) == f["params"][0]["id"]
    if not ok0:
        R.fail("X4", name, F.loc(f, c), "first argument is not *reinterpret_cast<const %s*>(handle)" % cls,
               key="X4|%s|handle" % name)
        return
    rest = [_ref_id(a) for a in args[1:]]
    want = [p["id"] for p in f["params"][1:]]
    if rest != want:
        R.fail("X4", name, F.loc(f, c), "remaining arguments are not the wrapper's parameters in order, unmodified",
               key="X4|%s|args" % name)
        return
    # the returned value is the call result, unmodified
    S = Struct(f)
    rets = [n for n in walk(f["body"]) if n.get("k") == "ReturnStmt"]
    ok = True
    why = ""
    for r in rets:
        rv = strip_all(r["c"][0]) if r.get("c") else None
        if rv is c:
            continue
        if rv is not None and rv.get("k") == "DeclRefExpr" and rv.get("rk") == "Var":
            vid = rv["id"]
            # all assignments to the variable
            assigns = [n for n in walk(f["body"]) if n.get("k") == "BinaryOperator" and n.get("op") == "="
                       and _ref_id(n["c"][0]) == vid]
            other = [n for n in walk(f["body"]) if n.get("k") in ("CompoundAssignOperator", "UnaryOperator")
                     and n.get("op") not in ("*", "&", "-", "!", "+") and any(_ref_id(x) == vid for x in n.get("c", []))]
            if len(assigns) != 1 or strip_all(assigns[0]["c"][1]) is not c or other:
                ok, why = False, "returned variable is not assigned exactly once from the forwarded call"
            # initial value must be NaN (error signal)
            for n in walk(f["body"]):
                if n.get("k") == "DeclStmt":
                    for d in n["decls"]:
                        if d.get("id") == vid:
                            ini = strip_all(d.get("init")) if d.get("init") else None
                            if not (ini is not None and is_call(ini) and (ini.get("fn") or "").endswith("quiet_NaN")):
                                ok, why = False, "error value of the wrapper is not NaN"
        else:
            ok, why = False, "return value is not the forwarded call result"
    if not rets:
        ok, why = False, "no return statement"
    R.check("X4", ok, name, F.loc(f, c), why, key="X4|%s|return" % name, detail="-> " + c["fn"])


def _check_error_mapping(F, R, M, f):
    name = f["name"]
    tries = [n for n in walk(f["body"]) if n.get("k") == "CXXTryStmt"]
    if len(tries) != 1:
        R.fail("X5h", name, F.loc(f), "%d try blocks (expected one)" % len(tries), key="X5h|%s|try" % name)
        return
    t = tries[0]
    handlers = t["c"][1:]
    # the error variable
    rets = [n for n in walk(f["body"]) if n.get("k") == "ReturnStmt"]
    evar = None
    for r in rets:
        rv = strip_all(r["c"][0])
        if rv.get("k") == "DeclRefExpr" and rv.get("rk") == "Var":
            evar = rv["id"]
    if evar is None:
        R.fail("X5h", name, F.loc(f), "no error variable returned", key="X5h|%s|var" % name)
        return

    def assigned_codes(root):
        out = []
        for n in walk(root):
            if n.get("k") == "BinaryOperator" and n.get("op") == "=" and _ref_id(n["c"][0]) == evar:
                v = strip_all(n["c"][1])
                out.append(v.get("n") if v.get("k") == "DeclRefExpr" else None)
        return out

    # initial value and success path
    init_ok = False
    for n in walk(f["body"]):
        if n.get("k") == "DeclStmt":
            for d in n["decls"]:
                if d.get("id") == evar and d.get("init") is not None:
                    init_ok = strip_all(d["init"]).get("n") == "gm2calc_NoError"
    succ = assigned_codes(t["c"][0])
    R.check("X5h", init_ok and all(c == "gm2calc_NoError" for c in succ), name + " success",
            F.loc(f, t), "success path does not leave gm2calc_NoError", key="X5h|%s|success" % name)
    # handler bodies
    seen = []
    for h in handlers:
        ct = _unq(h.get("ct")) if h.get("ct") else None
        codes = assigned_codes(h["body"])
        want = ERR_MAP.get(ct, "gm2calc_UnknownError")
        R.check("X5h", codes == [want], "%s catch(%s)" % (name, ct or "..."), F.loc(f, h),
                "handler assigns %s, expected %s" % (codes, want), key="X5h|%s|%s" % (name, ct))
        for prev in seen:
            if prev is None or (ct is not None and prev in M.ancestors(ct)):
                R.fail("X5h", "%s catch(%s) order" % (name, ct or "..."), F.loc(f, h),
                       "handler is shadowed by the earlier catch(%s)" % (prev or "..."),
                       key="X5h|%s|%s|shadow" % (name, ct))
        seen.append(ct)
        # constructors: handle nulled
        if "new_with" in name:
            nulled = False
            for n in walk(h["body"]):
                if n.get("k") == "BinaryOperator" and n.get("op") == "=":
                    lhs = strip_all(n["c"][0])
                    rhs = strip_all(n["c"][1])
                    if lhs.get("k") == "UnaryOperator" and lhs.get("op") == "*" and \
                            _ref_id(lhs["c"][0]) == f["params"][0]["id"] and rhs.get("k") == "CXXNullPtrLiteralExpr":
                        nulled = True
            R.check("X5h", nulled, "%s catch(%s) nulls handle" % (name, ct or "..."), F.loc(f, h),
                    "handle is not set to null on failure", key="X5h|%s|%s|null" % (name, ct))
    # completeness: each documented class that the try body may raise has its own handler
    inner = M.thrown(f, t["c"][0], None)
    for ty in sorted(inner):
        if ty.startswith("UNKNOWN:"):
            continue
        anc = M.ancestors(ty)
        for doc in ("gm2calc::EInvalidInput", "gm2calc::EPhysicalProblem"):
            if doc in anc:
                first = None
                for h in handlers:
                    if M.catches(h.get("ct"), ty):
                        first = _unq(h.get("ct")) if h.get("ct") else None
                        break
                R.check("X5h", first == doc, "%s raises %s" % (name, ty), F.loc(f, t),
                        "%s thrown in the try body is first caught by catch(%s), not by catch(%s)" % (ty, first, doc),
                        key="X5h|%s|complete|%s" % (name, doc))
