"""C01 (K rules) -- the special-function kernels of src/gm2_dilog.cpp, decided from the source constants:

K1  every range-reduction branch of the real dilogarithm is an instance  Li2(x) = r(x) + s Li2(Y(x))  of the
    functional equations: d/dx of both sides agree identically (rational identity over log|x|, log|1-x|),
    Y maps the branch interval into [0, 1/2], and both sides agree at one boundary point of the branch
    (special values Li2(0) = 0, Li2(1/2) = pi^2/12 - log(2)^2/2, Li2(1) = pi^2/6, Li2(-1) = -pi^2/12).
K2  the rational kernel  y P(y)/Q(y)  (coefficients rounded to double, as compiled) differs from Li2(y) on
    [0, 1/2] by less than 1e-13 relative: E(y) = P(y) - Q(y) L_N(y)/y is a polynomial with exact rational
    coefficients; sup|E| and inf|Q| are bounded rigorously by Taylor re-expansion on sub-intervals; the
    series tail of Li2 is bounded by 2^-N/N^2.
K3  the same for both kernels of Cl2 on (0, pi/2) and [pi/2, pi] against the Bernoulli-number series of Cl2;
    the constants by which the argument is reflected (2 pi as p0 + p1) are accurate to 1e-18.
K4  the coefficients of the complex dilogarithm's series are B_2n/(2n+1)! to 1 ulp and its truncation error for
    |u| <= 1.26 (u = -log(1-z) after the transformation to |z| <= 1, Re z <= 1/2) is below 1e-13.
No floating-point evaluation of the library takes place: all bounds are computed in exact rational arithmetic
from the literals in the source."""
import math
from fractions import Fraction as Fr

from .terms import Evaluator, show, subterms
from .poly import Poly, Rat, NotPolynomial, to_rat
from .extract import AnalysisBroken
from .closedform import N as NUM, diff_term

FILE = "src/gm2_dilog.cpp"


# ---- exact polynomial tools (coefficient lists, lowest order first) -------------------------------------

def pmul(a, b):
    r = [Fr(0)] * (len(a) + len(b) - 1)
    for i, x in enumerate(a):
        if x:
            for j, y in enumerate(b):
                r[i + j] += x * y
    return r


def psub(a, b):
    n = max(len(a), len(b))
    a = list(a) + [Fr(0)] * (n - len(a))
    b = list(b) + [Fr(0)] * (n - len(b))
    return [x - y for x, y in zip(a, b)]


def pshift(c, a):
    """coefficients of c(a + t)"""
    c = list(c)
    n = len(c)
    for i in range(n - 1):
        for j in range(n - 2, i - 1, -1):
            c[j] += a * c[j + 1]
    return c


def sup_abs(c, a, b, parts):
    """rigorous upper bound of |c(y)| on [a, b]"""
    h = (b - a) / parts
    worst = Fr(0)
    for i in range(parts):
        s = pshift(c, a + h * (i + Fr(1, 2)))
        pw, bd = Fr(1), Fr(0)
        for x in s:
            bd += abs(x) * pw
            pw *= h / 2
        worst = max(worst, bd)
    return worst


def inf_abs(c, a, b, parts):
    """rigorous lower bound of |c(y)| on [a, b] (may be <= 0 if c has a zero or the partition is too coarse)"""
    h = (b - a) / parts
    best = None
    for i in range(parts):
        s = pshift(c, a + h * (i + Fr(1, 2)))
        pw, rest = h / 2, Fr(0)
        for x in s[1:]:
            rest += abs(x) * pw
            pw *= h / 2
        lo = abs(s[0]) - rest
        best = lo if best is None else min(best, lo)
    return best


def as_double(q):
    """the double nearest to the decimal literal (what the compiler stores)"""
    return Fr(float(q))


def bernoulli(n_max):
    B = [Fr(0)] * (n_max + 1)
    A = [Fr(0)] * (n_max + 1)
    for m in range(n_max + 1):
        A[m] = Fr(1, m + 1)
        for j in range(m, 0, -1):
            A[j - 1] = j * (A[j - 1] - A[j])
        B[m] = A[0]
    return B           # B[1] = +1/2 convention; only even indices are used


PI_LO = Fr(3141592653589793238462643383279502884197, 10 ** 39)
PI_HI = PI_LO + Fr(1, 10 ** 39)
LN2_LO = Fr(693147180559945309417232121458176568075, 10 ** 39)
LN2_HI = LN2_LO + Fr(1, 10 ** 39)


def univariate(t, var):
    """coefficient list of a term that is a polynomial in ('sym', var) with numeric coefficients"""
    r = to_rat(t)
    if not r.d.is_const():
        raise NotPolynomial("not a polynomial")
    d = r.d.const_value()
    x = ("sym", var)
    deg = r.n.degree_in(x)
    out = []
    for k in range(deg + 1):
        c = r.n.coeff_of(x, k)
        if c.t and not c.is_const():
            raise NotPolynomial("non-numeric coefficient")
        out.append((c.const_value() if c.t else Fr(0)) / d)
    return out


def split_kernel(v):
    """v = R + ((S*Y)*P)/Q  ->  (R, S, Y, P term, Q term); the kernel addend is the one whose denominator is a
    polynomial with long decimal coefficients"""
    if v[0] == "/" and v[1][0] == "*":
        R, T = NUM(0), v
    elif v[0] == "+" and v[2][0] == "/":
        R, T = v[1], v[2]
    else:
        raise NotPolynomial("unexpected shape of a kernel branch: %s" % show(v)[:80])
    num, Q = T[1], T[2]
    if num[0] != "*" or num[1][0] != "*" and True is False:
        raise NotPolynomial("kernel numerator")
    SY, P = num[1], num[2]
    if SY[0] == "*" and SY[1][0] in ("num", "neg"):
        S, Y = SY[1], SY[2]
    else:
        S, Y = NUM(1), SY
    return R, S, Y, P, Q


def run_kernels(F, R):
    fs = {(f["name"].split("::")[-1], f["params"][0]["t"]): f for f in F.functions.values()
          if f["file"] == FILE and f["params"]}
    need = [("dilog", "double"), ("dilog", "const std::complex<double> &"), ("clausen_2", "double")]
    for n in need:
        if n not in fs:
            raise AnalysisBroken("anchor %s(%s) not found in %s" % (n[0], n[1], FILE))
    from .rules_c11 import _cases
    # file-local helpers (a kernel split off into its own function) are looked through
    E = Evaluator(F, inline=lambda n, g: g.get("file") == "src/gm2_dilog.cpp" and "(anonymous namespace)" in str(g.get("name"))
                  and not str(g.get("name")).split("::")[-1].startswith(("horner", "log1p")), max_depth=3)

    # =================================================================== real dilogarithm
    f = fs[("dilog", "double")]
    v, fr = E.function_value(f)
    cases = _cases(v, [])
    R.rule("K1", "real dilog: every range-reduction branch is Li2(x) = r(x) + s Li2(Y(x)) (derivatives agree identically, "
                 "Y maps the branch into [0, 1/2], values agree at a boundary point)", 6)
    R.rule("K2", "real dilog: |y P(y)/Q(y) - Li2(y)| <= 1e-13 Li2(y) on [0, 1/2] for the double-rounded coefficients "
                 "(rigorous bound in exact rational arithmetic)", 1)
    branches = []
    for fa, val in cases:
        true = [c for c, t in fa if t]
        if any(c[0] == "cmp" and c[1] == "==" for c in true):
            continue
        try:
            branches.append((fa, val) + split_kernel(val))
        except NotPolynomial as e:
            R.soft_broken("K1: %s" % e)
    if len(branches) != 6:
        R.soft_broken("K1: %d kernel branches found in dilog(double), expected 6" % len(branches))
        return
    # kernel from the branch with Y = x
    base = [b for b in branches if b[4] == ("sym", "x")]
    if len(base) != 1:
        R.soft_broken("K2: identity branch (y = x) not found")
        return
    Pc = [as_double(c) for c in univariate(base[0][5], "x")]
    Qc = [as_double(c) for c in univariate(base[0][6], "x")]
    Nser = 64
    L1 = [Fr(1, k * k) for k in range(1, Nser + 1)]              # Li2(y)/y = sum y^(k-1)/k^2
    Epoly = psub(Pc, pmul(Qc, L1))
    half = Fr(1, 2)
    e_sup = sup_abs(Epoly, Fr(0), half, 64)
    q_inf = inf_abs(Qc, Fr(0), half, 16)
    q_sup = sup_abs(Qc, Fr(0), half, 4)
    tail = Fr(1, 2 ** Nser) / (Nser * Nser) * 2                  # sum_{k>N} y^(k-1)/k^2 <= 2^-(N-1)/N^2
    ok = q_inf > 0
    err = (e_sup + q_sup * tail) / q_inf if ok else None         # |P/Q - Li2(y)/y|, and Li2(y)/y >= 1
    R.check("K2", ok and err <= Fr(1, 10 ** 13), "dilog kernel [%d/%d]: |P/Q - Li2(y)/y| <= %.2e on [0, 1/2] (inf|Q| = %.3f)"
            % (len(Pc) - 1, len(Qc) - 1, float(err) if err is not None else float("nan"), float(q_inf)), F.loc(f),
            "the rational kernel of dilog(double) deviates from Li2 by up to %.2e relative on [0, 1/2] (> 1e-13)%s"
            % (float(err) if err is not None else float("nan"), "" if ok else "; its denominator may vanish there"),
            key="K2|dilog")

    # K1: functional equations
    for fa, val, Rt, S, Y, Pt, Qt in branches:
        tag = " && ".join(("" if t else "!") + show(c) for c, t in fa if c[0] == "cmp" and c[1] in ("<", "<=")) or "x >= 2"
        lo, hi = branch_interval(fa)
        inst = "dilog branch %s <= x <= %s: y = %s" % (lo, hi, show(Y))
        try:
            # the kernel of this branch is the same rational function of Y
            same = (univariate(_subst(Pt, Y, ("sym", "__y")), "__y") == univariate(base[0][5], "x") and
                    univariate(_subst(Qt, Y, ("sym", "__y")), "__y") == univariate(base[0][6], "x"))
            s_val = to_rat(S)
            s_num = s_val.n.const_value() / s_val.d.const_value()
            # (i) Y maps the interval into [0, 1/2]
            rng = mobius_range(Y, lo, hi)
            in_range = rng is not None and rng[0] >= 0 and rng[1] <= half
            # (ii) d/dx [ r + s Li2(Y) ] == d/dx Li2(x) = -log(1-x)/x
            x = ("sym", "x")
            dli = lambda u: ("neg", ("/", ("call", "log", (("-", NUM(1), u),)), u))
            lhs = ("+", diff_term(_log1p(Rt), "x"), ("*", ("*", S, dli(Y)), diff_term(Y, "x")))
            resid = ("-", lhs, dli(x))
            zero = log_normal(resid, lo, hi).is_zero()
            # (iii) anchor at a boundary point
            anch = anchor_ok(Rt, s_num, Y, lo, hi)
            R.check("K1", same and in_range and zero and anch, inst, F.loc(f),
                    "%s: %s" % (inst, "; ".join(m for c, m in ((same, "kernel differs from the y = x branch"),
                                                                  (in_range, "y leaves [0, 1/2] (range %s)" % (rng,)),
                                                                  (zero, "d/dx[r + s Li2(y)] != d/dx Li2(x)"),
                                                                  (anch, "value at the branch boundary differs from Li2")) if not c)),
                    key="K1|%s" % show(Y))
        except (NotPolynomial, ZeroDivisionError) as e:
            R.fail("K1", inst, F.loc(f), "branch could not be analysed: %s" % str(e)[:120], key="K1|%s" % show(Y))

    _clausen(F, R, fs[("clausen_2", "double")], E)
    _complex_dilog(F, R, fs[("dilog", "const std::complex<double> &")])


# ---- helpers for K1 --------------------------------------------------------------------------------------

def _subst(t, old, new):
    if t == old:
        return new
    if not isinstance(t, tuple) or not t or t[0] in ("num", "sym"):
        return t
    if t[0] == "call":
        return ("call", t[1], tuple(_subst(a, old, new) for a in t[2]))
    return (t[0],) + tuple(_subst(x, old, new) if isinstance(x, tuple) else x for x in t[1:])


def _log1p(t):
    """log1p(u) -> log(1 + u)"""
    if not isinstance(t, tuple) or not t or t[0] in ("num", "sym"):
        return t
    if t[0] == "call":
        args = tuple(_log1p(a) for a in t[2])
        if str(t[1]).split("::")[-1] == "log1p" and len(args) == 1:
            return ("call", "log", (("+", NUM(1), args[0]),))
        return ("call", t[1], args)
    return (t[0],) + tuple(_log1p(x) if isinstance(x, tuple) else x for x in t[1:])


def branch_interval(facts):
    """[lo, hi] of x from the comparison facts of a branch (None = unbounded)"""
    lo, hi = None, None
    for c, t in facts:
        if c[0] != "cmp" or c[1] not in ("<", "<="):
            continue
        if c[2] == ("sym", "x") and c[3][0] == "num":          # x < a
            a = c[3][1]
            if t:
                hi = a if hi is None else min(hi, a)
            else:
                lo = a if lo is None else max(lo, a)
        elif c[3] == ("sym", "x") and c[2][0] == "num":        # a < x
            a = c[2][1]
            if t:
                lo = a if lo is None else max(lo, a)
            else:
                hi = a if hi is None else min(hi, a)
    return lo, hi


def _eval_rat(r, xval):
    """value of a rational function of x at a rational point, or its limit at +-infinity"""
    x = ("sym", "x")
    if xval in ("+inf", "-inf"):
        dn, dd = r.n.degree_in(x), r.d.degree_in(x)
        if dn > dd:
            return None
        if dn < dd:
            return Fr(0)
        return r.n.coeff_of(x, dn).const_value() / r.d.coeff_of(x, dd).const_value()
    n = r.n.subs({x: Poly.const(xval)})
    d = r.d.subs({x: Poly.const(xval)})
    if d.is_zero():
        return None
    return (n.const_value() if n.t else Fr(0)) / d.const_value()


def mobius_range(Y, lo, hi):
    """range of a Moebius function of x on [lo, hi] (monotone when the pole is outside)"""
    r = to_rat(Y)
    x = ("sym", "x")
    if r.n.degree_in(x) > 1 or r.d.degree_in(x) > 1:
        return None
    a = _eval_rat(r, lo if lo is not None else "-inf")
    b = _eval_rat(r, hi if hi is not None else "+inf")
    if a is None or b is None:
        return None
    # pole inside?
    if r.d.degree_in(x) == 1:
        c1 = r.d.coeff_of(x, 1).const_value()
        c0 = r.d.coeff_of(x, 0)
        pole = -(c0.const_value() if c0.t else Fr(0)) / c1
        if (lo is None or pole > lo) and (hi is None or pole < hi):
            return None
    return (min(a, b), max(a, b))


def log_normal(t, lo, hi):
    """Rat of a term whose logarithms have arguments that are products of powers of x and (1 - x): every log is
    rewritten as a combination of LX = log|x| and L1 = log|1 - x| (valid on an interval that contains neither 0 nor 1
    in its interior), so that functional-equation identities become rational identities"""
    LX, L1 = Poly.atom(("LX",)), Poly.atom(("L1",))
    x = ("sym", "x")

    def atomize(u):
        if u[0] == "call" and str(u[1]).split("::")[-1] == "log" and len(u[2]) == 1:
            a = to_rat(u[2][0], atomize=atomize)
            res = Poly()
            for pol, sgn in ((a.n, 1), (a.d, -1)):
                e_x, e_1, rest = _factor_x_1mx(pol)
                if rest is None:
                    raise NotPolynomial("log argument is not a product of x and 1-x: %s" % show(u)[:60])
                res = res + LX.scale(sgn * e_x) + L1.scale(sgn * e_1)
                if abs(rest) != 1:
                    from .closedform import _log_of_rational
                    res = res + _log_of_rational(abs(rest)).scale(sgn)
            return Rat(res)
        return None
    return to_rat(t, atomize=atomize)


def _factor_x_1mx(p):
    """p = c * x^a * (1-x)^b  ->  (a, b, c) else (.., .., None)"""
    x = ("sym", "x")
    if any(a != x for a in p.atoms()):
        return 0, 0, None
    cur = p
    a = 0
    while cur.t and all(dict(m).get(x, 0) >= 1 for m in cur.t):
        cur = Poly({tuple((at, e - 1) for at, e in m if e - 1 > 0): c for m, c in cur.t.items()})
        a += 1
    b = 0
    one_minus = Poly.const(1) - Poly.atom(x)
    while cur.degree_in(x) >= 1:
        # divide by (1 - x): synthetic division at x = 1
        if not cur.subs({x: Poly.const(1)}).is_zero():
            return a, b, None
        deg = cur.degree_in(x)
        coeffs = [(cur.coeff_of(x, k).const_value() if cur.coeff_of(x, k).t else Fr(0)) for k in range(deg + 1)]
        # cur = (1 - x) * q  =>  q_k = sum_{j<=k} c_j
        q, acc = [], Fr(0)
        for k in range(deg):
            acc += coeffs[k]
            q.append(acc)
        cur = Poly()
        for k, c in enumerate(q):
            if c:
                cur = cur + (Poly.atom(x) ** k).scale(c) if k else cur + Poly.const(c)
        b += 1
    c = cur.const_value() if cur.t else Fr(0)
    return a, b, (c if c != 0 else None)


SPECIAL = {Fr(0): (Fr(0), Fr(0)), Fr(1, 2): (Fr(1, 12), Fr(-1, 2)), Fr(1): (Fr(1, 6), Fr(0)), Fr(-1): (Fr(-1, 12), Fr(0))}
# Li2(q) = a pi^2 + b log(2)^2   (special values used as anchors)


def anchor_ok(Rt, s, Y, lo, hi):
    """r(x0) + s Li2(Y(x0)) == Li2(x0) at a boundary point x0 of the branch with x0, Y(x0) in SPECIAL or x0 = 2
    (Re Li2(2) = pi^2/4); products of a vanishing factor with a divergent logarithm are taken as 0 (limit)"""
    for x0 in (lo, hi):
        if x0 is None:
            continue
        want = SPECIAL.get(x0)
        if x0 == 2:
            want = (Fr(1, 4), Fr(0))
        if want is None:
            continue
        y0 = _eval_rat(to_rat(Y), x0)
        if y0 not in SPECIAL:
            continue
        rv = _value_pi_log2(_log1p(Rt), x0)
        if rv is None:
            continue
        ly = SPECIAL[y0]
        got = (rv[0] + s * ly[0], rv[1] + s * ly[1])
        return got == want
    return False


def _value_pi_log2(t, x0):
    """value of a term in pi^2 and log(2)^2 units at x = x0: returns (a, b) with value = a pi^2 + b log(2)^2, or None.
    Logs evaluate to k log 2 (k rational) or to 0/-inf; a product with an exactly vanishing factor is 0."""
    def ev(u):
        """-> ('c', a_pi2, b_l22, c_l2, c_1) linear form  a pi^2 + b log2^2 + c log2 + d, or 'inf'"""
        h = u[0]
        if h == "num":
            q = u[1]
            # pi^2 multiples written as decimal literals
            from .poly import literal_poly, PI
            p = literal_poly(q)
            if p is not None and p.atoms() == {PI}:
                (m, c), = p.t.items()
                if dict(m).get(PI) == 2:
                    return (c, Fr(0), Fr(0), Fr(0))
            return (Fr(0), Fr(0), Fr(0), q)
        if h == "sym":
            return (Fr(0), Fr(0), Fr(0), x0)
        if h == "neg":
            a = ev(u[1])
            return "inf" if a == "inf" else tuple(-z for z in a)
        if h in ("+", "-"):
            a, b = ev(u[1]), ev(u[2])
            if a == "inf" or b == "inf":
                return "inf"
            return tuple(p + (q if h == "+" else -q) for p, q in zip(a, b))
        if h == "*":
            a, b = ev(u[1]), ev(u[2])
            if a == (0, 0, 0, 0) or b == (0, 0, 0, 0):
                return (Fr(0), Fr(0), Fr(0), Fr(0))         # 0 * (finite or log-divergent) -> 0
            if a == "inf" or b == "inf":
                return "inf"
            # (c log2 + d)(c' log2 + d') with no pi^2 mixing
            if a[0] == 0 and a[1] == 0 and b[0] == 0 and b[1] == 0:
                return (Fr(0), a[2] * b[2], a[2] * b[3] + a[3] * b[2], a[3] * b[3])
            if a[1] == 0 and a[2] == 0 and a[0] == 0:
                return tuple(a[3] * z for z in b)
            if b[1] == 0 and b[2] == 0 and b[0] == 0:
                return tuple(b[3] * z for z in a)
            return "inf"
        if h == "/":
            a, b = ev(u[1]), ev(u[2])
            if a == "inf" or b == "inf" or b[:3] != (0, 0, 0) or b[3] == 0:
                return "inf"
            return tuple(z / b[3] for z in a)
        if h == "call" and str(u[1]).split("::")[-1] == "log" and len(u[2]) == 1:
            a = ev(u[2][0])
            if a == "inf" or a[:3] != (0, 0, 0) or a[3] <= 0:
                return "inf"
            q = a[3]
            k = 0
            while q > 1 and q.denominator == 1 and q % 2 == 0:
                q /= 2
                k += 1
            while q < 1 and q.numerator == 1 and q.denominator % 2 == 0:
                q *= 2
                k -= 1
            if q != 1:
                return "inf"
            return (Fr(0), Fr(0), Fr(k), Fr(0))
        return "inf"
    r = ev(t)
    if r == "inf" or r[2] != 0 or r[3] != 0:
        return None
    return (r[0], r[1])


# =================================================================== Clausen function

def _cl2_reduction(F, R, f, v):
    """Cl2 vanishes at the multiples of pi; the nearest double to pi is 1.2e-16 away, so a relative accuracy of 1e-13 of
    the result needs the distance x - m pi to 1e-29 absolute: m pi has to be carried by constants c0 + c1 + ... whose exact
    sum (as doubles) is m pi to 1e-29, with a short leading constant (k*c0 and x - k*c0 exact) and fused products."""
    R.rule("K5", "Cl2 argument reduction: every distance `x - k*(c0 + c1 + ...)` / `(c0 + c1 + ...) - x` to a multiple of pi (a zero of "
                 "Cl2) carries that multiple to <= 1e-29 (sum of the double constants), the leading constant is short (exact "
                 "products and differences) and the other products are fused; no reduction by a single 53-bit constant (fmod)", 1)

    def lin(t):
        """t as a linear form {atom: coeff} + {1: const}; products inside fma are exact; returns (form, inexact) or None"""
        if t[0] == "num":
            return {1: as_double(t[1])}, []
        if t[0] == "neg":
            r = lin(t[1])
            return None if r is None else ({k_: -c for k_, c in r[0].items()}, r[1])
        if t[0] in ("+", "-"):
            a, b = lin(t[1]), lin(t[2])
            if a is None or b is None:
                return None
            out = dict(a[0])
            for k_, c in b[0].items():
                out[k_] = out.get(k_, 0) + (c if t[0] == "+" else -c)
            return out, a[1] + b[1]
        if t[0] == "*":
            for u, w in ((t[1], t[2]), (t[2], t[1])):
                if u[0] == "num" or (u[0] == "neg" and u[1][0] == "num"):
                    c = as_double(u[1]) if u[0] == "num" else -as_double(u[1][1])
                    r = lin(w)
                    if r is None:
                        return None
                    bits = c.numerator.bit_length() if c.denominator & (c.denominator - 1) == 0 else 99
                    inexact = list(r[1])
                    if any(k_ != 1 for k_ in r[0]) and abs(c) != 1 and bits > 26:
                        inexact.append("the product with the 53-bit constant %s is rounded (not fused)" % float(c))
                    return {k_: c * cc for k_, cc in r[0].items()}, inexact
            return {t: Fr(1)}, []
        if t[0] == "call" and str(t[1]).split("::")[-1] == "fma" and len(t[2]) == 3:
            a, b, c = t[2]
            prod = None
            for u, w in ((a, b), (b, a)):
                cu = lin(u)
                if cu is not None and set(cu[0]) == {1}:
                    rw = lin(w)
                    if rw is not None:
                        prod = ({k_: cu[0][1] * cc for k_, cc in rw[0].items()}, rw[1])
            rc = lin(c)
            if prod is None or rc is None:
                return None
            out = dict(prod[0])
            for k_, cc in rc[0].items():
                out[k_] = out.get(k_, 0) + cc
            return out, prod[1] + rc[1]
        return {t: Fr(1)}, []

    def is_arg(a):
        """the (possibly already reduced / reflected) argument: a symbol, a conditional or an fmod of it"""
        if a == ("sym", "x"):
            return True
        if a[0] == "call" and str(a[1]).split("::")[-1] in ("floor", "round", "trunc", "rint"):
            return False
        return a[0] in ("ite", "call") and any(w == ("sym", "x") for w in subterms(a))

    seen, n = set(), 0
    cands = [u for u in subterms(v) if isinstance(u, tuple) and u and (u[0] in ("+", "-") or (u[0] == "call" and str(u[1]).split("::")[-1] == "fma"))]
    cands.sort(key=lambda u: -len(show(u)))
    covered = set()
    for u in cands:
        if u in covered:
            continue
        r = lin(u)
        if r is None:
            continue
        form, inexact = r
        xs = [a for a in form if a != 1 and is_arg(a)]
        ks = [a for a in form if a != 1 and a[0] == "call" and str(a[1]).split("::")[-1] in ("floor", "round", "trunc", "rint")]
        if len(xs) != 1 or abs(form[xs[0]]) != 1 or set(form) - {1, xs[0]} - set(ks):
            continue
        if ks:
            C = -form[ks[0]] * form[xs[0]]
        elif 1 in form and form[1] != 0:
            C = abs(form[1])
        else:
            continue
        m = round(float(C) / math.pi * 2) / 2.0
        if m not in (1.0, 2.0) or abs(float(C) - m * math.pi) > 1e-6:
            continue
        def skeleton(t):
            covered.add(t)
            if t[0] in ("+", "-", "*"):
                skeleton(t[1])
                skeleton(t[2])
            elif t[0] == "neg":
                skeleton(t[1])
            elif t[0] == "call" and str(t[1]).split("::")[-1] == "fma":
                for a_ in t[2]:
                    skeleton(a_)
        skeleton(u)
        key = (float(C), bool(ks))
        if key in seen:
            continue
        seen.add(key)
        n += 1
        mm = Fr(int(m))
        err = max(abs(C - mm * PI_LO), abs(C - mm * PI_HI))
        ok = err <= Fr(1, 10 ** 29) and not inexact
        R.check("K5", ok, "distance to %g pi: constants sum to %g pi within %.1e%s" % (m, m, float(err), ", fused/exact products" if not inexact else ""),
                F.loc(f), "the distance to %g pi is computed with constants that represent %g pi only to %.1e%s: within ~%.0e of that zero "
                "of Cl2 the relative error of the result exceeds 1e-13 (the nearest double is 1.2e-16 away: 1e-29 is needed)"
                % (m, m, float(err), "; " + inexact[0] if inexact else "", float(err) * 1e13), key="K5|%g" % m)
    fm = [u for u in subterms(v) if isinstance(u, tuple) and u and u[0] == "call" and str(u[1]).split("::")[-1] == "fmod"
          and len(u[2]) == 2 and is_arg(u[2][0])]
    if fm:
        n += 1
        R.fail("K5", "period reduction by fmod", F.loc(f),
               "arguments >= 2 pi are reduced with fmod(x, 2 pi) and a 53-bit 2 pi: the absolute error grows by 2.4e-16 per period "
               "(relative error 5e-11 at x = 1e6, and ~1e-9 just above 2 pi where Cl2 vanishes)", key="K5|fmod")
    if n == 0:
        R.soft_broken("K5: no argument reduction found in clausen_2")


def _clausen(F, R, f, E):
    from .rules_c11 import _cases
    R.rule("K3", "Cl2: both rational kernels agree with the series of Cl2 to 1e-13 relative on their intervals (rigorous)", 2)
    v, fr = E.function_value(f)
    # ---- argument reduction about the zeros of Cl2 ----------------------------------------------------------
    _cl2_reduction(F, R, f, v)
    # ---- kernels ---------------------------------------------------------------------------------------
    B = bernoulli(130)
    cases = [(fa, val) for fa, val in _cases(v, []) if any(isinstance(u, tuple) and u and u[0] == "/" for u in subterms(val))]
    done = set()
    for fa, val in cases:
        try:
            kind = "small" if any(isinstance(u, tuple) and u[0] == "call" and str(u[1]).split("::")[-1] == "log" for u in subterms(val)) else "large"
            if kind in done:
                continue
            done.add(kind)
            quot = [u for u in subterms(val) if isinstance(u, tuple) and len(u) == 3 and u[0] == "/" and
                    any(w[0] == "num" and w[1].denominator > 10 ** 6 for w in subterms(u[2]) if isinstance(w, tuple) and w)]
            if not quot:
                raise NotPolynomial("no rational kernel found")
            pq = quot[0]
            if kind == "small":
                # h = x (1 - log x + y p(y)/q(y)),  y = x^2 ;  Cl2(x)/x = 1 - log x + sum_k c_k x^(2k),  c_k = |B_2k|/(2k (2k+1)!)
                ysym = _arg_symbol(pq)
                numt = pq[1]
                # numerator is y * p(y)
                Pc = [as_double(c) for c in univariate(_subst(numt, ysym, ("sym", "__y")), "__y")]
                Qc = [as_double(c) for c in univariate(_subst(pq[2], ysym, ("sym", "__y")), "__y")]
                Nn = 30
                ser = [Fr(0)] + [abs(B[2 * k]) / (2 * k * math.factorial(2 * k + 1)) for k in range(1, Nn + 1)]   # in y = x^2
                ymax = (PI_HI / 2) ** 2
                Ep = psub(Pc, pmul(Qc, ser))
                e_sup = sup_abs(Ep, Fr(0), ymax, 32)
                q_inf = inf_abs(Qc, Fr(0), ymax, 16)
                q_sup = sup_abs(Qc, Fr(0), ymax, 4)
                # tail: c_k <= 2/(2k(2k+1)) (2 pi)^-2k * (1 + 2^-2k...) ; y^k <= (pi/2)^2k  => ratio 1/16
                tail = Fr(4, 16 ** Nn)
                err = (e_sup + q_sup * tail) / q_inf if q_inf > 0 else None
                # Cl2(x)/x >= 1 - log(pi/2) + ... >= 0.5 on (0, pi/2]
                rel = err / Fr(1, 2) if err is not None else None
                R.check("K3", rel is not None and rel <= Fr(1, 10 ** 13), "Cl2 kernel on (0, pi/2): relative error <= %.2e"
                        % (float(rel) if rel is not None else float("nan")), F.loc(f),
                        "the rational kernel of Cl2 on (0, pi/2) deviates from the series by %.2e relative (> 1e-13)"
                        % (float(rel) if rel is not None else float("nan")), key="K3|small")
            else:
                # h = y p(z)/q(z),  y = pi - x,  z = y^2 - pi^2/8 ;  Cl2(pi - y)/y = log 2 - sum_k d_k y^(2k),
                #   d_k = (2^(2k) - 1) |B_2k| / (2k (2k+1)!)
                zsym = _arg_symbol(pq)
                Pc = [as_double(c) for c in univariate(_subst(pq[1], zsym, ("sym", "__z")), "__z")] if pq[1][0] != "*" else None
                if Pc is None:
                    # numerator y * p(z): strip the factor that is not a polynomial in z
                    fac = [pq[1][1], pq[1][2]]
                    pz = [t_ for t_ in fac if _mentions(t_, zsym)]
                    Pc = [as_double(c) for c in univariate(_subst(pz[0], zsym, ("sym", "__z")), "__z")]
                Qc = [as_double(c) for c in univariate(_subst(pq[2], zsym, ("sym", "__z")), "__z")]
                Nn = 40
                dk = [(2 ** (2 * k) - 1) * abs(B[2 * k]) / (2 * k * math.factorial(2 * k + 1)) for k in range(1, Nn + 1)]
                # work in w = y^2 in [0, pi^2/4];  z = w - pi^2/8 : shift polynomials by the enclosure midpoint of pi^2/8 and
                # add the enclosure width times a derivative bound (negligible: 1e-38)
                c8 = (PI_LO ** 2 + PI_HI ** 2) / 16
                Pw, Qw = pshift(Pc, -c8), pshift(Qc, -c8)               # P(z(w)), Q(z(w)) as polynomials in w
                ser = [LN2_LO] + [-d for d in dk]                       # Cl2(pi - y)/y in w = y^2 (lower enclosure of log 2)
                wmax = (PI_HI / 2) ** 2
                Ep = psub(Pw, pmul(Qw, ser))
                e_sup = sup_abs(Ep, Fr(0), wmax, 24) + Fr(1, 10 ** 30)
                q_inf = inf_abs(Qw, Fr(0), wmax, 16)
                q_sup = sup_abs(Qw, Fr(0), wmax, 4)
                tail = Fr(4, 4 ** Nn)                                    # d_k w^k <= ~ (y/pi)^2k, y <= pi/2
                err = (e_sup + q_sup * tail) / q_inf if q_inf > 0 else None
                # Cl2(pi - y)/y >= Cl2(pi/2)/(pi/2) = 0.583 on y in (0, pi/2]
                rel = err / Fr(1, 2) if err is not None else None
                R.check("K3", rel is not None and rel <= Fr(1, 10 ** 13), "Cl2 kernel on [pi/2, pi]: relative error <= %.2e"
                        % (float(rel) if rel is not None else float("nan")), F.loc(f),
                        "the rational kernel of Cl2 on [pi/2, pi] deviates from the series by %.2e relative (> 1e-13)"
                        % (float(rel) if rel is not None else float("nan")), key="K3|large")
        except (NotPolynomial, IndexError) as e:
            R.soft_broken("K3: %s" % str(e)[:140])
    if done != {"small", "large"}:
        R.soft_broken("K3: kernels found: %s" % sorted(done))


def _mentions(t, sub):
    return any(u == sub for u in subterms(t)) or t == sub


def _arg_symbol(pq):
    """the sub-term in which the denominator of a kernel is a polynomial with numeric coefficients: the deepest
    non-numeric factor that multiplies a long literal"""
    cands = {}
    for u in subterms(pq[2]):
        if isinstance(u, tuple) and len(u) == 3 and u[0] == "*":
            for a, b in ((u[1], u[2]), (u[2], u[1])):
                if b[0] == "num" and b[1].denominator > 10 ** 6 and a[0] != "num":
                    cands[a] = cands.get(a, 0) + 1
    if not cands:
        raise NotPolynomial("kernel argument not identified")
    # the argument itself (not its square) multiplies the linear coefficient
    best = sorted(cands, key=lambda a: len(show(a)))[0]
    return best


# =================================================================== complex dilogarithm

def _complex_dilog(F, R, f):
    from .facts import walk
    R.rule("K4", "complex dilog: series coefficients == B_2n/(2n+1)! (literals to 1 ulp); truncation error for |u| <= 1.26 below 1e-13", 2)
    arr = None
    for n in walk(f["body"]):
        if n.get("k") == "DeclStmt":
            for d in n.get("decls", ()):
                if d.get("name") == "bf" and d.get("init") is not None:
                    arr = d["init"]
    if arr is None:
        R.soft_broken("K4: coefficient array bf not found in dilog(complex)")
        return
    E = Evaluator(F, inline=lambda n, g: False, max_depth=1)
    from .terms import Frame
    fr = Frame(E, f, {}, ("this",), 0)
    val = fr.fz(fr.e(arr))
    # std::array<T, N> bf = {{ ... }}: the table is the inner list
    while isinstance(val, tuple) and val[:2] == ("call", "initlist") and len(val[2]) == 1 and \
            isinstance(val[2][0], tuple) and val[2][0][:2] == ("call", "initlist"):
        val = val[2][0]
    if not (isinstance(val, tuple) and val[:2] == ("call", "initlist")):
        R.soft_broken("K4: bf is not a constant initialiser list")
        return
    co = []
    for t in val[2]:
        try:
            r = to_rat(t)
            co.append(r.n.const_value() / r.d.const_value())
        except (NotPolynomial, Exception):
            R.soft_broken("K4: non-constant coefficient")
            return
    B = bernoulli(2 * len(co) + 30)
    want = [Fr(-1, 4)] + [B[2 * n] / math.factorial(2 * n + 1) for n in range(1, len(co))]
    bad = [i for i, (c, w) in enumerate(zip(co, want)) if c != w and abs(float(as_double(c)) - float(w)) > 2.3e-16 * abs(float(w))]
    R.check("K4", not bad, "complex dilog: %d series coefficients == -1/4, B_2n/(2n+1)!" % len(co), F.loc(f),
            "coefficient(s) %s of the series of the complex dilogarithm differ from B_2n/(2n+1)!: %s vs %s"
            % (bad, [float(co[i]) for i in bad][:3], [float(want[i]) for i in bad][:3]), key="K4|coeff")
    # truncation: sum_{n >= len} |B_2n|/(2n+1)! |u|^(2n+1), |u| <= 1.26 ; relative to |Li2| >= |u|(1 - |u|/4 - ...) >= 0.6 |u|
    umax = Fr(126, 100)
    nfirst = len(co)
    tail = sum(abs(B[2 * n]) / math.factorial(2 * n + 1) * umax ** (2 * n) for n in range(nfirst, nfirst + 12))
    last = abs(B[2 * (nfirst + 11)]) / math.factorial(2 * (nfirst + 11) + 1) * umax ** (2 * (nfirst + 11))
    tail += last * Fr(1, 10)          # geometric remainder: ratio (1.26/2pi)^2 = 0.04
    rel = tail / Fr(6, 10)
    R.check("K4", rel <= Fr(1, 10 ** 13), "complex dilog: series truncated after B_%d: relative remainder <= %.1e for |u| <= 1.26"
            % (2 * (nfirst - 1), float(rel)), F.loc(f),
            "the series of the complex dilogarithm is truncated too early: remainder %.1e > 1e-13 for |u| <= 1.26" % float(rel),
            key="K4|tail")
