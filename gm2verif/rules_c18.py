"""C18 -- uncertainty estimates are non-negative, bounded below by their floor, and defined as documented."""
import re
from fractions import Fraction

from .terms import Evaluator, show
from .domains import lower_bound, addends

PID = "C18"
LEVEL = "proof"

FLOOR = {"gm2calc::MSSMNoFV_onshell": Fraction("2.3e-10"), "gm2calc::THDM": Fraction("2e-12")}


def _model_of(f):
    t = f["params"][0]["t"] or ""
    for m in FLOOR:
        if m in t:
            return m
    return None


def run(F, R, tier):
    R.explanation = (
        "Lower-bound abstract interpretation of the 11 uncertainty functions: each function body is folded "
        "into a term (callees inlined, the a_mu contributions kept as opaque symbols of either sign) and the "
        "term is evaluated in the domain [lb, +inf): |x|, norm, sqrt >= 0; sums and products of non-negative "
        "terms; positive literals. Parameters and a_mu values are 'any sign', so a dropped abs() or a minus "
        "sign is a definite violation. The defining sums and the delegation of the argument-free overloads are "
        "decided by comparing the folded terms with the documented shape.")
    R.assumptions = ["IEEE arithmetic: |x| >= 0 also holds for NaN-free inputs; finiteness is not decided"]
    R.undecided = ["finiteness of the estimates (value property)"]
    fns = [f for k, f in sorted(F.functions.items())
           if re.match(r"^gm2calc::calculate_uncertainty_amu_[012]loop$", f["name"])]
    R.analysed["uncertainty_functions"] = ["%s(%s)" % (f["name"].split("::")[-1], ", ".join(p["t"] for p in f["params"]))
                                           for f in fns]
    opaque_amu = lambda n, g: not re.match(r"^gm2calc::(amu\w+|calculate_amu_\w+)$", n)
    E = Evaluator(F, inline=opaque_amu)

    R.rule("U1", "lower bound of every uncertainty estimate is >= 0 for arbitrary-sign inputs", 11)
    R.rule("U2", "two-loop uncertainty >= documented floor (2.3e-10 MSSM, 2e-12 THDM)", 3)
    for f in fns:
        model = _model_of(f)
        if model is None:
            R.broken("uncertainty function with unexpected model parameter: %s" % f["params"][0]["t"])
        v, fr = E.function_value(f)
        inst = "%s(%s)" % (f["name"].split("::")[-1], ", ".join((p["t"] or "").replace("const ", "").replace(" &", "")
                                                                for p in f["params"]))
        why = []
        lb = lower_bound(v, why=why)
        if any(x[0] == "unknown" for x in _subterms(v)):
            R.broken("U1: %s contains constructs outside the modelled language: %s" % (inst, show(v)[:200]))
        culprit = "; ".join(show(w)[:100] for w in why[:2])
        R.check("U1", lb is not None and lb >= 0, inst, F.loc(f),
                "estimate is not bounded below by 0: sub-term of indefinite sign: %s" % culprit,
                key="U1|%s" % inst, detail="lb = %s" % (float(lb) if lb is not None else None))
        if f["name"].endswith("_2loop"):
            fl = FLOOR[model]
            R.check("U2", lb is not None and lb >= fl, inst, F.loc(f),
                    "lower bound %s is below the documented floor %s" % (float(lb) if lb is not None else "-inf", float(fl)),
                    key="U2|%s" % inst, detail="lb = %s >= %s" % (float(lb) if lb is not None else None, float(fl)))

    # U3 defining sums (with the two-loop uncertainty kept opaque)
    R.rule("U3", "defining sums: 0L = sum of |a_mu| parts, 1L = |a2L| + two-loop uncertainty", 4)
    E3 = Evaluator(F, inline=lambda n, g: not re.match(r"^gm2calc::(amu\w+|calculate_amu_\w+|calculate_uncertainty_amu_2loop)$", n))
    for f in fns:
        if len(f["params"]) < 2:
            continue
        model = _model_of(f)
        v, fr = E3.function_value(f)
        parts = sorted(show(a) for a in addends(v))
        inst = "%s(%s)" % (f["name"].split("::")[-1], ", ".join(p["name"] or "model" for p in f["params"]))
        names = [p["name"] for p in f["params"][1:]]
        if f["name"].endswith("_0loop"):
            want = sorted("abs(%s)" % n for n in names)
            R.check("U3", parts == want, inst + " = " + " + ".join(parts), F.loc(f),
                    "0-loop uncertainty is %s, documented: %s" % (" + ".join(parts), " + ".join(want)), key="U3|" + inst)
        elif f["name"].endswith("_1loop"):
            a2 = "abs(%s)" % names[-1]
            rest = [p for p in parts if p != a2]
            ok = a2 in parts and len(rest) == 1 and re.match(
                r"^(abs\()?calculate_uncertainty_amu_2loop\(%s(, %s)?\)\)?$" % (re.escape(f["params"][0]["name"] or "model"), ", ".join(names)), rest[0]) is not None
            R.check("U3", ok, inst + " = " + " + ".join(parts)[:160], F.loc(f),
                    "1-loop uncertainty is %s, documented: |a_mu(2L)| + two-loop uncertainty" % " + ".join(parts)[:200],
                    key="U3|" + inst)

    # U4 delegation of the argument-free overloads
    R.rule("U4", "argument-free overloads return the argument-taking overload applied to calculate_amu_{1,2}loop(model)", 5)
    E4 = Evaluator(F, inline=lambda n, g: False)
    for f in fns:
        if len(f["params"]) != 1:
            continue
        model = _model_of(f)
        v, fr = E4.function_value(f)
        inst = "%s(%s)" % (f["name"].split("::")[-1], model.split("::")[-1])
        s = show(v)
        pm = f["params"][0]["name"] or "model"
        if model.endswith("THDM"):
            want = "%s(%s, calculate_amu_1loop(%s), calculate_amu_2loop(%s))" % (f["name"].split("::")[-1], pm, pm, pm)
            ok = s == want
        else:
            stem = f["name"].split("::")[-1]
            if stem.endswith("_0loop"):
                want = "%s(%s, calculate_amu_1loop(%s))" % (stem, pm, pm)
                ok = s == want
            elif stem.endswith("_1loop"):
                want = "%s(%s, calculate_amu_2loop(%s))" % (stem, pm, pm)
                ok = s == want
            else:
                want = "(no overload with arguments)"
                ok = True
        R.check("U4", ok, inst + " = " + s[:140], F.loc(f), "returns %s, expected %s" % (s[:160], want), key="U4|" + inst)


def _subterms(t):
    stack = [t]
    while stack:
        x = stack.pop()
        if isinstance(x, tuple):
            yield x
            for y in (x[1:] if x and isinstance(x[0], str) else x):
                if isinstance(y, tuple):
                    stack.append(y)
