"""C05 -- DR-bar to on-shell conversion reproduces the input pole masses *or warns*
(structural clauses: the 'or warns' half, freshness of derived indices, exact inverse formulas)."""
import re
from fractions import Fraction

from .facts import walk, kids, strip_all, call_args, call_object, is_call
from .structure import Struct, always_exits
from .render import Renderer
from .terms import Evaluator, Frame, show
from .poly import to_rat, Rat, Poly, NotPolynomial
from .rules_c16 import FieldFlow
from .extract import AnalysisBroken

PID = "C05"
LEVEL = "other"
CLS = "gm2calc::MSSMNoFV_onshell"


def run(F, R, tier):
    R.explanation = (
        "Path/shape clauses of the conversion: (R1) in each fitting routine exactly one of flag/unflag "
        "non-convergence is executed on every path, selected by `precision > precision_goal`; (R2) the warning "
        "flags survive to the end of convert_to_onshell (no later statement can write them); (R3) a non-finite "
        "fixed-point result restores the saved parameter; (R4) an index derived from a mixing matrix is "
        "re-derived after every recomputation of that matrix before it is used (stale-value typestate); "
        "(R5) the closed-form step (ml2 from the sneutrino pole mass) is the exact algebraic inverse of the "
        "tree-level mass relation it fits; (R6) the default SM constants are read only by constructors, so a "
        "conversion can only use the model's own input values.")
    R.undecided = ["that the fitted spectrum reproduces the pole masses numerically within the goal",
                   "recovery of the on-shell parameters from perturbed guesses (conditioning)"]
    FW = FieldFlow(F)

    # ---- R1 ------------------------------------------------------------------
    R.rule("R1", "exactly one of flag/unflag non-convergence on every path, selected by precision > precision_goal", 2)
    n_sites = 0
    for k, f in sorted(F.functions.items()):
        flags = [n for n in walk(f["body"]) if is_call(n) and re.search(r"::flag_no_convergence_(\w+)$", n.get("fn") or "")]
        if not flags or not f["name"].startswith(CLS + "::"):
            continue
        S = Struct(f)
        Rr = Renderer(f)
        for fl in flags:
            n_sites += 1
            what = re.search(r"::flag_no_convergence_(\w+)$", fl["fn"]).group(1)
            inst = "%s: flag/unflag %s" % (f["name"].split("::")[-1], what)
            ifs = None
            for a in S.ancestors(fl):
                if a.get("k") == "IfStmt":
                    ifs = a
                    break
            if ifs is None or not S.contains(ifs.get("then"), fl):
                R.fail("R1", inst, F.loc(f, fl), "flag call is not the then-branch of an if", key="R1|%s|shape" % what)
                continue
            unfl = [n for n in walk(ifs.get("else")) if is_call(n) and (n.get("fn") or "").endswith("::unflag_no_convergence_" + what)] \
                if ifs.get("else") is not None else []
            cond = Rr.r(ifs["cond"])
            top = f["body"].get("c", [])
            at_top = any(s is ifs for s in top)
            early = False
            if at_top:
                idx = [i for i, s in enumerate(top) if s is ifs][0]
                early = any(any(y.get("k") == "ReturnStmt" for y in walk(p)) for p in top[:idx])
            ok = len(unfl) == 1 and cond == "(precision_goal < precision)" and at_top and not early
            why = []
            if len(unfl) != 1:
                why.append("no matching unflag in the else branch")
            if cond != "(precision_goal < precision)":
                why.append("selected by `%s`, not by `precision > precision_goal`" % cond)
            if not at_top or early:
                why.append("not executed on every path")
            # `precision` must be the variable the iteration updates
            pv = [x for x in walk(ifs["cond"]) if x.get("k") == "DeclRefExpr" and x.get("n") == "precision"]
            if pv:
                vid = pv[0]["id"]
                loops = [n for n in walk(f["body"]) if n.get("k") == "WhileStmt"]
                uses = any(any(x.get("k") == "DeclRefExpr" and x.get("id") == vid for x in walk(l["cond"])) for l in loops)
                assigned_from_call = any(n.get("k") in ("BinaryOperator",) and n.get("op") == "=" and
                                         strip_all(n["c"][0]).get("id") == vid and is_call(strip_all(n["c"][1]))
                                         for n in walk(f["body"]))
                if not (uses or assigned_from_call):
                    ok = False
                    why.append("`precision` is not the quantity the iteration updates")
            R.check("R1", ok, inst + " by " + cond, F.loc(f, ifs), "; ".join(why), key="R1|%s" % what)
    if n_sites < 2:
        R.broken("R1: expected two flag_no_convergence sites, found %d" % n_sites)

    # ---- R2 -----------------------------------------------------------------------
    R.rule("R2", "after the fitting routines no statement of convert_to_onshell can write the warning flags", 2)
    wf = set()
    for g in F.functions.values():
        if re.search(r"MSSMNoFV_onshell_problems::flag_no_convergence_", g["name"]):
            for n in walk(g["body"]):
                if n.get("k") == "BinaryOperator" and n.get("op") == "=":
                    l = strip_all(n["c"][0])
                    if l.get("k") == "MemberExpr" and l.get("mk") == "Field" and \
                            (strip_all(n["c"][1]).get("k") == "CXXBoolLiteralExpr"):
                        wf.add(l["n"])
    if len(wf) < 2:
        R.broken("R2: warning flag fields not found")
    for f in F.fns(CLS + "::convert_to_onshell"):
        if not f["params"]:
            continue
        top = f["body"].get("c", [])
        flagger = [i for i, s in enumerate(top) if any(
            re.search(r"::flag_no_convergence_", F.functions[c]["name"]) for c in FW.stmt_closure(s))]
        if not flagger:
            R.broken("R2: convert_to_onshell does not reach the flagging routines")
        for i in flagger:
            later = [(j, s) for j, s in enumerate(top) if j > i and j not in flagger and (FW.writes(s) & wf)]
            called = F.functions[[c for c in FW.stmt_closure(top[i]) if re.search(r"::convert_\w+$", F.functions[c]["name"])][0]]["name"] \
                if [c for c in FW.stmt_closure(top[i]) if re.search(r"::convert_\w+$", F.functions[c]["name"])] else "?"
            inst = "warnings set by statement %d (%s) survive" % (i, Renderer(f).r(top[i])[:40])
            R.check("R2", not later, inst, F.loc(f, top[i]),
                    "statement at line %s can overwrite the non-convergence flags (%s)" % (
                        later[0][1].get("l") if later else "?", Renderer(f).r(later[0][1])[:60] if later else ""),
                    key="R2|%s" % Renderer(f).r(top[i])[:30])

    # ---- R3 ----------------------------------------------------------------------------
    R.rule("R3", "a non-finite result of either fitting method (fixed point, root finder) restores the saved "
                 "me2(1,1) and reports failure", 2)
    for meth in ("fpi", "root"):
        f = F.fn(CLS + "::convert_me2_" + meth)
        Rr = Renderer(f, resolve_locals=False)
        top = f["body"].get("c", [])
        saved = None
        modify_idx = None
        for i, s in enumerate(top):
            if s.get("k") == "DeclStmt":
                for d in s["decls"]:
                    ini = d.get("init")
                    if ini is not None and Rr.r(ini) == "get_me2(1, 1)":
                        saved = (i, d)
                    if ini is not None and ("convert_me2_%s_modify" % meth) in Rr.r(ini):
                        modify_idx = i
        ok = saved is not None and modify_idx is not None and saved[0] < modify_idx
        reset = False
        if ok:
            for s in top[modify_idx + 1:]:
                if s.get("k") == "IfStmt" and "isfinite" in Rr.r(s["cond"]):
                    sets = [x for x in walk(s["then"]) if is_call(x) and (x.get("fn") or "").endswith("::set_me2")]
                    for x in sets:
                        a = call_args(x)
                        if len(a) == 3 and strip_all(a[2]).get("id") == saved[1]["id"] and \
                                [strip_all(a[0]).get("v"), strip_all(a[1]).get("v")] == ["1", "1"]:
                            reset = always_exits(s["then"])
        R.check("R3", ok and reset, "convert_me2_%s: me2(1,1) saved before, restored on non-finite result" % meth, F.loc(f),
                "the saved value is not restored (or not saved before the iteration)", key="R3|" + meth)

    # ---- R4 derived-index freshness --------------------------------------------------------
    R.rule("R4", "an index derived from a mixing matrix is re-derived after every statement that can rewrite that "
                 "matrix, before it is used again", 2)
    n_track = 0
    for k, f in sorted(F.functions.items()):
        if not re.match(r"^" + re.escape(CLS) + r"::convert_\w+$", f["name"]):
            continue
        # candidate variables: integral locals with >= 2 definitions whose right-hand sides read fields
        defs = {}
        for n in walk(f["body"]):
            if n.get("k") == "DeclStmt":
                for d in n["decls"]:
                    if d.get("init") is not None and (d.get("t") or "") in ("int", "unsigned int", "unsigned long", "long"):
                        defs.setdefault(d["id"], []).append((n, d["init"], d["name"]))
            elif n.get("k") == "BinaryOperator" and n.get("op") == "=":
                l = strip_all(n["c"][0])
                if l.get("k") == "DeclRefExpr" and l.get("id") in defs:
                    defs[l["id"]].append((n, n["c"][1], l.get("n")))
        S = None
        for vid, ds in defs.items():
            if len(ds) < 2:
                continue
            srcs = set()
            for node, rhs, name in ds:
                srcs |= {x for x in FW.reads(rhs)}
            srcs = {x for x in srcs if re.search(r"::(Z[A-Z]\w*|U[MP]|ZN)$", x)}
            if not srcs:
                continue
            n_track += 1
            S = S or Struct(f)
            name = ds[0][2]
            # scan every compound statement that contains a re-definition
            redefs = [d[0] for d in ds[1:]]
            bad = None
            for rd in redefs:
                blk = S.parent(rd)
                while blk is not None and blk.get("k") != "CompoundStmt":
                    blk = S.parent(blk)
                if blk is None:
                    continue
                valid = True
                for s in blk.get("c", []):
                    is_redef = any(S.contains(s, r) or s is r for r in redefs)
                    reads_v = any(x.get("k") == "DeclRefExpr" and x.get("id") == vid for x in walk(s)) and not \
                        (is_redef and not _reads_in_rhs(s, vid))
                    if reads_v and not valid and not is_redef:
                        bad = (s, "read at line %s while stale" % s.get("l"))
                        break
                    if is_redef:
                        valid = True
                        continue
                    if FW.writes(s) & srcs:
                        valid = False
                if bad:
                    break
            if bad is None:
                # a by-value capture freezes the index at the time the lambda is created: every later call of the lambda
                # uses it although the index has been re-derived in between
                for lam in walk(f["body"]):
                    if lam.get("k") == "LambdaExpr":
                        for cp in lam.get("captures", ()):
                            if cp.get("id") == vid and not cp.get("byref"):
                                bad = (lam, "captured by value by the lambda at line %s, which is called again after the index was "
                                            "re-derived" % lam.get("l"))
            R.check("R4", bad is None, "%s: %s derived from {%s}" % (f["name"].split("::")[-1], name,
                                                                   ", ".join(sorted(x.split("::")[-1] for x in srcs))),
                    F.loc(f, bad[0]) if bad else F.loc(f),
                    "%s is used after the mixing matrix was recomputed but before it is re-derived (%s)" % (
                        name, bad[1] if bad else ""), key="R4|%s|%s" % (f["name"].split("::")[-1], name))
    if n_track < 2:
        R.broken("R4: expected two derived indices (bino index, right-like smuon index), found %d" % n_track)

    # ---- R5 exact inverse ---------------------------------------------------------------------
    R.rule("R5", "convert_ml2: the assigned ml2(1,1) inverts the tree-level sneutrino mass relation exactly "
                 "(mass_matrix_SvmL[ml2(1,1) := ml211] == MSvmL_pole^2 as polynomials)", 1)
    try:
        _r5(F, R)
    except AnalysisBroken as e:
        R.soft_broken(str(e))

    R.guard(_index_spaces, F, R)
    R.guard(_selectors, F, R)
    R.guard(_goal_plumbing, F, R)
    R.guard(_fit_survives, F, R, FW)
    R.guard(_pole_pairs, F, R, FW)

    # ---- R6 default constants -------------------------------------------------------------------
    R.rule("R6", "the default SM constants of gm2_constants.hpp are read only by constructors / default "
                 "initialisers (conversions use the model's own inputs)", 20)
    consts = {g["name"] for g in F.globals.values() if g["file"] == "src/gm2_constants.hpp"}
    if len(consts) < 10:
        R.broken("R6: constants of gm2_constants.hpp not found")
    for k, f in sorted(F.functions.items()):
        is_ctor = bool((f.get("method") or {}).get("ctor"))
        roots = [("body", f["body"])] + [("init", i["init"]) for i in f.get("inits", ()) if "init" in i]
        for kind, r in roots:
            for n in walk(r):
                if n.get("k") == "DeclRefExpr" and n.get("n") in consts:
                    R.check("R6", is_ctor, "%s reads %s" % (f["name"], n["n"].split("::")[-1]), F.loc(f, n),
                            "default constant %s is used outside a constructor: the computation ignores the "
                            "model's own input value" % n["n"], key="R6|%s|%s" % (f["name"], n["n"]))


def _reads_in_rhs(stmt, vid):
    """the re-definition statement itself reads the variable on its right-hand side"""
    s = strip_all(stmt)
    if s.get("k") == "BinaryOperator" and s.get("op") == "=":
        return any(x.get("k") == "DeclRefExpr" and x.get("id") == vid for x in walk(s["c"][1]))
    return False


def _r5(F, R):
    f = F.fn(CLS + "::convert_ml2")
    E = Evaluator(F, inline=lambda n, g: not (n.endswith("::calculate_MSvmL") or n.endswith("::set_ml2")))
    v, fr = E.function_value(f)
    sets = [(c, t) for c, t, n in E.effects if str(t[1]).endswith("::set_ml2")]
    if len(sets) != 1:
        raise AnalysisBroken("R5: expected one set_ml2 effect in convert_ml2, found %d" % len(sets))
    c, t = sets[0]
    idx = (show(t[2][1]), show(t[2][2]))
    val = t[2][3]
    g = F.fn("gm2calc::MSSMNoFV_onshell_mass_eigenstates::get_mass_matrix_SvmL")
    mv, _ = Evaluator(F).function_value(g)
    try:
        atom_ml2 = ("elem", ("field", ("this",), "ml2"), ("num", Fraction(1)), ("num", Fraction(1)))
        lhs = to_rat(mv)
        if atom_ml2 not in lhs.n.atoms():
            raise AnalysisBroken("R5: mass_matrix_SvmL does not depend on ml2(1,1)")
        valr = to_rat(val)
        if lhs.n.degree_in(atom_ml2) != 1 or atom_ml2 in lhs.d.atoms():
            raise AnalysisBroken("R5: mass matrix is not linear in ml2(1,1)")
        A = lhs.n.coeff_of(atom_ml2, 1)
        B = lhs.n.coeff_of(atom_ml2, 0)
        sub = (Rat(A) * valr + Rat(B)) * Rat(Poly.const(1), lhs.d)
        pole = ("field", ("call", "gm2calc::MSSMNoFV_onshell::get_physical", (("this",),)), "MSvmL")
        # locate the pole mass atom actually used
        cand = [a for a in valr.n.atoms() if "MSvmL" in show(a)]
        if len(cand) != 1:
            raise AnalysisBroken("R5: pole mass atom not identified: %s" % [show(a) for a in valr.n.atoms()])
        want = Rat(Poly.atom(cand[0]) ** 2)
        ok = sub.equals(want) and idx == ("1", "1")
    except NotPolynomial as e:
        raise AnalysisBroken("R5: %s" % e)
    R.check("R5", ok, "convert_ml2: ml2(%s,%s) := %s" % (idx[0], idx[1], show(val)[:120]), F.loc(f),
            "with this ml2(1,1) the tree-level muon-sneutrino mass^2 is not identically MSvmL_pole^2",
            key="R5|convert_ml2")




def _index_spaces(F, R):
    """R7: the bino-like neutralino has one position in the pole-mass multiplet (found in physical.ZN) and another in the
    tree-level multiplet (found in get_ZN()).  An index may subscript only the arrays of its own multiplet: the
    convergence measure |MChi_goal(i) - get_MChi(i)| with a pole index compares an entry with itself (residual 0)."""
    R.rule("R7", "convert_Mu_M1_M2: pole-multiplet indices subscript only get_physical() arrays, tree-level indices only the "
                 "model's arrays (incl. the argument of the convergence measure)", 6)
    f = [g for g in F.fns("gm2calc::MSSMNoFV_onshell::convert_Mu_M1_M2")][0]
    Rr = Renderer(f, resolve_locals=False)
    POLE, MODEL = "pole", "model"

    def space_of_expr(n):
        """index space produced by an initialiser / assigned expression"""
        t = Rr.r(n)
        if re.search(r"find_bino_like_neutralino\(\)", t):
            return POLE                                   # member without argument: looks into physical.ZN
        if re.search(r"find_bino_like_neutralino\(get_physical\(\)\.ZN", t):
            return POLE
        if re.search(r"find_bino_like_neutralino\(get_ZN\(\)", t):
            return MODEL
        return None
    # the argument-free member must indeed read physical.ZN
    mem = [g for g in F.fns("gm2calc::MSSMNoFV_onshell::find_bino_like_neutralino") if not g["params"]]
    if len(mem) != 1 or "get_physical().ZN" not in " ".join(Renderer(mem[0], resolve_locals=False).r(x) for x in walk(mem[0]["body"]) if x.get("k") == "ReturnStmt"):
        R.soft_broken("R7: find_bino_like_neutralino() no longer returns the position in physical.ZN")
        return
    var_space = {}
    for n in walk(f["body"], skip_lambdas=False):
        if n.get("k") == "DeclStmt":
            for d in n.get("decls", ()):
                if d.get("init") is not None:
                    sp = space_of_expr(d["init"])
                    if sp:
                        var_space.setdefault(d["id"], set()).add(sp)
        if n.get("k") == "BinaryOperator" and n.get("op") == "=":
            l = strip_all(n["c"][0])
            if l.get("k") == "DeclRefExpr":
                sp = space_of_expr(n["c"][1])
                if sp:
                    var_space.setdefault(l["id"], set()).add(sp)
    if len(var_space) < 2:
        R.soft_broken("R7: index variables of convert_Mu_M1_M2 not found")
        return
    # arrays: get_physical().X -> pole; get_MChi(...) / locals initialised from get_MChi() -> model
    model_arrays = set()
    for n in walk(f["body"], skip_lambdas=False):
        if n.get("k") == "DeclStmt":
            for d in n.get("decls", ()):
                if d.get("init") is not None and re.match(r"^\(?get_MChi\(\)\)?$", Rr.r(d["init"])):
                    model_arrays.add(d["id"])
    lam_param_need = {}       # lambda parameter id -> required space
    sites = []

    def idx_space(a):
        a0 = strip_all(a)
        if a0.get("k") == "DeclRefExpr":
            return a0.get("id"), var_space.get(a0.get("id"))
        return None, None

    def visit(root, lam_params):
        for n in walk(root, skip_lambdas=True):
            need, arr, arg = None, None, None
            if n.get("k") == "CXXOperatorCallExpr" and n.get("op") == "()" and len(n.get("c", [])) == 3:
                obj = strip_all(n["c"][1])
                txt = Rr.r(n["c"][1])
                if "get_physical()." in txt:
                    need, arr, arg = POLE, txt, n["c"][2]
                elif obj.get("k") == "DeclRefExpr" and obj.get("id") in model_arrays:
                    need, arr, arg = MODEL, txt, n["c"][2]
            elif is_call(n) and str(n.get("fn", "")).endswith("::get_MChi") and len(call_args(n)) == 1:
                need, arr, arg = MODEL, "get_MChi", call_args(n)[0]
            if need:
                vid, sp = idx_space(arg)
                if vid in lam_params:
                    lam_param_need.setdefault(vid, set()).add(need)
                else:
                    sites.append((n, arr, need, sp, Rr.r(arg)))
            if n.get("k") == "LambdaExpr":
                g = F.functions.get(n.get("mg"))
                if g is not None:
                    visit(g["body"], {p_["id"] for p_ in g["params"]})
    visit(f["body"], set())
    # calls of the lambda: argument must be of the space its parameter needs
    lam_vars = {}
    for n in walk(f["body"]):
        if n.get("k") == "DeclStmt":
            for d in n.get("decls", ()):
                lams = [x for x in walk(d["init"])] if d.get("init") is not None else []
                ini = next((x for x in lams if x.get("k") == "LambdaExpr"), None)
                if ini is not None:
                    g = F.functions.get(ini.get("mg"))
                    if g is not None and g["params"]:
                        lam_vars[d["id"]] = g
    for n in walk(f["body"]):
        if n.get("k") == "CXXOperatorCallExpr" and n.get("op") == "()" and n.get("c"):
            obj = strip_all(n["c"][1]) if len(n["c"]) > 1 else None
            if obj is not None and obj.get("k") == "DeclRefExpr" and obj.get("id") in lam_vars and len(n["c"]) >= 3:
                g = lam_vars[obj["id"]]
                need = lam_param_need.get(g["params"][0]["id"])
                if need and len(need) == 1:
                    vid, sp = idx_space(n["c"][2])
                    sites.append((n, "%s(.)" % Rr.r(n["c"][1]), next(iter(need)), sp, Rr.r(n["c"][2])))
    if len(sites) < 4:
        R.soft_broken("R7: only %d indexed accesses recognised in convert_Mu_M1_M2" % len(sites))
    for n, arr, need, sp, atxt in sites:
        if sp is None:
            continue          # constant or loop index: not a multiplet position
        R.check("R7", sp == {need}, "%s indexed by %s (%s index)" % (arr[:40], atxt, "/".join(sorted(sp))), F.loc(f, n),
                "%s is an array in %s order but is indexed with %s, a position in the %s multiplet"
                % (arr[:60], need, atxt, "/".join(sorted(sp))), key="R7|%s|%s" % (arr[:40], n.get("l")))


PROJ_OK = {"cwiseAbs2", "cwiseAbs", "abs2", "abs", "norm", "squaredNorm", "std::norm", "std::abs"}
PROJ_BAD = {"real", "imag", "arg", "std::real", "std::imag", "std::arg"}
VIEW = {"col", "row", "block", "operator()", "operator[]", "transpose", "adjoint", "conjugate", "array", "matrix", "eval",
        "head", "tail", "segment", "derived"}


def _selectors(F, R):
    """a selected state must not depend on the phase convention of the mixing matrix rows (the Haber-Kane
    convention turns the row of a negative-mass neutralino purely imaginary)"""
    R.rule("R8", "state selectors (bino-like neutralino, right-like smuon) read a mixing matrix only through the modulus of "
                 "its entries (abs / abs2 / norm), and are handed the whole matrix, never a real()/imag() projection", 4)
    sels = [f for k, f in sorted(F.functions.items())
            if re.search(r"(^|::)detail::find_\w+$", f["name"]) and f["file"].startswith("src/MSSMNoFV/")]
    seen = set()
    for f in sels:
        if (f["name"], f["line"]) in seen:
            continue
        seen.add((f["name"], f["line"]))
        S = Struct(f)
        pid = {p["id"] for p in f["params"]}
        uses = [n for n in walk(f["body"]) if n.get("k") == "DeclRefExpr" and n.get("id") in pid]
        ok, why = bool(uses), "the matrix parameter is never read"
        for u in uses:
            verdict = None
            for a in S.ancestors(u):
                k = a.get("k")
                nm = None
                if k == "MemberExpr":
                    nm = a.get("sn")
                elif is_call(a):
                    nm = str(a.get("fn") or "").split("(")[0]
                    nm = nm.split("::")[-1] if not nm.startswith("std::") else nm
                    if a.get("op"):
                        nm = "operator" + a["op"]
                if nm is None:
                    if k in ("BinaryOperator", "ConditionalOperator", "ReturnStmt", "DeclStmt", "IfStmt"):
                        verdict = "reaches %s without a modulus" % k
                        break
                    continue
                if nm in PROJ_OK:
                    verdict = "ok"
                    break
                if nm in PROJ_BAD:
                    verdict = "is projected with %s()" % nm
                    break
                if nm in VIEW or nm.startswith("operator"):
                    continue
            if verdict != "ok":
                ok, why = False, "%s: the matrix %s" % (F.loc(f, u), verdict or "is used in an unmodelled way")
                break
        R.check("R8", ok, "%s reads |Z_ik| only" % f["name"].split("::")[-1], F.loc(f), why,
                key="R8|body|" + f["name"].split("::")[-1])
    # call sites: the argument is a whole mixing matrix
    n_sites = 0
    for k, f in sorted(F.functions.items()):
        if not f["file"].startswith("src/MSSMNoFV/"):
            continue
        for n in walk(f["body"]):
            if is_call(n) and re.search(r"(^|::)detail::find_\w+$", str(n.get("fn") or "").split("<")[0].split("(")[0]):
                n_sites += 1
                bad = None
                for a in call_args(n):
                    for x in walk(a):
                        nm = x.get("sn") if x.get("k") == "MemberExpr" else None
                        if nm in PROJ_BAD or nm in PROJ_OK or nm in ("cast", "cwiseSqrt", "cwiseInverse"):
                            bad = nm
                R.check("R8", bad is None, "%s calls %s on a whole mixing matrix" % (f["name"].split("::")[-1],
                                                                                     str(n.get("fn")).split("<")[0].split("::")[-1]),
                        F.loc(f, n), "the selector is handed a %s() projection of the mixing matrix" % bad,
                        key="R8|site|%s|%s" % (f["name"].split("::")[-1], n_sites))
    if n_sites < 2:
        R.soft_broken("R8: expected at least two selector call sites, found %d" % n_sites)


def _goal_plumbing(F, R):
    R.rule("R9", "the requested precision and iteration cap reach the fitting routines unchanged: convert_to_onshell and its "
                 "C entry points pass their own (precision, max_iterations) parameters, in this order, to every routine that "
                 "takes them", 4)
    takes = {}
    for k, f in F.functions.items():
        ps = [p["name"] for p in f["params"]]
        if f["name"].startswith("gm2calc::MSSMNoFV_onshell::convert_") and len(ps) == 2 and "precision" in ps[0]:
            takes[f["name"]] = f
    if len(takes) < 3:
        R.soft_broken("R9: fitting routines with (precision, max_iterations) not found")
        return
    n = 0
    for k, f in sorted(F.functions.items()):
        ps = f["params"]
        cand = [i for i, p in enumerate(ps) if "precision" in (p["name"] or "")]
        if not cand or not (f["file"].startswith("src/MSSMNoFV/")):
            continue
        ip = cand[0]
        if ip + 1 >= len(ps):
            continue
        want = (ps[ip]["id"], ps[ip + 1]["id"])
        # local aliases: `const double prec = precision;` stands for the parameter
        alias = {}
        for d_ in walk(f["body"]):
            if d_.get("k") == "DeclStmt":
                for dd in d_.get("decls", ()):
                    ini = strip_all(dd.get("init")) if dd.get("init") is not None else None
                    if "id" in dd and ini is not None and ini.get("k") == "DeclRefExpr":
                        alias[dd["id"]] = alias.get(ini.get("id"), ini.get("id"))
        for c in walk(f["body"]):
            if is_call(c) and str(c.get("fn") or "") in takes:
                args = call_args(c)
                ids = []
                for a in args[:2]:
                    a0 = strip_all(a)
                    ids.append(alias.get(a0.get("id"), a0.get("id")) if a0 is not None and a0.get("k") == "DeclRefExpr" else None)
                n += 1
                R.check("R9", tuple(ids) == want and len(args) == 2,
                        "%s -> %s(%s, %s)" % (f["name"].split("::")[-1], str(c.get("fn")).split("::")[-1], ps[ip]["name"], ps[ip + 1]["name"]),
                        F.loc(f, c), "the call does not pass the caller's own (%s, %s): %d explicit argument(s)" % (
                            ps[ip]["name"], ps[ip + 1]["name"], len([a for a in args if a.get("k") != "CXXDefaultArgExpr"])),
                        key="R9|%s|%s" % (f["name"].split("::")[-1], str(c.get("fn")).split("::")[-1]))
    # every function that owns a (precision, max_iterations) pair and converts must forward it at least once
    for k, f in sorted(F.functions.items()):
        ps = [p["name"] or "" for p in f["params"]]
        if any("precision" in x for x in ps) and any("iter" in x for x in ps) and "convert_to_onshell" in f["name"] \
                and f["file"].startswith("src/MSSMNoFV/"):
            fwd = [c for c in walk(f["body"]) if is_call(c) and "convert_" in str(c.get("fn") or "")
                   and len([a for a in call_args(c) if strip_all(a) is not None and strip_all(a).get("k") == "DeclRefExpr"
                            and _alias_of(f, strip_all(a).get("id")) in {p["id"] for p in f["params"]}]) >= 2]
            n += 1
            R.check("R9", bool(fwd), "%s forwards its precision goal" % f["name"].split("::")[-1], F.loc(f),
                    "no conversion routine receives this function's (precision, max_iterations)", key="R9|fwd|" + f["name"].split("::")[-1])


# fitting routine -> (mass matrix functions whose eigenvalues it fits to pole masses, what the property names)
FITS = {
    "convert_Mu_M1_M2": (("get_mass_matrix_Chi", "get_mass_matrix_Cha"), "chargino / bino-like neutralino masses (mu, M1, M2)"),
    "convert_ml2": (("get_mass_matrix_SvmL",), "muon-sneutrino mass (msl(2,2))"),
    "convert_me2": (("get_mass_matrix_Sm",), "right-handed smuon mass (mse(2,2))"),
}


def _fit_survives(F, R, FW):
    R.rule("R10", "once a sector has been fitted to its pole masses, no later statement of convert_to_onshell overwrites a "
                  "Lagrangian parameter that enters that sector's mass matrix, unless the sector is fitted again afterwards "
                  "(otherwise the final spectrum misses the pole mass without any warning)", 3)
    fs = [f for f in F.fns("gm2calc::MSSMNoFV_onshell::convert_to_onshell") if len(f["params"]) == 2]
    if len(fs) != 1:
        R.soft_broken("R10: convert_to_onshell(precision, max_iterations) not found")
        return
    f = fs[0]
    stmts = f["body"].get("c", [])
    cls = "gm2calc::MSSMNoFV_onshell_mass_eigenstates::"

    def callee_names(s):
        return [str(n.get("fn") or "").split("::")[-1] for n in walk(s) if is_call(n)]

    for routine, (mms, what) in FITS.items():
        idx = [i for i, s in enumerate(stmts) if routine in callee_names(s)]
        if not idx:
            R.soft_broken("R10: convert_to_onshell does not call %s" % routine)
            continue
        last_fit = idx[-1]
        inputs = set()
        for mm in mms:
            g = F.fn(cls + mm)
            inputs |= {x for x in FW.reads(g["body"])}
        bad = None
        for j in range(last_fit + 1, len(stmts)):
            w = FW.writes(stmts[j]) & inputs
            if w:
                bad = (stmts[j], sorted(x.split("::")[-1] for x in w))
                break
        if bad is None:
            R.ok("R10", "%s: nothing after the fit writes an input of %s" % (routine, "/".join(m[16:] for m in mms)), F.loc(f, stmts[last_fit]))
        else:
            st, w = bad
            who = [c for c in callee_names(st) if c.startswith(("convert_", "calculate_", "set_"))][:1] or callee_names(st)[:1]
            R.fail("R10", "%s then %s" % (routine, who[0] if who else "statement"), F.loc(f, st),
                   "%s, called after %s fitted the %s, overwrites %s, which enter(s) %s; the sector is not fitted again, so the "
                   "final spectrum can miss the pole mass by more than the requested precision without a warning"
                   % (who[0] if who else "a statement", routine, what, ", ".join(w), "/".join(mms)),
                   key="R10|%s|%s" % (routine, who[0] if who else "stmt"))


def _alias_of(f, vid):
    """the parameter a local `const T x = param;` stands for (or vid itself)"""
    for d_ in walk(f["body"]):
        if d_.get("k") == "DeclStmt":
            for dd in d_.get("decls", ()):
                ini = strip_all(dd.get("init")) if dd.get("init") is not None else None
                if dd.get("id") == vid and ini is not None and ini.get("k") == "DeclRefExpr":
                    return _alias_of(f, ini.get("id"))
    return vid


def _pole_pairs(F, R, FW):
    """pole masses and pole mixing matrices of one sector must have one provenance: the model fills a pole mixing matrix
    only in the same guarded block that fills the pole masses of that sector (both empty -> both from the tree-level
    spectrum); a mixing matrix filled on its own is combined with the *user's* pole masses, and survives on the object"""
    R.rule("R11", "the model writes a pole mixing matrix (physical.ZN, UM, UP, ZM, ...) only together with the pole masses of the "
                  "same sector, under the test that those pole masses are empty (one provenance per sector)", 10)
    cls = "gm2calc::MSSMNoFV_onshell_mass_eigenstates::"
    # sector pairing from the spectrum routines: calculate_MX: decomposition(mass matrix, MX, Z...)
    pair = {}
    E = Evaluator(F, inline=lambda n, g: False, max_depth=2)
    for k, f in F.functions.items():
        if not re.match(r"^" + re.escape(cls) + r"calculate_M\w+$", f["name"]):
            continue
        E.effects = []
        try:
            E.function_value(f)
        except Exception:
            continue
        for cnd, c, n in E.effects:
            if re.search(r"(^|::)fs_(svd|diagonalize_\w+)$", str(c[1]).split("<")[0]):
                flds = [a[2] for a in c[2][1:] if a[0] == "field" and a[1] == ("this",)]
                if flds:
                    for z in flds[1:]:
                        pair[z] = flds[0]
    if len(pair) < 8:
        R.soft_broken("R11: mixing-matrix/mass pairing could not be derived (%d pairs)" % len(pair))
        return
    n_sites = 0
    for k, f in sorted(F.functions.items()):
        if not f["name"].startswith("gm2calc::MSSMNoFV_onshell::") or not f["file"].startswith("src/MSSMNoFV/MSSMNoFV_onshell.cpp"):
            continue
        S = None
        Rr = None
        for n in walk(f["body"]):
            if not (n.get("k") in ("BinaryOperator", "CXXOperatorCallExpr") and n.get("op") == "="):
                continue
            lhs = strip_all(n["c"][0] if n["k"] == "BinaryOperator" else n["c"][1])
            if lhs is None or lhs.get("k") != "MemberExpr" or (lhs.get("sn") or "") not in pair:
                continue
            # physical.<Z>: the object is the pole-mass struct
            inner = [x for x in walk(lhs) if x is not lhs and (x.get("k") == "MemberExpr" and (x.get("sn") == "physical") or
                                                               is_call(x) and str(x.get("fn") or "").endswith("get_physical"))]
            if not inner:
                continue
            S = S or Struct(f)
            Rr = Rr or Renderer(f, resolve_locals=False)
            z, m = lhs["sn"], pair[lhs["sn"]]
            n_sites += 1
            blk = S.enclosing(n, ("IfStmt",))
            ok, why = False, "the assignment is not inside an `if (is_zero(physical.%s))` block" % m
            if blk is not None:
                ctxt = Rr.r(blk["cond"])
                writes_m = any(x.get("k") == "MemberExpr" and x.get("sn") == m and
                               any(y.get("k") in ("BinaryOperator", "CXXOperatorCallExpr") and y.get("op") == "=" and
                                   (strip_all(y["c"][0] if y["k"] == "BinaryOperator" else y["c"][1]) is x) for y in walk(blk.get("then")))
                               for x in walk(blk.get("then")))
                tests_m = re.search(r"is_zero\((get_physical\(\)|physical)\.%s\b" % re.escape(m), ctxt) is not None
                ok = writes_m and tests_m
                why = "physical.%s is written under `%s`%s" % (z, ctxt[:60], "" if writes_m else " without the pole masses physical.%s" % m)
            R.check("R11", ok, "%s: physical.%s filled together with physical.%s" % (f["name"].split("::")[-1], z, m), F.loc(f, n),
                    why + ": the tree-level mixing matrix would be combined with pole masses of another origin and stay on the object "
                    "for later conversions", key="R11|%s|%s" % (f["name"].split("::")[-1], z))
    if n_sites < 8:
        R.soft_broken("R11: expected the fill-if-empty sites of copy_susy_masses_to_pole, found %d" % n_sites)
