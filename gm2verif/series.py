"""Exact truncated Laurent series of canonical closed forms (closedform.canon) around x = x0.
Coefficients are Poly over constant atoms (pi, log 2, ...) with Fraction coefficients -- no
floating point.  Supported atoms: the expansion variable, LOG(arg) with arg(x0) a positive
rational, LI2(arg) with arg(x0) = 0, constants.  Anything else raises SeriesError."""
from fractions import Fraction

from .poly import Poly, Rat
from .closedform import ARGS


class SeriesError(Exception):
    pass


ZERO = Poly()
ONE = Poly.const(1)


class Ser:
    """sum_{k >= 0} c[k] d^k  truncated at order N (exclusive)"""
    __slots__ = ("c", "N")

    def __init__(self, c, N):
        self.N = N
        c = list(c)[:N]
        self.c = c + [ZERO] * (N - len(c))

    @staticmethod
    def const(p, N):
        return Ser([p if isinstance(p, Poly) else Poly.const(p)], N)

    def __add__(self, o):
        return Ser([a + b for a, b in zip(self.c, o.c)], self.N)

    def __sub__(self, o):
        return Ser([a - b for a, b in zip(self.c, o.c)], self.N)

    def scale(self, k):
        return Ser([a.scale(k) for a in self.c], self.N)

    def __mul__(self, o):
        N = self.N
        r = [ZERO] * N
        for i, a in enumerate(self.c):
            if not a.t:
                continue
            for j, b in enumerate(o.c):
                if i + j >= N:
                    break
                if b.t:
                    r[i + j] = r[i + j] + a * b
        return Ser(r, N)

    def val(self):
        for i, a in enumerate(self.c):
            if a.t:
                return i
        return None

    def shift(self, k):
        """divide by d^k (k <= valuation)"""
        return Ser(self.c[k:], self.N)

    def inv(self):
        a0 = self.c[0]
        if not a0.is_const() or not a0.t:
            raise SeriesError("series inversion needs a rational non-zero leading coefficient")
        a0 = a0.const_value()
        N = self.N
        r = [ZERO] * N
        r[0] = Poly.const(1 / a0)
        for n in range(1, N):
            s = ZERO
            for k in range(1, n + 1):
                if self.c[k].t and r[n - k].t:
                    s = s + self.c[k] * r[n - k]
            r[n] = s.scale(-1 / a0)
        return Ser(r, N)

    def pow(self, n):
        r = Ser.const(1, self.N)
        for _ in range(n):
            r = r * self
        return r


def _mentions(r, var):
    for p in (r.n, r.d):
        for a in p.atoms():
            if a == ("sym", var):
                return True
            if isinstance(a, tuple) and a and a[0] in ("LOG", "LI2", "SQRT") and isinstance(a[1], tuple) and _mentions(ARGS[a[1]], var):
                return True
            if isinstance(a, tuple) and a and a[0] == "FN":
                if any(_mentions(ARGS[k], var) for k in a[2]):
                    return True
    return False


def poly_series(p, var, x0, N, memo=None):
    """series in d = var - x0 of a Poly over canonical atoms"""
    memo = {} if memo is None else memo
    tot = Ser([], N)
    for m, c in p.t.items():
        term = Ser.const(Poly.const(c), N)
        for atom, e in m:
            term = term * atom_series(atom, var, x0, N, memo).pow(e)
        tot = tot + term
    return tot


def atom_series(atom, var, x0, N, memo):
    k = (atom, var, x0, N)
    if k in memo:
        return memo[k]
    if atom == ("sym", var):
        r = Ser([Poly.const(x0), ONE], N)
    elif isinstance(atom, tuple) and atom[0] in ("LOG", "LI2", "FN", "SQRT") and isinstance(atom[1], tuple) \
            and atom[0] in ("LOG", "LI2") and not _mentions(ARGS[atom[1]], var):
        r = Ser.const(Poly.atom(atom), N)
    elif isinstance(atom, tuple) and atom[0] == "LOG" and isinstance(atom[1], tuple):
        a = rat_series(ARGS[atom[1]], var, x0, N, memo)
        v, sh = a
        if sh != 0 or not v.c[0].is_const() or not v.c[0].t or v.c[0].const_value() <= 0:
            raise SeriesError("log of a series whose constant term is not a positive rational")
        a0 = v.c[0].const_value()
        from .closedform import _log_of_rational
        u = Ser([ZERO] + [c.scale(1 / a0) for c in v.c[1:]], N)      # (a - a0)/a0
        r = Ser.const(_log_of_rational(a0) if a0 != 1 else ZERO, N)
        pw = Ser.const(1, N)
        for j in range(1, N):
            pw = pw * u
            r = r + pw.scale(Fraction((-1) ** (j + 1), j))
    elif isinstance(atom, tuple) and atom[0] == "LI2" and isinstance(atom[1], tuple):
        v, sh = rat_series(ARGS[atom[1]], var, x0, N, memo)
        if sh != 0 or v.c[0].t:
            raise SeriesError("Li2 of a series with non-zero constant term")
        r = Ser([], N)
        pw = Ser.const(1, N)
        for j in range(1, N):
            pw = pw * v
            r = r + pw.scale(Fraction(1, j * j))
    elif isinstance(atom, tuple) and atom[0] == "FN" and atom[1] == "f_PS" and len(atom[2]) == 1:
        v, sh = rat_series(ARGS[atom[2][0]], var, x0, N, memo)
        if sh != 0 or not v.c[0].is_const() or v.c[0].const_value() != Fraction(1, 4):
            raise SeriesError("f_PS can only be expanded around argument 1/4")
        sser = Ser([ZERO] + v.c[1:], N)                 # s = arg - 1/4
        a = fps_quarter_coeffs(N)
        r = Ser([], N)
        pw = Ser.const(1, N)
        for j in range(N):
            if j:
                pw = pw * sser
            r = r + Ser([c * a[j] for c in pw.c], N)
    elif isinstance(atom, tuple) and atom[0] in ("const", "sqrtQ") or (isinstance(atom, tuple) and atom[0] == "LOG"):
        r = Ser.const(Poly.atom(atom), N)
    elif isinstance(atom, tuple) and atom[0] == "sym":
        r = Ser.const(Poly.atom(atom), N)           # another variable: a constant of this expansion
    else:
        raise SeriesError("no series for atom %s" % (atom,))
    memo[k] = r
    return r


def rat_series(r, var, x0, N, memo=None, extra=10):
    """(series, shift): r = d^shift * series   (shift < 0: pole)"""
    memo = {} if memo is None else memo
    M = N + extra
    n = poly_series(r.n, var, x0, M, memo)
    d = poly_series(r.d, var, x0, M, memo)
    vn, vd = n.val(), d.val()
    if vd is None:
        raise SeriesError("denominator vanishes to the computed order")
    if vn is None:
        return Ser([], N), 0
    q = n.shift(vn) * d.shift(vd).inv()
    sh = vn - vd
    if sh >= 0:
        return Ser([ZERO] * sh + q.c, N), 0
    return Ser(q.c, N), sh


def taylor(r, var, x0, N):
    """Taylor coefficients c_0..c_{N-1} of a rational closed form regular at x0 (SeriesError if it has a pole)"""
    s, sh = rat_series(r, var, Fraction(x0), N)
    if sh < 0:
        raise SeriesError("closed form has a pole of order %d at %s = %s" % (-sh, var, x0))
    return s.c


def fps_quarter_coeffs(N):
    """Taylor coefficients of f_PS at z = 1/4 (Poly over log 2), from the differential equation
         z (4z - 1) f'(z) = (2z - 1) f(z) - 2 z log z,
    which is what ffunctions.m states when it gives FPZ[x,x] = -2x(fPS[x] + Log[x])/(4x - 1) as the y -> x
    limit  x f'(x) - f(x)  of FPZ[x,y] = (y fPS[x] - x fPS[y])/(x - y).  Analyticity at 1/4 fixes f(1/4) = 2 log 2."""
    from .closedform import LOG
    L2 = Poly.atom(LOG("2"))
    # g(t) = 2 (1/4 + t) log(1/4 + t),  log(1/4 + t) = -2 log 2 + sum_{k>=1} (-1)^{k+1} (4t)^k / k
    lg = [L2.scale(-2)] + [Poly.const(Fraction((-1) ** (k + 1) * 4 ** k, k)) for k in range(1, N + 1)]
    g = []
    for n in range(N + 1):
        c = lg[n].scale(Fraction(1, 2))
        if n >= 1:
            c = c + lg[n - 1].scale(2)
        g.append(c)
    a = [g[0].scale(-2)]
    for n in range(1, N):
        rhs = a[n - 1].scale(2 - 4 * (n - 1)) - g[n]
        a.append(rhs.scale(1 / (Fraction(n) + Fraction(1, 2))))
    return a


# ---- expansions for z -> infinity -------------------------------------------------------------------

LZ = ("LOGZ",)      # log z, a formal constant of the expansion in u = 1/z


def fps_infinity_coeffs(N):
    """f_PS(z) = sum_n (p_n + q_n log z) z^-n for z -> infinity, from the same differential equation
    z(4z-1) f' = (2z-1) f - 2z log z:  q_0 = 1, p_0 = 2, q_m = m q_{m-1}/(4m+2), p_m = (4 q_m - q_{m-1} + m p_{m-1})/(4m+2)"""
    q, p = [Fraction(1)], [Fraction(2)]
    for m in range(1, N):
        qm = m * q[m - 1] / (4 * m + 2)
        pm = (4 * qm - q[m - 1] + m * p[m - 1]) / (4 * m + 2)
        q.append(qm)
        p.append(pm)
    return [Poly.const(p[n]) + Poly.atom(LZ).scale(q[n]) for n in range(N)]


def asymptotic(r, var, N):
    """(coeffs, shift): r = z^(-shift) * sum_n coeffs[n] z^-n  for z = var -> infinity; coefficients are Poly over
    log z (atom LZ) and constants.  Atoms allowed: z, LOG(z), f_PS(z), constants."""
    from .closedform import key as ckey
    z = ("sym", var)
    U = ("sym", "__u")
    kz = ckey(Rat(Poly.atom(z)))
    memo = {}
    M = N + 10
    useries = Ser([ZERO, ONE], M)

    def atom_ser(a):
        """(series in u, shift)"""
        if a == z:
            return Ser.const(1, M), -1
        if isinstance(a, tuple) and a[0] == "LOG" and a[1] == kz:
            return Ser.const(Poly.atom(LZ), M), 0
        if isinstance(a, tuple) and a[0] == "FN" and a[1] == "f_PS" and a[2] == (kz,):
            return Ser(fps_infinity_coeffs(M), M), 0
        if isinstance(a, tuple) and a[0] in ("LOG", "LI2", "FN", "SQRT") and isinstance(a[1], tuple):
            if a[0] in ("LOG", "LI2") and not _mentions(ARGS[a[1]], var):
                return Ser.const(Poly.atom(a), M), 0
            raise SeriesError("no expansion at infinity for %s" % (a,))
        return Ser.const(Poly.atom(a), M), 0

    def poly_ser(p):
        """sum of (series, shift) with a common shift"""
        terms = []
        for m, c in p.t.items():
            s_, sh = Ser.const(Poly.const(c), M), 0
            for a, e in m:
                sa, sha = atom_ser(a)
                s_ = s_ * sa.pow(e)
                sh += sha * e
            terms.append((s_, sh))
        if not terms:
            return Ser([], M), 0
        lo = min(sh for _, sh in terms)
        tot = Ser([], M)
        for s_, sh in terms:
            tot = tot + Ser([ZERO] * (sh - lo) + s_.c, M)
        return tot, lo

    n, shn = poly_ser(r.n)
    d, shd = poly_ser(r.d)
    vn, vd = n.val(), d.val()
    if vd is None:
        raise SeriesError("denominator vanishes at infinity to the computed order")
    if vn is None:
        return [ZERO] * N, 0
    q = n.shift(vn) * d.shift(vd).inv()
    shift = (shn + vn) - (shd + vd)          # r = u^shift * q(u)
    return q.c[:N], shift
