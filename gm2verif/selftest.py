"""Seeded-mutant self-test (DESIGN 2.7): each mutant is one textual edit of a scratch copy of
/repo's sources (never of /repo itself); the rule must fire naming the expected rule.
The scratch copy lives under $TMPDIR and is removed afterwards. Nothing is compiled to machine
code or run: the mutant is only re-parsed by the plugin."""
import json
import os
import shutil
import subprocess
import sys
import tempfile

from .extract import VERIF, REPO

MUTANTS = os.path.join(VERIF, "selftest", "mutants.json")


def make_copy(repo=None):
    repo = repo or REPO
    tmp = tempfile.mkdtemp(prefix="gm2mut_")
    for sub in ("src", "include", "math"):
        shutil.copytree(os.path.join(repo, sub), os.path.join(tmp, sub))
    shutil.copy(os.path.join(repo, "README.md"), tmp)
    os.makedirs(os.path.join(tmp, "input"), exist_ok=True)
    for f in os.listdir(os.path.join(repo, "input")):
        shutil.copy(os.path.join(repo, "input", f), os.path.join(tmp, "input"))
    return tmp


def apply(tmp, m):
    p = os.path.join(tmp, m["file"])
    s = open(p).read()
    if s.count(m["old"]) < 1:
        return False
    cnt = m.get("count", 1)
    s = s.replace(m["old"], m["new"], cnt)
    open(p, "w").write(s)
    return True


def run_mutant(m, repo=None, keep=False):
    """returns (status, detail): status in caught / missed / stale / broken"""
    tmp = make_copy(repo)
    try:
        edits = m.get("edits") or [m]
        for e in edits:
            if not apply(tmp, e):
                return "stale", "text to replace not found in %s" % e["file"]
        env = dict(os.environ)
        env["GM2_REPO"] = tmp
        env["GM2_NO_EVIDENCE"] = "1"
        env["GM2_CACHE"] = os.path.join(tmp, ".cache")
        from . import extract as X
        base = os.path.join(X.CACHE, X.tree_hash(repo or REPO))
        if os.path.isdir(base):
            env["GM2_CACHE_SEED"] = base
            env["GM2_CHANGED"] = ":".join(e["file"] for e in edits)
        r = subprocess.run([sys.executable, os.path.join(VERIF, "check"), m["property"], "--tier", "quick"],
                           capture_output=True, text=True, env=env)
        out = r.stdout
        if r.returncode == 1:
            want = m.get("expect_rule")
            import re as _re
            lines = [l for l in out.splitlines() if l.startswith("  ") and " -- " in l
                     and not _re.match(r"^\s+\w+\s+\d+/\d+\s", l)]
            if want is None or any(l.strip().startswith(want + " ") for l in lines):
                return "caught", "; ".join(l.strip()[:200] for l in lines[:2])
            return "missed", "fired, but not rule %s: %s" % (want, "; ".join(l.strip()[:160] for l in lines[:2]))
        if r.returncode == 2:
            return "broken", out.strip().splitlines()[-1][:300] if out.strip() else r.stderr[-300:]
        return "missed", "check passed on the mutant"
    finally:
        if not keep:
            shutil.rmtree(tmp, ignore_errors=True)
        # drop the cache generation created for the scratch tree
        # (extract prunes old generations itself)


def load(pid=None):
    with open(MUTANTS) as fh:
        ms = json.load(fh)
    return [m for m in ms if pid is None or m["property"] == pid]


def run_all(pid=None, jobs=8):
    from concurrent.futures import ThreadPoolExecutor
    ms = load(pid)
    with ThreadPoolExecutor(max_workers=jobs) as ex:
        res = list(ex.map(run_mutant, ms))
    return list(zip(ms, res))


REFACTORINGS = os.path.join(VERIF, "selftest", "refactorings.json")


def claimed():
    with open(os.path.join(VERIF, "MANIFEST.json")) as fh:
        return [c["property_id"] for c in json.load(fh)["checks"]]


def run_refactoring(m, props=None):
    """behaviour-preserving edit: every check must stay silent (exit 0). returns list of (property, exit, line)"""
    tmp = make_copy()
    bad = []
    try:
        changed = []
        if m.get("patch"):
            # a multi-file refactoring kept as a unified diff under /verif/selftest/rf/
            pf = os.path.join(VERIF, m["patch"])
            r = subprocess.run(["patch", "-p1", "-s", "-i", pf], cwd=tmp, capture_output=True, text=True)
            if r.returncode != 0:
                return [("-", 9, "stale: %s does not apply" % m["patch"])]
            for l in open(pf):
                if l.startswith("+++ b/"):
                    changed.append(l[6:].strip())
        else:
            for e in (m.get("edits") or [m]):
                if not apply(tmp, e):
                    return [("-", 9, "stale: text to replace not found in %s" % e["file"])]
                changed.append(e["file"])
        env = dict(os.environ)
        env["GM2_REPO"] = tmp
        env["GM2_NO_EVIDENCE"] = "1"
        env["GM2_CACHE"] = os.path.join(tmp, ".cache")
        from . import extract as X
        base = os.path.join(X.CACHE, X.tree_hash(REPO))
        if os.path.isdir(base):
            env["GM2_CACHE_SEED"] = base
            env["GM2_CHANGED"] = ":".join(changed)
        for pid in (props or m.get("props") or claimed()):
            r = subprocess.run([sys.executable, os.path.join(VERIF, "check"), pid, "--tier", "quick"],
                               capture_output=True, text=True, env=env)
            if r.returncode != 0:
                lines = [l.strip() for l in r.stdout.splitlines() if " -- " in l or l.startswith("INCONCLUSIVE")]
                bad.append((pid, r.returncode, (lines[0] if lines else r.stdout[-200:] + r.stderr[-200:])[:260]))
        return bad
    finally:
        shutil.rmtree(tmp, ignore_errors=True)


def run_refactorings(jobs=6):
    from concurrent.futures import ThreadPoolExecutor
    with open(REFACTORINGS) as fh:
        ms = json.load(fh)
    with ThreadPoolExecutor(max_workers=jobs) as ex:
        res = list(ex.map(run_refactoring, ms))
    return list(zip(ms, res))


if __name__ == "__main__" and len(sys.argv) > 1 and sys.argv[1] == "--refactorings":
    nbad = 0
    for m, bad in run_refactorings():
        print("%-7s %-28s %s" % ("silent" if not bad else "ALARM", m["id"], "; ".join("%s exit=%d %s" % b for b in bad)[:400]))
        nbad += bool(bad)
    sys.exit(1 if nbad else 0)

if __name__ == "__main__":
    pid = sys.argv[1] if len(sys.argv) > 1 else None
    bad = 0
    for m, (st, detail) in run_all(pid):
        print("%-8s %-4s %-28s %s" % (st, m["property"], m["id"], detail[:160]))
        if st != "caught":
            bad += 1
    sys.exit(1 if bad else 0)
