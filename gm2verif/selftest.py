"""Seeded-mutant self-test (DESIGN 2.7): each mutant is one textual edit of a scratch copy of
/repo's sources (never of /repo itself); the rule must fire naming the expected rule.
The scratch copy lives under $TMPDIR and is removed afterwards. Nothing is compiled to machine
code or run: the mutant is only re-parsed by the plugin."""
import json
import os
import shutil
import subprocess
import sys
import tempfile

from .extract import VERIF, REPO

MUTANTS = os.path.join(VERIF, "selftest", "mutants.json")


def make_copy(repo=None):
    repo = repo or REPO
    tmp = tempfile.mkdtemp(prefix="gm2mut_")
    for sub in ("src", "include", "math"):
        shutil.copytree(os.path.join(repo, sub), os.path.join(tmp, sub))
    shutil.copy(os.path.join(repo, "README.md"), tmp)
    os.makedirs(os.path.join(tmp, "input"), exist_ok=True)
    for f in os.listdir(os.path.join(repo, "input")):
        shutil.copy(os.path.join(repo, "input", f), os.path.join(tmp, "input"))
    return tmp


def apply(tmp, m):
    p = os.path.join(tmp, m["file"])
    s = open(p).read()
    if s.count(m["old"]) < 1:
        return False
    cnt = m.get("count", 1)
    s = s.replace(m["old"], m["new"], cnt)
    open(p, "w").write(s)
    return True


def run_mutant(m, repo=None, keep=False):
    """returns (status, detail): status in caught / missed / stale / broken"""
    tmp = make_copy(repo)
    try:
        edits = m.get("edits") or [m]
        for e in edits:
            if not apply(tmp, e):
                return "stale", "text to replace not found in %s" % e["file"]
        env = dict(os.environ)
        env["GM2_REPO"] = tmp
        env["GM2_NO_EVIDENCE"] = "1"
        env["GM2_CACHE"] = os.path.join(tmp, ".cache")
        from . import extract as X
        base = os.path.join(X.CACHE, X.tree_hash(repo or REPO))
        if os.path.isdir(base):
            env["GM2_CACHE_SEED"] = base
            env["GM2_CHANGED"] = ":".join(e["file"] for e in edits)
        r = subprocess.run([sys.executable, os.path.join(VERIF, "check"), m["property"], "--tier", "quick"],
                           capture_output=True, text=True, env=env)
        out = r.stdout
        if r.returncode == 1:
            want = m.get("expect_rule")
            import re as _re
            lines = [l for l in out.splitlines() if l.startswith("  ") and " -- " in l
                     and not _re.match(r"^\s+\w+\s+\d+/\d+\s", l)]
            if want is None or any(l.strip().startswith(want + " ") for l in lines):
                return "caught", "; ".join(l.strip()[:200] for l in lines[:2])
            return "missed", "fired, but not rule %s: %s" % (want, "; ".join(l.strip()[:160] for l in lines[:2]))
        if r.returncode == 2:
            return "broken", out.strip().splitlines()[-1][:300] if out.strip() else r.stderr[-300:]
        return "missed", "check passed on the mutant"
    finally:
        if not keep:
            shutil.rmtree(tmp, ignore_errors=True)
        # drop the cache generation created for the scratch tree
        # (extract prunes old generations itself)


def load(pid=None):
    with open(MUTANTS) as fh:
        ms = json.load(fh)
    return [m for m in ms if pid is None or m["property"] == pid]


def run_all(pid=None, jobs=8):
    from concurrent.futures import ThreadPoolExecutor
    ms = load(pid)
    with ThreadPoolExecutor(max_workers=jobs) as ex:
        res = list(ex.map(run_mutant, ms))
    return list(zip(ms, res))


if __name__ == "__main__":
    pid = sys.argv[1] if len(sys.argv) > 1 else None
    bad = 0
    for m, (st, detail) in run_all(pid):
        print("%-8s %-4s %-28s %s" % (st, m["property"], m["id"], detail[:160]))
        if st != "caught":
            bad += 1
    sys.exit(1 if bad else 0)
