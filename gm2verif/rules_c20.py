"""C20 -- SM layer: unitary CKM, consistent EW relations, running masses bypassed exactly when disabled."""
import re
from fractions import Fraction

from .facts import walk, kids, strip_all, call_args, call_object, is_call, in_macro
from .structure import Struct, always_exits
from .render import Renderer
from .terms import Evaluator, Frame, show, subst_fold, num, subterms
from .poly import to_rat, Rat, Poly, NotPolynomial
from .throwmodel import ThrowModel, _unq
from .extract import AnalysisBroken

PID = "C20"
LEVEL = "other"
AN = "gm2calc::(anonymous namespace)::"


def _reduce(p, trig_pairs, phase):
    """normal form modulo c^2 = 1 - s^2 for each (s, c) pair and e * ebar = 1"""
    e, eb = phase
    changed = True
    guard = 0
    while changed and guard < 200:
        guard += 1
        changed = False
        out = Poly()
        for m, c in p.t.items():
            d = dict(m)
            rewritten = False
            if e in d and eb in d:
                k = min(d[e], d[eb])
                d[e] -= k
                d[eb] -= k
                rewritten = True
            term = None
            for s_, c_ in trig_pairs:
                if d.get(c_, 0) >= 2:
                    d[c_] -= 2
                    mono = tuple(sorted(((a, x) for a, x in d.items() if x), key=lambda y: repr(y[0])))
                    base = Poly({mono: c})
                    term = base - base * (Poly.atom(s_) ** 2)
                    rewritten = True
                    break
            if term is None:
                mono = tuple(sorted(((a, x) for a, x in d.items() if x), key=lambda y: repr(y[0])))
                term = Poly({mono: c})
            if rewritten:
                changed = True
            out = out + term
        p = out
    return p


def _reduce_roots(p):
    """replace even powers of sqrt(P) / abs(X) atoms by P / X^2 when P is a polynomial"""
    for _ in range(20):
        hit = None
        for m in p.t:
            for a, e in m:
                if isinstance(a, tuple) and a and a[0] == "call" and a[1] in ("sqrt", "abs") and e >= 2:
                    hit = a
                    break
            if hit:
                break
        if hit is None:
            return p
        try:
            inner = to_rat(hit[2][0])
        except NotPolynomial:
            return p
        N, D = inner.n, inner.d
        if hit[1] == "abs":
            N, D = N * N, D * D
        kmax = max((dict(m).get(hit, 0) // 2) for m in p.t)
        out = Poly()
        for m, c in p.t.items():
            d = dict(m)
            k = d.get(hit, 0) // 2
            d[hit] = d.get(hit, 0) - 2 * k
            mono = tuple(sorted(((a, x) for a, x in d.items() if x), key=lambda y: repr(y[0])))
            # multiplied through by D^kmax (only the vanishing of p is tested)
            out = out + Poly({mono: c}) * (N ** k) * (D ** (kmax - k))
        p = out
    return p


def _power_law_running(F, R):
    """m(Q) = B (Q/Q0)^(-gamma) with B, Q0, gamma independent of Q and gamma = c * coupling, c > 0, is exactly what makes the
    running reduce to its boundary value at Q0, decrease monotonically and compose (m(Q3) = m(Q2) (Q3/Q2)^(-gamma)).
    A regime split on the scale is accepted only if every branch has this form and the branches agree at the boundary."""
    from .rules_c01 import leaves, hoist_ites
    R.rule("R7", "each running-mass routine is one power law in the scale, m(Q) = B (Q/Q0)^(-c * coupling) with c > 0 and B, Q0 "
                 "independent of Q (boundary value at Q0, monotonically decreasing, composition Q1 -> Q2 -> Q3 = Q1 -> Q3); a split "
                 "on the scale must be continuous at its boundary", 3)
    # file-local helpers of gm2_mf.cpp that contain the power law itself (a shared "run to Q" helper) are looked through;
    # helpers that compute a coupling or a boundary value stay opaque atoms
    E = Evaluator(F, inline=lambda n, g: g.get("file") == "src/gm2_mf.cpp" and "(anonymous namespace)" in str(g.get("name"))
                  and any(is_call(x) and str(x.get("fn") or "").split("::")[-1] in ("pow", "exp") for x in walk(g["body"])),
                  max_depth=3)
    SC = ("sym", "scale")

    def has_scale(t):
        return any(x == SC for x in subterms(t))

    def power_law(t):
        """-> (B, Q0, exponent term) or None"""
        fac = []

        def flat(u, inv=False):
            if u[0] == "*":
                flat(u[1], inv)
                flat(u[2], inv)
            elif u[0] == "/":
                flat(u[1], inv)
                flat(u[2], not inv)
            else:
                fac.append((u, inv))
        flat(t)
        scaled = [(u, inv) for u, inv in fac if has_scale(u)]
        if len(scaled) != 1:
            return None
        u, inv = scaled[0]
        if inv or u[0] != "call":
            return None
        if str(u[1]) in ("pow", "std::pow") and len(u[2]) == 2 and not has_scale(u[2][1]):
            base, ex = u[2]
        elif str(u[1]) in ("exp", "std::exp") and len(u[2]) == 1 and u[2][0][0] == "*":
            a, b = u[2][0][1], u[2][0][2]
            lg, ex = (a, b) if has_scale(a) else (b, a)
            if lg[0] != "call" or str(lg[1]) not in ("log", "std::log") or has_scale(ex):
                return None
            base = lg[2][0]
        else:
            return None
        if not (base[0] == "/" and base[1] == SC and not has_scale(base[2])):
            return None
        return [x for x in fac if x is not scaled[0]], base[2], ex

    def negative_multiple_of_coupling(ex):
        """ex = -(positive rational / pi) * (one positive coupling atom)"""
        try:
            r = to_rat(ex)
        except NotPolynomial:
            return False
        if len(r.n.t) != 1:
            return False
        (mono, c), = r.n.t.items()
        dmono = list(r.d.t.items())
        if len(dmono) != 1:
            return False
        c = c / dmono[0][1]
        atoms = [a for a, e in mono if a != ("const", "pi")]
        return c < 0 and len(atoms) == 1 and all(e == 1 for a, e in mono if a != ("const", "pi"))

    def negative_multiple_structural(ex):
        """the same for a coupling that is written out as an expression (an inlined alpha_s(mt) formula): ex is a product /
        quotient whose numeric factors and powers of pi multiply to a negative number and whose remaining factors do not
        depend on the scale -- the coupling expression itself is taken to be positive, as the opaque coupling atom is"""
        fac = []

        def flat(u, inv=False):
            if u[0] in ("*",):
                flat(u[1], inv)
                flat(u[2], inv)
            elif u[0] == "/":
                flat(u[1], inv)
                flat(u[2], not inv)
            elif u[0] == "neg":
                fac.append((("num", -1), False))
                flat(u[1], inv)
            else:
                fac.append((u, inv))
        flat(ex)
        sign, rest = 1, []
        for u, inv in fac:
            try:
                r = to_rat(u)
                if not r.n.t or (len(r.n.t) == 1 and len(r.d.t) == 1 and
                                 all(a == ("const", "pi") for a, e in list(r.n.t)[0]) and
                                 all(a == ("const", "pi") for a, e in list(r.d.t)[0])):
                    cval = (list(r.n.t.values())[0] if r.n.t else 0) / list(r.d.t.values())[0]
                    if cval == 0:
                        return False
                    if cval < 0:
                        sign = -sign
                    continue
            except (NotPolynomial, Exception):
                pass
            rest.append((u, inv))
        return sign < 0 and len(rest) >= 1 and not any(has_scale(u) for u, inv in rest)

    for nm in ("calculate_mt_SM6_MSbar", "calculate_mb_SM6_MSbar", "calculate_mtau_SM6_MSbar"):
        f = F.fn("gm2calc::" + nm)
        ps = [p["name"] for p in f["params"]]
        if "scale" not in ps:
            R.soft_broken("R7: %s has no parameter named scale" % nm)
            continue
        v, fr = E.function_value(f)
        lv = leaves(hoist_ites(v))
        ok, why = True, ""
        forms = []
        for fa, val in lv:
            pl = power_law(val)
            if pl is None:
                if not has_scale(val) and len(lv) > 1:
                    forms.append((fa, val, None))
                    continue
                ok, why = False, "a branch is not of the form B * pow(scale/Q0, e): %s" % show(val)[:120]
                break
            if not negative_multiple_of_coupling(pl[2]) and not negative_multiple_structural(pl[2]):
                ok, why = False, "the exponent %s is not -(c/pi) * coupling with c > 0" % show(pl[2])[:80]
                break
            forms.append((fa, val, pl))
        if ok and len(lv) > 1:
            # continuity at every boundary `scale <op> X`
            for fa, val, pl in forms:
                for c, truth in fa:
                    if c[0] == "cmp" and (c[2] == SC or c[3] == SC):
                        bnd = c[3] if c[2] == SC else c[2]
                        vals = []
                        for fa2, val2, pl2 in forms:
                            t2 = subst_fold(val2, {SC: bnd})
                            # pow(X/X, e) = 1
                            t2 = _pow_one(t2)
                            vals.append(t2)
                        try:
                            r0 = to_rat(vals[0])
                            for t2 in vals[1:]:
                                r2 = to_rat(t2)
                                if not (r0.n * r2.d - r2.n * r0.d).is_zero():
                                    ok, why = False, "the branches disagree at scale = %s: %s vs %s (a jump: the running neither composes nor stays " \
                                                     "monotonic across it)" % (show(bnd), show(vals[0])[:60], show(t2)[:60])
                        except NotPolynomial as ex:
                            ok, why = False, str(ex)[:100]
                if not ok:
                    break
        R.check("R7", ok, "%s: %s" % (nm, "B * (scale/Q0)^(-c*coupling)" if len(lv) == 1 else "%d regimes" % len(lv)), F.loc(f), why,
                key="R7|" + nm)


def _alpha_s_domain(F, R):
    """alpha_s(Q; Lambda) of Eq. (9) hep-ph/0207126 contains log(log(Q^2/Lambda^2)): it is a number only for Q > Lambda.
    Every call outside the bracketed root search must be dominated by a test that excludes Lambda >= Q (with a fallback)."""
    R.rule("R8", "every evaluation of the alpha_s(Q, Lambda_QCD) formula outside the bracketed root search is dominated by an "
                 "early exit for Lambda_QCD >= Q (it contains log(log(Q^2/Lambda^2))): the running masses stay finite for every "
                 "alpha_s(MZ) the search accepts", 2)
    tgt = [f for f in F.functions.values() if f["name"].endswith("::calculate_alpha_s_SM5_at") and f["file"] == "src/gm2_mf.cpp"]
    if len(tgt) != 1:
        R.soft_broken("R8: calculate_alpha_s_SM5_at not found")
        return
    n_sites = 0
    for k, f in sorted(F.functions.items()):
        if f["file"] != "src/gm2_mf.cpp" or "(anonymous class)" in f["name"] or "lambda" in f["name"].split("::")[-1].lower() and False:
            continue
        if "operator()" in f["name"]:
            continue            # the residual of the root search: evaluated inside toms748's bracket, failures are caught (R5)
        S = Struct(f)
        Rr = Renderer(f, resolve_locals=False)
        for n in walk(f["body"]):
            if not (is_call(n) and n.get("mg") == tgt[0]["mg"]):
                continue
            # skip calls that sit inside a lambda body recorded in this function
            if any(a.get("k") == "LambdaExpr" for a in S.ancestors(n)):
                continue
            n_sites += 1
            args = call_args(n)
            q, lam = strip_all(args[0]), strip_all(args[1])
            ok, why = False, "no dominating early exit compares %s with %s" % (Rr.r(lam), Rr.r(q))
            for b in S.executed_before(n):
                if b.get("k") != "IfStmt" or not always_exits(b.get("then")):
                    continue
                c = strip_all(b["cond"])
                if c.get("k") != "BinaryOperator" or c.get("op") not in (">=", ">", "<=", "<"):
                    continue
                l, r = strip_all(c["c"][0]), strip_all(c["c"][1])
                ids_l = {x.get("id") for x in walk(l) if x.get("k") == "DeclRefExpr"}
                ids_r = {x.get("id") for x in walk(r) if x.get("k") == "DeclRefExpr"}
                lam_id, q_id = lam.get("id"), q.get("id")
                if lam_id is None or q_id is None:
                    continue
                # Lambda >= f(Q ...)  or  f(Q ...) <= Lambda, where f is Q itself or min(Q, ...)
                if c["op"] in (">=", ">") and lam_id in ids_l and q_id in ids_r:
                    side = r
                elif c["op"] in ("<=", "<") and lam_id in ids_r and q_id in ids_l:
                    side = l
                else:
                    continue
                txt = Rr.r(side)
                if txt == Rr.r(q) or re.match(r"^(std::)?f?min\(", txt) or txt.startswith("min("):
                    ok = True
            R.check("R8", ok, "%s: alpha_s(%s, %s) only for %s < %s" % (f["name"].split("::")[-1], Rr.r(q), Rr.r(lam), Rr.r(lam), Rr.r(q)),
                    F.loc(f, n), why + ": for Lambda_QCD >= %s the formula takes the logarithm of a non-positive number and the running "
                    "mass is NaN" % Rr.r(q), key="R8|%s|%s" % (f["name"].split("::")[-1], Rr.r(q)))
    if n_sites < 2:
        R.soft_broken("R8: expected the two alpha_s evaluations of calculate_mb_SM6_MSbar, found %d" % n_sites)


def _pow_one(t):
    if not isinstance(t, tuple) or not t:
        return t
    if t[0] == "call" and str(t[1]) in ("pow", "std::pow") and len(t[2]) == 2:
        b = t[2][0]
        try:
            rb = to_rat(b)
            if (rb.n - rb.d).is_zero():
                return ("num", Fraction(1))
        except NotPolynomial:
            pass
    if t[0] in ("+", "-", "*", "/"):
        return (t[0], _pow_one(t[1]), _pow_one(t[2]))
    if t[0] == "neg":
        return ("neg", _pow_one(t[1]))
    if t[0] == "call":
        return ("call", t[1], tuple(_pow_one(a) for a in t[2]))
    return t


def run(F, R, tier):
    R.explanation = (
        "(R1) the standard CKM parametrisation built by get_ckm_from_angles satisfies V V^dagger = 1 as a "
        "polynomial identity in (s_ij, c_ij, e^{i delta}) modulo s^2 + c^2 = 1 and |e| = 1, and every other "
        "producer of a CKM matrix (Wolfenstein conversion, setters, constructor) returns only through it or "
        "throws -- hence unitarity for every accepted input, including the non-finite branch that zeroes "
        "theta_13 and delta; (R2) each Wolfenstein parameter is range-checked (|p| > 1 -> EInvalidInput) before "
        "its first use; (R3) the derived electroweak quantities satisfy cw = |MW/MZ|, sw^2 + cw^2 = 1, "
        "e = g2 sw = gY cw, v = 2 MW/g2, e^2 = 4 pi alpha as identities of the folded getter terms; (R4) in the "
        "THDM mass getters the running-mass routine is applied under exactly `running_couplings && scale > 0` "
        "to the third generation only and is called nowhere else; (R5) a failing Lambda_QCD bracket is caught, "
        "warned about, and the default value is kept.")
    R.undecided = ["positivity, monotonicity and composition of the running masses (numerical)",
                   "unitarity to 1e-14 in floating point (decided: exact algebraic unitarity of the formula)"]

    # ---- R1 unitarity ------------------------------------------------------------
    R.rule("R1", "V V^dagger == 1 for get_ckm_from_angles as a polynomial identity; all other CKM producers "
                 "return only through it", 9 + 4)
    g = F.fn(AN + "get_ckm_from_angles")
    E = Evaluator(F)
    v, fr = E.function_value(g)
    if v[0] != "mat" or (v[1], v[2]) != (3, 3) or len(v[3]) != 9:
        R.broken("R1: get_ckm_from_angles does not fold into a full 3x3 matrix: %s" % show(v)[:120])
    ent = {(i, k): t for i, k, t in v[3]}
    # atoms
    def atom_of(fn, arg):
        return ("call", fn, (("sym", arg),))
    pairs = [(atom_of("sin", a), atom_of("cos", a)) for a in ("theta_12", "theta_13", "theta_23")]
    e_atom = ("call", "polar", (num(1), ("sym", "delta")))
    eb_atom = ("const", "conj_phase")

    def to_poly(t):
        """entry -> polynomial in s, c, e, ebar (1/e written as ebar)"""
        def rewrite(x):
            if x[0] == "/" and x[2] == e_atom:
                return ("*", rewrite(x[1]), eb_atom)
            if x[0] == "call" and str(x[1]).split("::")[-1] == "conj" and len(x[2]) == 1 and x[2][0] == e_atom:
                return eb_atom                       # conj(e^{i delta}) = e^{-i delta} = 1/e^{i delta}
            if x[0] in ("+", "-", "*", "/"):
                return (x[0], rewrite(x[1]), rewrite(x[2]))
            if x[0] == "neg":
                return ("neg", rewrite(x[1]))
            return x
        r = to_rat(rewrite(t), atomize=lambda y: Rat(Poly.atom(y)) if y == eb_atom else None)
        if not r.d.is_const():
            raise NotPolynomial("CKM entry with a non-constant denominator: %s" % show(t)[:80])
        return r.n.scale(1 / r.d.const_value())

    try:
        P = {ik: to_poly(t) for ik, t in ent.items()}
    except NotPolynomial as ex:
        R.broken("R1: %s" % ex)
    allowed = {a for pr in pairs for a in pr} | {e_atom, eb_atom}
    extra = set()
    for p in P.values():
        extra |= p.atoms() - allowed
    if extra:
        R.broken("R1: CKM entries depend on unexpected atoms: %s" % [show(a) for a in extra])

    def conj(p):
        return p.subs({e_atom: Poly.atom(eb_atom), eb_atom: Poly.atom(e_atom)})
    for i in range(3):
        for j in range(3):
            s_ = Poly()
            for k in range(3):
                s_ = s_ + P[(i, k)] * conj(P[(j, k)])
            s_ = _reduce(s_, pairs, (e_atom, eb_atom))
            want = Poly.const(1 if i == j else 0)
            R.check("R1", s_ == want, "(V V^dagger)(%d,%d) == %d" % (i, j, 1 if i == j else 0), F.loc(g),
                    "(V V^dagger)(%d,%d) reduces to %r" % (i, j, s_), key="R1|VVdag|%d%d" % (i, j))
    # producers
    gw = F.fn(AN + "get_ckm_from_wolfenstein")
    rets = [n for n in walk(gw["body"]) if n.get("k") == "ReturnStmt"]
    # every return (there may be several: guard clauses) hands back get_ckm_from_angles(...)
    ok = len(rets) >= 1 and all(r_.get("c") and is_call(_peel(r_["c"][0])) and
                                (_peel(r_["c"][0]).get("fn") or "").endswith("get_ckm_from_angles") for r_ in rets)
    R.check("R1", ok, "get_ckm_from_wolfenstein returns get_ckm_from_angles(...)", F.loc(gw),
            "Wolfenstein conversion does not return through the standard parametrisation", key="R1|wolfenstein")
    for nm, want in (("gm2calc::SM::set_ckm_from_wolfenstein", "get_ckm_from_wolfenstein"),
                     ("gm2calc::SM::set_ckm_from_angles", "get_ckm_from_angles")):
        f = F.fn(nm)
        asg = [n for n in walk(f["body"]) if (n.get("k") == "CXXOperatorCallExpr" and n.get("op") == "=") or
               (n.get("k") == "BinaryOperator" and n.get("op") == "=")]
        ok = len(asg) == 1 and strip_all(asg[0]["c"][-2]).get("sn") == "ckm" and \
            is_call(_peel(asg[0]["c"][-1])) and (_peel(asg[0]["c"][-1]).get("fn") or "").endswith(want)
        R.check("R1", ok, "%s: ckm = %s(...)" % (nm.split("::")[-1], want), F.loc(f), "setter does not assign the parametrised matrix",
                key="R1|" + nm)
    ctor = [f for f in F.fns("gm2calc::SM::SM") if not f["params"]]
    ok = False
    for f in ctor:
        for ini in f.get("inits", ()):
            if ini.get("member", "").endswith("::ckm") and "init" in ini:
                c = _peel(ini["init"])
                ok = is_call(c) and (c.get("fn") or "").endswith("get_ckm_from_angles")
    R.check("R1", ok, "SM(): ckm(get_ckm_from_angles(defaults))", F.loc(ctor[0]) if ctor else "", "default CKM not from the parametrisation",
            key="R1|ctor")

    # R1c: the angles handed to the parametrisation are finite on every path
    Sw = Struct(gw)
    Rw = Renderer(gw, resolve_locals=False)
    from .rules_c16 import _split_guard
    asg = [n for n in walk(gw["body"]) if n.get("k") == "BinaryOperator" and n.get("op") == "=" and
           strip_all(n["c"][0]).get("k") == "DeclRefExpr" and strip_all(n["c"][0]).get("rk") == "Var"]
    # definitions in declaration form (`const double theta_13 = ...;` after a guard clause) count as well
    for n in walk(gw["body"]):
        if n.get("k") == "DeclStmt":
            for d in n.get("decls", ()):
                if d.get("init") is not None and d.get("name") in ("theta_13", "delta"):
                    asg.append({"k": "BinaryOperator", "op": "=", "l": n.get("l"), "_stmt": n,
                                "c": [{"k": "DeclRefExpr", "rk": "Var", "n": d.get("name"), "id": d.get("id")}, d["init"]]})
    n_guarded = 0
    for a in asg:
        var = strip_all(a["c"][0]).get("n", "").split("::")[-1]
        gs = [(Rw.r(c), pol) for g_ in Sw.guards(a.get("_stmt", a)) if g_[0] != "switch"
              for c, pol in _split_guard(g_[0], g_[1])]
        if not gs:
            continue
        n_guarded += 1
        conj_txt = []
        for c_, pol in gs:
            if not pol:
                conj_txt.append("NOT " + c_)
                continue
            x = c_
            # split a rendered conjunction
            parts = re.findall(r"isfinite\([^&]*?\)\)?(?= &&|\)$|$)", x)
            conj_txt.append(x)
        txt = " && ".join(conj_txt)
        rhs_dep = re.findall(r"V13conj", Rw.r(a["c"][1]))
        fin_re = re.search(r"isfinite\(real\(V13conj\)\)", txt) and re.search(r"isfinite\(imag\(V13conj\)\)", txt)
        fin_abs = re.search(r"isfinite\((abs|norm)\(V13conj\)\)", txt)
        pos = [c_ for c_, pol in gs if pol]
        # further positive guards may only be upper bounds on |V13| (they exclude inf and NaN as well)
        only_fin = bool(pos) and all(re.match(r"^\(?(isfinite\(.*\))( && isfinite\(.*\))*\)?$", t_) or
                                     re.match(r"^\(s13 <=? [0-9.]+\)$", t_) for t_ in pos)
        ok = (not rhs_dep) or ((fin_re or fin_abs) and only_fin)
        R.check("R1", bool(ok), "%s assigned from V13conj only if it is finite [%s]" % (var, txt[:80]), F.loc(gw, a),
                "%s = %s is guarded by `%s`, which does not exclude an infinite V13conj: a non-finite angle "
                "reaches the parametrisation and the CKM matrix is NaN, not unitary" % (var, Rw.r(a["c"][1])[:40], txt[:100]),
                key="R1|finite|" + var)
    if n_guarded < 2:
        R.soft_broken("R1c: guarded assignments of theta_13/delta not found")

    # ---- R2 range checks --------------------------------------------------------------
    R.rule("R2", "each Wolfenstein parameter is range-checked (|p| > 1 -> EInvalidInput) before its first use", 4)
    S = Struct(gw)
    Rr = Renderer(gw, resolve_locals=False)
    top = gw["body"].get("c", [])
    for p in gw["params"]:
        uses = [n for n in walk(gw["body"]) if n.get("k") == "DeclRefExpr" and n.get("id") == p["id"]]
        chk = None
        for i, s_ in enumerate(top):
            if s_.get("k") == "IfStmt" and Rr.r(s_["cond"]) == "(1 < abs(%s))" % p["name"] and always_exits(s_["then"]) and \
                    any(_unq(x.get("tt")) == "gm2calc::EInvalidInput" for x in walk(s_["then"]) if x.get("k") == "CXXThrowExpr"):
                chk = (i, s_)
                break
        ok = chk is not None
        if ok:
            for u in uses:
                if S.contains(chk[1], u):
                    continue
                # the use must come after the check: the check statement is executed before it
                before = S.executed_before(u)
                if not any(b is chk[1] for b in before):
                    # uses inside earlier range checks of other parameters are fine (they only compare)
                    anc_if = S.enclosing(u, ("IfStmt",))
                    if not (anc_if is not None and any(anc_if is t_ for t_ in top[:chk[0]])):
                        ok = False
        R.check("R2", ok, "|%s| > 1 -> EInvalidInput before first use" % p["name"], F.loc(gw),
                "Wolfenstein parameter %s is used (asin/sqrt) without a preceding range check" % p["name"],
                key="R2|" + p["name"])

    # ---- R2b domain of the inverse trigonometric functions ---------------------------------------------------------
    R.rule("R2b", "every asin / acos of the Wolfenstein conversion receives an argument in [-1, 1]: proved by interval arithmetic from the "
                  "range checks, or enforced by a dominating test that rejects |argument| > 1 (otherwise the angle, and with it the "
                  "whole CKM matrix, is NaN for admissible input)", 3)
    bounded = set()
    for p in gw["params"]:
        for s_ in top:
            if s_.get("k") == "IfStmt" and Rr.r(s_["cond"]) == "(1 < abs(%s))" % p["name"] and always_exits(s_["then"]):
                bounded.add(p["id"])
    inits = {}
    for n in walk(gw["body"]):
        if n.get("k") == "DeclStmt":
            for d in n.get("decls", ()):
                if "id" in d and d.get("init") is not None:
                    inits[d["id"]] = d["init"]
    INF = float("inf")

    def iv(n, depth=0):
        """interval [lo, hi] of a real expression, (-inf, inf) when unknown"""
        n = strip_all(n)
        if n is None or depth > 12:
            return (-INF, INF)
        k = n.get("k")
        if k in ("FloatingLiteral", "IntegerLiteral"):
            try:
                v = float(n.get("v") if n.get("v") is not None else n.get("s"))
                return (v, v)
            except (TypeError, ValueError):
                return (-INF, INF)
        if k == "DeclRefExpr":
            if n.get("id") in bounded:
                return (-1.0, 1.0)
            if n.get("id") in inits:
                return iv(inits[n["id"]], depth + 1)
            return (-INF, INF)
        if k == "UnaryOperator" and n.get("op") == "-":
            a = iv(n["c"][0], depth + 1)
            return (-a[1], -a[0])
        if k == "BinaryOperator" and n.get("op") in ("*", "+", "-"):
            a, b = iv(n["c"][0], depth + 1), iv(n["c"][1], depth + 1)
            if n["op"] == "+":
                return (a[0] + b[0], a[1] + b[1])
            if n["op"] == "-":
                return (a[0] - b[1], a[1] - b[0])
            if INF in (abs(a[0]), abs(a[1]), abs(b[0]), abs(b[1])):
                return (-INF, INF)
            ps = [x * y for x in a for y in b]
            return (min(ps), max(ps))
        if is_call(n):
            fn = str(n.get("fn") or "").split("(")[0]
            short = fn.split("::")[-1]
            args = call_args(n)
            if short in ("sqr", "pow2") and len(args) == 1:
                a = iv(args[0], depth + 1)
                m = max(abs(a[0]), abs(a[1]))
                return (0.0, m * m)
            if short in ("cube", "pow3") and len(args) == 1:
                a = iv(args[0], depth + 1)
                return (a[0] ** 3, a[1] ** 3) if INF not in (abs(a[0]), abs(a[1])) else (-INF, INF)
            if short == "pow4" and len(args) == 1:
                a = iv(args[0], depth + 1)
                m = max(abs(a[0]), abs(a[1]))
                return (0.0, m ** 4)
            if short in ("min", "fmin") and len(args) == 2:
                a, b = iv(args[0], depth + 1), iv(args[1], depth + 1)
                return (min(a[0], b[0]), min(a[1], b[1]))
            if short in ("max", "fmax") and len(args) == 2:
                a, b = iv(args[0], depth + 1), iv(args[1], depth + 1)
                return (max(a[0], b[0]), max(a[1], b[1]))
            if short in ("abs", "fabs") and len(args) == 1:
                t_ = str(strip_all(args[0]).get("t") or "")
                if "complex" in t_:
                    return (0.0, INF)
                a = iv(args[0], depth + 1)
                return (0.0, max(abs(a[0]), abs(a[1])))
        return (-INF, INF)

    n_sites = 0
    for n in walk(gw["body"]):
        if not (is_call(n) and str(n.get("fn") or "").split("(")[0] in ("std::asin", "asin", "std::acos", "acos")):
            continue
        n_sites += 1
        arg = call_args(n)[0]
        lo, hi = iv(arg)
        ok = lo >= -1.0 and hi <= 1.0
        how = "interval [%g, %g]" % (lo, hi)
        if not ok:
            # a dominating rejection `if (arg > 1) throw` / guard `arg <= 1`, together with arg >= 0 or a lower test
            tests = []
            for b in S.executed_before(n):
                if b.get("k") == "IfStmt" and always_exits(b.get("then")):
                    tests.append(Rr.r(b["cond"]))
            for c, pol in S.guards(n):
                if c != "switch":
                    tests.append(("" if pol else "!") + Rr.r(c))
            a_txt = Rr.r(strip_all(arg))
            base = a_txt
            if strip_all(arg).get("k") == "DeclRefExpr" and strip_all(arg).get("id") in inits:
                base = Rr.r(strip_all(inits[strip_all(arg)["id"]]))
            upper = any(t_ in ("(1 < %s)" % x, "(1.0 < %s)" % x, "!(%s <= 1)" % x) for t_ in tests for x in (a_txt, base)) or \
                any(t_ == "(%s <= 1)" % x for t_ in tests for x in (a_txt, base))
            if not upper:
                # the same on the syntax tree: `arg > 1`, `1 < arg`, `!(arg <= 1)`, `!(1 >= arg)` in an exiting if; or the guards
                # `arg <= 1`, `!(arg > 1)` around the call
                def above_one(cn, pol):
                    cn = strip_all(cn)
                    while cn is not None and cn.get("k") == "UnaryOperator" and cn.get("op") == "!":
                        cn, pol = strip_all(cn["c"][0]), not pol
                    if cn is None or cn.get("k") != "BinaryOperator" or cn.get("op") not in ("<", "<=", ">", ">="):
                        return False
                    l_, r_ = strip_all(cn["c"][0]), strip_all(cn["c"][1])
                    op_ = cn["op"]

                    def is_arg(u):
                        return u is not None and Rr.r(u) in (a_txt, base)

                    def is_one(u):
                        try:
                            return u is not None and u.get("k") in ("FloatingLiteral", "IntegerLiteral") and float(u.get("v") if u.get("v") is not None else u.get("s")) == 1.0
                        except (TypeError, ValueError):
                            return False
                    if is_arg(l_) and is_one(r_):
                        gt = op_ in (">", ">=")
                    elif is_one(l_) and is_arg(r_):
                        gt = op_ in ("<", "<=")
                    else:
                        return False
                    # pol True: the condition holds on the path considered
                    return gt == pol
                for b in S.executed_before(n):
                    if b.get("k") == "IfStmt" and always_exits(b.get("then")) and above_one(b["cond"], True):
                        upper = True
                for c_, pol_ in S.guards(n):
                    if c_ != "switch" and above_one(c_, not pol_):
                        upper = True
            lower = lo >= -1.0 or any(t_ in ("(%s < -1)" % x,) for t_ in tests for x in (a_txt, base))
            ok = upper and lower
            how = "dominating test" if ok else "interval [%g, %g], no dominating rejection of values above 1 (tests seen: %s)" % (lo, hi, tests[-3:])
        R.check("R2b", ok, "%s: %s" % (Rr.r(n)[:60], how if ok else "argument in [-1, 1]"), F.loc(gw, n),
                "the argument of %s is not confined to [-1, 1]: %s; for such input the angle is NaN and every CKM entry with it"
                % (Rr.r(n)[:60], how), key="R2b|%s" % Rr.r(strip_all(arg))[:50])
    if n_sites < 3:
        R.soft_broken("R2b: expected three asin sites in get_ckm_from_wolfenstein, found %d" % n_sites)

    # ---- R3 EW relations -----------------------------------------------------------------
    R.rule("R3", "cw = |MW/MZ|, sw^2 + cw^2 = 1, gY cw = e, g2 sw = e, v g2 = 2 MW, e^2 = 4 pi alpha as identities of "
                 "the folded SM getters", 6)
    Eg = Evaluator(F, inline=lambda n, g_: True)

    def T(name):
        return Eg.function_value(F.fn("gm2calc::SM::" + name))[0]
    th = ("this",)
    mw, mz, al = ("field", th, "mw"), ("field", th, "mz"), ("field", th, "alpha_em_mz")
    try:
        cw, sw, gY, g2, e, v_ = (T(x) for x in ("get_cw", "get_sw", "get_gY", "get_g2", "get_e_mz", "get_v"))
        inputs = {"mw", "mz", "alpha_em_mz", "alpha_em_0", "alpha_s_mz"}
        pure = True
        for nm_, t_ in (("get_cw", cw), ("get_sw", sw), ("get_gY", gY), ("get_g2", g2), ("get_e_mz", e), ("get_v", v_)):
            flds = {x[2] for x in subterms(t_) if x and x[0] == "field" and x[1] == th}
            branches = [x for x in subterms(t_) if x and x[0] == "ite"]
            if (flds - inputs) or branches:
                pure = False
                R.fail("R3", "SM::%s is a function of the SM inputs only" % nm_, "src/SM/SM.cpp",
                       "SM::%s depends on %s%s: the defining relation cannot hold for every state/history" % (
                           nm_, sorted(flds - inputs) or "", " through a state-dependent branch (%s)" % show(branches[0][1])[:80] if branches else ""),
                       key="R3|pure|" + nm_)
        if not pure:
            raise NotPolynomial("derived quantities are not pure functions of the inputs")
        pi = None
        for k_, gl in F.globals.items():
            if gl["name"] == AN + "pi" and gl["file"] == "src/SM/SM.cpp" and "init" in gl:
                pi = Frame(Eg, {"file": gl["file"], "params": [], "body": {"k": "CompoundStmt"}}, {}, th, 0).e(gl["init"])
        if pi is None:
            R.broken("R3: constant pi of SM.cpp not found")
        checks = [
            ("cw^2 == (MW/MZ)^2", ("-", ("*", cw, cw), ("*", ("/", mw, mz), ("/", mw, mz)))),
            ("sw^2 + cw^2 == 1", ("-", ("+", ("*", sw, sw), ("*", cw, cw)), num(1))),
            ("gY * cw == e", ("-", ("*", gY, cw), e)),
            ("g2 * sw == e", ("-", ("*", g2, sw), e)),
            ("v * g2 == 2 MW", ("-", ("*", v_, g2), ("*", num(2), mw))),
            ("e^2 == 4 pi alpha(MZ)", ("-", ("*", e, e), ("*", ("*", num(4), pi), al))),
        ]
        for label, t in checks:
            r = to_rat(t)
            n_ = _reduce_roots(r.n)
            for _ in range(4):
                n_ = _reduce_roots(n_)
            R.check("R3", n_.is_zero(), label, "src/SM/SM.cpp", "identity does not hold for the getter definitions: residual %r" % n_,
                    key="R3|" + label)
    except NotPolynomial as ex:
        R.soft_broken("R3: %s" % ex)

    # ---- R4 running masses ------------------------------------------------------------------
    R.rule("R4", "THDM::get_m{u,d,l}(scale): the running-mass routine replaces the third-generation mass under "
                 "exactly `config.running_couplings && scale > 0`; these routines are called nowhere else", 6)
    run_rx = re.compile(r"^gm2calc::calculate_m(t|b|tau)_SM6_MSbar$")
    callers = {}
    for k, f in F.functions.items():
        for c in F.calls[k]:
            if run_rx.match(c.get("fn") or ""):
                callers.setdefault(c["fn"], set()).add(f["name"])
    for nm, routine, src in (("get_mu", "calculate_mt_SM6_MSbar", "get_mu"), ("get_md", "calculate_mb_SM6_MSbar", "get_md"),
                             ("get_ml", "calculate_mtau_SM6_MSbar", "get_ml")):
        fs = [f for f in F.fns("gm2calc::THDM::" + nm) if len(f["params"]) == 1]
        if len(fs) != 1:
            R.broken("R4: THDM::%s(scale) not found" % nm)
        f = fs[0]
        S = Struct(f)
        Rr = Renderer(f, resolve_locals=False)
        sites = [n for n in walk(f["body"]) if is_call(n) and (n.get("fn") or "").endswith(routine)]
        ok = len(sites) == 1
        why = "expected exactly one call of %s" % routine
        if ok:
            gs = [(Rr.r(c), pol) for c, pol in [x for x in S.guards(sites[0]) if x[0] != "switch"]]
            ok = gs == [("(config.running_couplings && (0 < scale))", True)]
            why = "running is applied under %s, documented: running_couplings && scale > 0" % gs
        if ok:
            # assigned to element (2) of the local copy that is returned
            par = S.parent(sites[0])
            while par is not None and par.get("k") in ("ImplicitCastExpr", "ExprWithCleanups", "MaterializeTemporaryExpr"):
                par = S.parent(par)
            tgt = Rr.r(par["c"][0] if par.get("k") == "BinaryOperator" else (par["c"][1] if par.get("k") == "CXXOperatorCallExpr" else par))
            ok = par is not None and par.get("op") == "=" and re.match(r"^\w+\(2\)$", tgt) is not None
            why = "running mass is not stored into the third-generation element (target %s)" % tgt
        R.check("R4", ok, "THDM::%s: %s under running_couplings && scale > 0 -> element (2)" % (nm, routine), F.loc(f), why,
                key="R4|%s" % nm)
        cs = callers.get("gm2calc::" + routine, set())
        R.check("R4", cs == {"gm2calc::THDM::" + nm}, "%s called only from THDM::%s" % (routine, nm), F.loc(f),
                "running-mass routine is also called from %s" % sorted(cs - {"gm2calc::THDM::" + nm}), key="R4|%s|callers" % routine)

    # ---- R5 Lambda_QCD fallback ------------------------------------------------------------------
    # ---- R6: the running-mass routines keep no state ------------------------------------------------------------
    R.rule("R6", "the running-mass / Lambda_QCD routines (gm2_mf.cpp) and the SM class keep no writable static storage: the "
                 "result is a function of the arguments only, so that running Q1 -> Q2 -> Q3 composes and repeated calls agree", 1)
    stat = [g for g in F.globals.values() if g["file"] in ("src/gm2_mf.cpp", "src/gm2_mf.hpp", "src/SM/SM.cpp")]
    bad = [g for g in stat if not (g["const"] or g["constexpr"] or re.match(r"^const ", g["t"] or ""))]
    R.check("R6", not bad, "%d static-storage variables in gm2_mf.cpp / SM.cpp, all const" % len(stat), "src/gm2_mf.cpp",
            "writable static storage in the running-mass code: %s" % ", ".join(
                "%s (%s:%s%s)" % (g["name"], g["file"], g["line"], ", static local of %s" % g.get("infunc") if g.get("staticlocal") else "")
                for g in bad[:3]), key="R6|statics")

    R.guard(_power_law_running, F, R)
    R.guard(_alpha_s_domain, F, R)

    R.rule("R5", "calculate_lambda_qcd: a failing root search is caught (handler covers every exception the try "
                 "body may raise), warned about, and the default value is kept", 3)
    f = F.fn(AN + "calculate_lambda_qcd")
    M = ThrowModel(F)
    tries = [n for n in walk(f["body"]) if n.get("k") == "CXXTryStmt"]
    if len(tries) != 1:
        R.fail("R5", "calculate_lambda_qcd try", F.loc(f), "root search is not wrapped in a try block", key="R5|try")
    else:
        tr = tries[0]
        inner = M.thrown(f, tr["c"][0], None)
        unc = [t for t in inner if not any(M.catches(h.get("ct"), t) for h in tr["c"][1:])]
        has_root = any(is_call(n) and "toms748_solve" in (n.get("fn") or "") for n in walk(tr["c"][0]))
        R.check("R5", has_root and not unc and bool(inner), "root finder inside try; handler covers %s" % sorted(inner), F.loc(f, tr),
                "exception types %s of the root search are not caught" % unc, key="R5|cover")
        warns = all(any(in_macro(x, "WARNING") for x in walk(h["body"])) for h in tr["c"][1:])
        R.check("R5", warns, "handler warns", F.loc(f, tr), "fallback is silent", key="R5|warn")
        # the result variable: default initialiser, assigned only inside the try
        rets = [n for n in walk(f["body"]) if n.get("k") == "ReturnStmt"]
        rv = strip_all(rets[-1]["c"][0]) if rets else None
        ok = rv is not None and rv.get("k") == "DeclRefExpr"
        if ok:
            vid = rv["id"]
            init = None
            for n in walk(f["body"]):
                if n.get("k") == "DeclStmt":
                    for d in n["decls"]:
                        if d.get("id") == vid:
                            init = d.get("init")
            asg = [n for n in walk(f["body"]) if n.get("k") == "BinaryOperator" and n.get("op") == "=" and strip_all(n["c"][0]).get("id") == vid]
            St = Struct(f)
            ok = init is not None and strip_all(init).get("k") == "FloatingLiteral" and \
                all(St.contains(tr["c"][0], a) for a in asg) and \
                not any(St.contains(h["body"], a) for h in tr["c"][1:] for a in asg)
        R.check("R5", bool(ok), "Lambda_QCD keeps its literal default unless the root search succeeded", F.loc(f),
                "default value is not preserved on failure", key="R5|default")


def _peel(n):
    n = strip_all(n)
    while n is not None and n.get("k") in ("CXXConstructExpr", "CXXFunctionalCastExpr") and len(n.get("c", [])) == 1:
        n = strip_all(n["c"][0])
    return n
