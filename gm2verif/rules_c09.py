"""C09 -- THDM Yukawa parametrisations are equivalent where they describe the same theory."""
import re
from fractions import Fraction

from .facts import walk, kids, strip_all, call_args, call_object, is_call
from .structure import Struct, switch_arms, always_exits
from .terms import Evaluator, Frame, show, subst_fold, num, subterms
from .poly import to_rat, Rat, Poly, NotPolynomial
from .extract import AnalysisBroken

PID = "C09"
LEVEL = "other"

# Table 1 of arXiv:1607.06292  (c = cot(beta), t = -tan(beta), z = the aligned model's zeta_f, 0 = general)
TABLE1 = {
    "type_1": dict(u="c", d="c", l="c"),
    "type_2": dict(u="c", d="t", l="t"),
    "type_X": dict(u="c", d="c", l="t"),
    "type_Y": dict(u="c", d="t", l="c"),
    "aligned": dict(u="z", d="z", l="z"),
    "general": dict(u="0", d="0", l="0"),
}
SIX = ["Gamma_u", "Gamma_d", "Gamma_l", "Pi_u", "Pi_d", "Pi_l"]

# functions that may read the raw inputs (reason each)
ZETA_READERS = {"get_zeta_%s": "Table 1 (aligned arm only)", "validate": "warns about ignored input"}
DELTA_READERS = {"get_rho_%s": "non-general branch only", "validate": "warns about ignored input"}
TYPE_READERS = {"get_zeta_u", "get_zeta_d", "get_zeta_l", "get_rho_u", "get_rho_d", "get_rho_l", "init_yukawas",
                "validate", "yukawa_type_to_string"}


def _enum(F):
    for e in F.enums.values():
        if e["name"] == "gm2calc::thdm::Yukawa_type":
            return {v["name"]: int(v["v"]) for v in e["values"]}
    raise AnalysisBroken("enum Yukawa_type not found")


def _readers(F, qualified_field):
    out = {}
    for k, f in F.functions.items():
        roots = [f["body"]] + [i["init"] for i in f.get("inits", ()) if "init" in i]
        for r in roots:
            for n in walk(r):
                if n.get("k") == "MemberExpr" and n.get("mk") == "Field" and n.get("n") == qualified_field:
                    out.setdefault(f["name"], []).append((f, n))
    return out


def run(F, R, tier):
    R.explanation = (
        "The equivalence clauses reduce to table and information-flow facts: (R1) get_zeta_f, folded per Yukawa "
        "type, equals Table 1 of arXiv:1607.06292, and rho_f, folded per type, equals sqrt2 m zeta_f/v + "
        "Delta_f (types I..aligned) resp. Pi_f/cos(beta) - sqrt2 m tan(beta)/v (general) as rational "
        "identities -- so a discrete type IS the aligned model with the tabulated zeta_f; (R2) inputs "
        "documented as ignored cannot reach a result: raw zeta_f is read only in the aligned arm, Delta_f only "
        "in the non-general branch, and every non-general arm of init_yukawas overwrites all six Yukawa "
        "matrices before reading any; (R3) the Yukawa type is read nowhere else; (R4) validation only warns; "
        "(R5) constructors copy each input into the same-named member.")
    R.assumptions = ["Table 1 of arXiv:1607.06292 as transcribed in rules_c09.TABLE1"]
    R.undecided = ["numerical equality of a_mu between parametrisations (follows from R1-R3 up to rounding)",
                   "aligned <-> general with Pi_f encoding the same couplings (needs the matrix algebra of init_yukawas)"]
    en = _enum(F)
    if sorted(en) != sorted(TABLE1):
        R.broken("Yukawa_type enumerators %s differ from Table 1 rows" % sorted(en))
    E = Evaluator(F)
    th = ("this",)
    yt = ("field", th, "yukawa_type")
    tb, _ = E.function_value(F.fn("gm2calc::THDM_mass_eigenstates::get_tan_beta"))
    vv, _ = E.function_value(F.fn("gm2calc::THDM_mass_eigenstates::get_v"))
    cb, _ = E.function_value(F.fn("gm2calc::THDM_mass_eigenstates::get_cos_beta"))

    def zeta_spec(f_, code):
        if code == "c":
            return ("/", num(1), tb)
        if code == "t":
            return ("neg", tb)
        if code == "z":
            return ("field", th, "zeta_" + f_)
        return num(0)

    # ---- R1 zeta table -------------------------------------------------------
    R.rule("R1", "get_zeta_f folded per Yukawa type equals Table 1 (cot beta / -tan beta / zeta_f / 0); the switch "
                 "is exhaustive", 18)
    zeta_terms = {}
    for f_ in "udl":
        g = F.fn("gm2calc::THDM::get_zeta_" + f_)
        v, fr = E.function_value(g)
        sws = [n for n in walk(g["body"]) if n.get("k") == "SwitchStmt"]
        labels = {int(l) for s in sws for labs, st in switch_arms(s) for l in labs if l != "default"}
        R.check("R1", labels == set(en.values()), "get_zeta_%s handles all %d Yukawa types" % (f_, len(en)), F.loc(g),
                "switch over the Yukawa type is not exhaustive: %s" % sorted(labels), key="R1|%s|exhaustive" % f_)
        for name, val in sorted(en.items(), key=lambda x: x[1]):
            t = subst_fold(v, {yt: num(val)})
            zeta_terms[(f_, name)] = t
            want = zeta_spec(f_, TABLE1[name][f_])
            try:
                ok = t[0] != "throw" and to_rat(t).equals(to_rat(want))
            except NotPolynomial:
                ok = False
            R.check("R1", ok, "zeta_%s(%s) = %s" % (f_, name, show(t)[:40]), F.loc(g),
                    "Table 1 gives %s" % {"c": "cot(beta)", "t": "-tan(beta)", "z": "zeta_" + f_, "0": "0"}[TABLE1[name][f_]],
                    key="R1|zeta_%s|%s" % (f_, name))

    # ---- R1b rho_f ------------------------------------------------------------------
    R.rule("R1b", "rho_f folded per Yukawa type equals sqrt2*m*zeta_f/v + Delta_f (non-general) resp. "
                  "Pi_f/cos(beta) - sqrt2*m*tan(beta)/v (general)", 18)
    sqrt2 = ("call", "sqrt", (num(2),))
    for f_ in "udl":
        g = F.fn("gm2calc::THDM::get_rho_" + f_)
        v, fr = E.function_value(g)
        m = ("sym", g["params"][0]["name"])
        for name, val in sorted(en.items(), key=lambda x: x[1]):
            t = subst_fold(v, {yt: num(val)})
            if name != "general":
                want = ("+", ("/", ("*", ("*", sqrt2, m), zeta_spec(f_, TABLE1[name][f_])), vv), ("field", th, "Delta_" + f_))
            else:
                pi = ("field", th, "Pi_" + f_)
                if f_ == "u":
                    pi = ("call", "real", (pi,))
                want = ("-", ("/", pi, cb), ("/", ("*", ("*", sqrt2, m), tb), vv))
            try:
                a, b = to_rat(t), to_rat(want)
                ok = a.equals(b)
            except NotPolynomial as e:
                R.broken("R1b: rho_%s(%s): %s" % (f_, name, e))
            R.check("R1b", ok, "rho_%s(%s)" % (f_, name), F.loc(g),
                    "rho_%s for type %s is %s; documented: %s" % (f_, name, show(t)[:150], show(want)[:120]),
                    key="R1b|rho_%s|%s" % (f_, name))

    # ---- R2 ignored inputs cannot flow ---------------------------------------------------
    R.rule("R2", "inputs documented as ignored cannot reach a result (raw zeta_f / Delta_f read only under their own "
                 "type guard; each non-general arm of init_yukawas writes all six Yukawa matrices before reading any)", 20)
    for f_ in "udl":
        rd = _readers(F, "gm2calc::THDM::zeta_" + f_)
        allowed = {"gm2calc::THDM::" + (k % f_ if "%s" in k else k) for k in ZETA_READERS}
        for fn, sites in sorted(rd.items()):
            R.check("R2", fn in allowed, "zeta_%s read in %s" % (f_, fn.split("::")[-1]), F.loc(*sites[0]),
                    "raw input zeta_%s is read outside get_zeta_%s/validate: it can influence results of types "
                    "that document it as ignored" % (f_, f_), key="R2|zeta_%s|%s" % (f_, fn))
        # inside get_zeta_f: only under the aligned case
        g = F.fn("gm2calc::THDM::get_zeta_" + f_)
        S = Struct(g)
        for f2, n in rd.get(g["name"], []):
            gs = [x for x in S.guards(n) if x[0] == "switch"]
            ok = bool(gs) and [int(x) for x in gs[0][2] if x != "default"] == [en["aligned"]]
            R.check("R2", ok, "zeta_%s read only in the aligned arm" % f_, F.loc(g, n),
                    "raw zeta_%s is returned for Yukawa types %s" % (f_, gs[0][2] if gs else "all"),
                    key="R2|zeta_%s|arm" % f_)
        rd = _readers(F, "gm2calc::THDM::Delta_" + f_)
        allowed = {"gm2calc::THDM::" + (k % f_ if "%s" in k else k) for k in DELTA_READERS}
        for fn, sites in sorted(rd.items()):
            R.check("R2", fn in allowed, "Delta_%s read in %s" % (f_, fn.split("::")[-1]), F.loc(*sites[0]),
                    "raw input Delta_%s is read outside get_rho_%s/validate" % (f_, f_), key="R2|Delta_%s|%s" % (f_, fn))
    # init_yukawas arms
    g = F.fn("gm2calc::THDM::init_yukawas")
    sws = [n for n in walk(g["body"]) if n.get("k") == "SwitchStmt"]
    if len(sws) != 1:
        R.broken("init_yukawas: expected one switch")
    arms = switch_arms(sws[0])
    seen = set()
    for labels, stmts in arms:
        for lab in labels:
            if lab == "default":
                continue
            name = [k for k, v in en.items() if v == int(lab)][0]
            seen.add(name)
            written = []
            bad_read = None
            flat = []

            def _flatten(xs):
                for x_ in xs:
                    x0 = strip_all(x_)
                    if x0 is not None and x0.get("k") == "CompoundStmt":
                        _flatten(x0.get("c", []))          # an arm written as  case X: { ... } break;
                    else:
                        flat.append(x_)
            _flatten(stmts)
            for st in flat:
                # reads first (arguments), then the write performed by the statement
                w = None
                s0 = strip_all(st)
                if is_call(s0):
                    short = (s0.get("fn") or "").split("::")[-1]
                    m = re.match(r"^set_((Gamma|Pi)_[udl])$", short)
                    if m:
                        w = m.group(1)
                        scan = call_args(s0)
                    elif short == "setZero":
                        o = strip_all(call_object(s0))
                        w = o.get("sn") if o is not None else None
                        scan = []
                    else:
                        scan = [s0]
                else:
                    scan = [s0]
                for root in scan:
                    for x in walk(root):
                        nm = None
                        if x.get("k") == "MemberExpr" and x.get("mk") == "Field" and x.get("sn") in SIX:
                            nm = x["sn"]
                        if is_call(x) and re.match(r"^get_((Gamma|Pi)_[udl])$", (x.get("fn") or "").split("::")[-1]):
                            nm = (x.get("fn") or "").split("::")[-1][4:]
                        if nm and nm.startswith("Pi_") and nm not in written and name != "general":
                            bad_read = (x, nm)
                if w:
                    written.append(w)
            if name != "general":
                missing = [x for x in SIX if x not in written]
                R.check("R2", not missing and bad_read is None, "init_yukawas[%s] writes %s" % (name, ",".join(written)),
                        F.loc(g, stmts[0]) if stmts else F.loc(g),
                        ("input %s is read before being overwritten" % bad_read[1]) if bad_read else
                        "arm leaves %s at its input value: an ignored Pi_f/Gamma_f input survives into the mass matrices" % ", ".join(missing),
                        key="R2|init_yukawas|%s" % name)
            else:
                R.check("R2", sorted(written) == ["Gamma_d", "Gamma_l", "Gamma_u"], "init_yukawas[general] derives Gamma_f from Pi_f",
                        F.loc(g), "general arm writes %s" % written, key="R2|init_yukawas|general")
    R.check("R2", seen == set(en), "init_yukawas handles all Yukawa types", F.loc(g), "missing arms: %s" % sorted(set(en) - seen),
            key="R2|init_yukawas|exhaustive")

    # ---- R3 who reads the type -----------------------------------------------------------------
    R.rule("R3", "the Yukawa type is read only by get_zeta_f, get_rho_f, init_yukawas, validate and "
                 "yukawa_type_to_string (no other code can special-case a type)", 9)
    rd = _readers(F, "gm2calc::THDM::yukawa_type")
    for fn, sites in sorted(rd.items()):
        short = fn.split("::")[-1]
        is_ctor = bool((sites[0][0].get("method") or {}).get("ctor"))
        R.check("R3", short in TYPE_READERS or is_ctor, "yukawa_type read in %s" % short, F.loc(*sites[0]),
                "the Yukawa type is inspected outside the zeta/rho tables: types can now differ from the aligned "
                "model by more than zeta_f", key="R3|%s" % fn)
    # calls of get_zeta_* outside THDM (bosonic 2L uses zeta_l): allowed; comparisons against enum constants elsewhere
    for k, f in sorted(F.functions.items()):
        if f["name"].split("::")[-1] in TYPE_READERS or not F.in_lib(f) or (f.get("method") or {}).get("ctor"):
            continue
        if f["name"].startswith(("gm2calc::thdm::int_to_cpp_yukawa_type", "gm2calc::(anonymous namespace)::c_yukawa",
                                 "gm2calc::(anonymous namespace)::convert_to_basis", "int_to_c_yukawa_type",
                                 "gm2calc::(anonymous namespace)::process_minpar_tuple")):
            continue
        for n in walk(f["body"]):
            if n.get("k") == "DeclRefExpr" and n.get("rk") == "Enum" and (n.get("n") or "").startswith("gm2calc::thdm::Yukawa_type::"):
                R.fail("R3", "%s uses %s" % (f["name"], n["n"].split("::")[-1]), F.loc(f, n),
                       "a specific Yukawa type is special-cased outside the zeta/rho tables", key="R3|enum|%s" % f["name"])

    # ---- R4 validate -----------------------------------------------------------------------------
    R.rule("R4", "validate() only warns: no throw, no write", 1)
    g = F.fn("gm2calc::THDM::validate")
    from .rules_c16 import FieldFlow
    FW = FieldFlow(F)
    throws = [n for n in walk(g["body"]) if n.get("k") == "CXXThrowExpr"]
    wr = FW.writes(g["body"])
    R.check("R4", not throws and not wr and (g.get("method") or {}).get("const"), "validate() const, no throw, no write", F.loc(g),
            "validate %s" % ("throws" if throws else "writes %s" % sorted(wr)), key="R4|validate")

    # ---- R5 constructor mirrors --------------------------------------------------------------------
    R.rule("R5", "both THDM constructors initialise each member from the same-named field of the basis", 14)
    for g in F.fns("gm2calc::THDM::THDM"):
        if not g["params"]:
            continue
        bid = g["params"][0]["id"]
        for ini in g.get("inits", ()):
            if "member" not in ini or "init" not in ini:
                continue
            mem = ini["member"].split("::")[-1]
            srcs = [x for x in walk(ini["init"]) if x.get("k") == "MemberExpr" and x.get("mk") == "Field"
                    and strip_all(x["c"][0]).get("id") == bid]
            if not srcs:
                continue
            R.check("R5", [s_["sn"] for s_ in srcs] == [mem], "THDM(%s): %s(basis.%s)" % (
                (g["params"][0]["t"] or "").split("::")[-1].replace(" &", ""), mem, srcs[0]["sn"]), F.loc(g, ini["init"]),
                "member %s is initialised from basis.%s" % (mem, srcs[0]["sn"]),
                key="R5|%s|%s" % ((g["params"][0]["t"] or "").split("::")[-1], mem))
