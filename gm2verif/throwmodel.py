"""The throw model (DESIGN 2.8): may_throw(f) as least fixed point over the
call graph, with try/catch absorption, a frozen table of throwing external
callees, and an enumerated nothrow-by-assumption class for everything else.

Exception "types" are canonical type strings; an external callee that fits no
class yields the pseudo type 'UNKNOWN:<callee>', which only `catch(...)`
absorbs and which makes an obligation inconclusive (exit 2), never a pass.
"""
import re
from collections import defaultdict

from .facts import walk, kids, strip_all, strip, call_args, is_call, CALL_KINDS

EXT_BASE = {
    "std::runtime_error": "std::exception",
    "std::logic_error": "std::exception",
    "std::invalid_argument": "std::logic_error",
    "std::out_of_range": "std::logic_error",
    "std::domain_error": "std::logic_error",
    "std::length_error": "std::logic_error",
    "std::range_error": "std::runtime_error",
    "std::overflow_error": "std::runtime_error",
    "std::underflow_error": "std::runtime_error",
    "std::bad_cast": "std::exception",
    "boost::bad_lexical_cast": "std::bad_cast",
    "std::bad_function_call": "std::exception",
    "boost::io::format_error": "std::exception",
    "boost::math::evaluation_error": "std::runtime_error",
    "boost::math::rounding_error": "std::runtime_error",
    "std::bad_alloc": "std::exception",
    "std::system_error": "std::runtime_error",
    "std::ios_base::failure": "std::system_error",
}

INT_TYPES = {"int", "unsigned int", "long", "unsigned long", "long long", "unsigned long long",
             "short", "unsigned short", "char", "unsigned char", "signed char", "bool"}

# --- T2: external callees documented to raise (name regex -> exception types)
THROW_TABLE = [
    (r"^std::sto(i|l|ll|ul|ull|f|d|ld)$", ("std::invalid_argument", "std::out_of_range"), "sto*"),
    (r"^std::(vector|deque|array|map|unordered_map|basic_string)<.*>::at$", ("std::out_of_range",), "at"),
    (r"^boost::lexical_cast$", ("boost::bad_lexical_cast",), "lexical_cast"),
    (r"^boost::basic_format<char>::(operator%|str|basic_format|parse)$", ("boost::io::format_error",), "format"),
    (r"^boost::math::tools::toms748_solve$", ("std::domain_error", "boost::math::evaluation_error"), "toms748"),
    (r"^boost::math::tools::(bisect|bracket_and_solve_root|newton_raphson_iterate)$",
     ("std::domain_error", "boost::math::evaluation_error"), "rootfinder"),
    (r"^std::function<.*>::operator\(\)$", ("std::bad_function_call",), "function-call"),
    (r"^std::(optional<.*>::value|any_cast|get<.*variant)", ("std::exception",), "value"),
    (r"^std::(basic_regex|regex_|thread|promise|future|locale|use_facet|bitset)", ("std::exception",), "misc"),
    (r"^std::basic_ios<.*>::exceptions$", ("std::ios_base::failure",), "ios-exceptions"),
    (r"^std::(rethrow_exception|rethrow_if_nested|throw_with_nested|terminate|abort)$", ("std::exception",), "rethrow"),
]
# string members with a position argument: (name regex, index of the position argument)
STRING_POS = [
    (r"^std::basic_string<char>::substr$", 0),
    (r"^std::basic_string<char>::erase$", 0),
    (r"^std::basic_string<char>::insert$", 0),
    (r"^std::basic_string<char>::replace$", 0),
    (r"^std::basic_string<char>::compare$", 0),
    (r"^std::basic_string<char>::copy$", 2),
    (r"^std::basic_string<char>::(append|assign)$", 1),
    (r"^std::basic_string<char>::basic_string$", 1),
]

# --- T3: nothrow-by-assumption classes (A1: allocation failure excluded;
#     A2: default iostream exception mask; A3: NDEBUG => Eigen asserts off)
NOTHROW_CLASSES = [
    (r"^Eigen::", "Eigen (NDEBUG: assertions compiled out)"),
    (r"^__gnu_cxx::", "libstdc++ iterator/helper"),
    (r"^std::", "C++ standard library member not in the throwing table (allocation only)"),
    (r"^boost::algorithm::", "boost string algorithms (allocation only)"),
    (r"^boost::(is_any_of|token_compress|math::tools::eps_tolerance|math::policies::)", "boost helper objects"),
    (r"^boost::(optional|tuples?|math::constants)::", "boost value types"),
    (r"^(operator new|operator delete)", "allocation (A1)"),
    (r"^(printf|puts|fprintf|exit|toupper|tolower|strlen|memcpy|strcmp|fabs|sqrt|log|exp|pow|sin|cos|atan|atan2|asin|acos|fmin|fmax|hypot|log1p|modf|cbrt|tan|sinh|cosh|tanh|floor|ceil|round|trunc|abs|isfinite|isnan|isinf)$",
     "libc / libm"),
]

HOF_STD = re.compile(r"^std::(find_if|for_each|transform|sort|count_if|equal|lexicographical_compare|"
                     r"unique|copy|copy_if|remove_if|all_of|any_of|none_of|accumulate|max_element|"
                     r"min_element|generate|bind|mem_fn|function<.*>::function|stable_sort|partition)$")


def _unq(t):
    if t is None:
        return None
    t = t.strip()
    for pre in ("const ", "volatile "):
        while t.startswith(pre):
            t = t[len(pre):]
    while t.endswith("&") or t.endswith(" "):
        t = t[:-1]
    return t


class ThrowModel:
    def __init__(self, F):
        self.F = F
        self.mt = defaultdict(dict)        # mangled -> {exc type: witness}
        self.terminates = {}               # noexcept function -> {exc: witness}
        self.ext_classes = defaultdict(set)  # class label -> callee names
        self.unknown_ext = defaultdict(set)
        self.parent_cache = {}
        self._functors()
        self._null_functions()
        self._solve()

    # -- hierarchy --------------------------------------------------------
    def ancestors(self, t):
        out = []
        seen = set()
        stack = [t]
        while stack:
            x = stack.pop()
            if x in seen:
                continue
            seen.add(x)
            out.append(x)
            if x in self.F.bases:
                stack.extend(_unq(b) for b in self.F.bases[x])
            if x in EXT_BASE:
                stack.append(EXT_BASE[x])
        return out

    def catches(self, ct, t):
        if ct is None:
            return True
        if t.startswith("UNKNOWN:"):
            return False
        return _unq(ct) in self.ancestors(_unq(t))

    # -- functor resolution for std::function ------------------------------------
    def _functors(self):
        F = self.F
        self.op_call = defaultdict(list)     # record type -> operator() functions
        for k, f in F.functions.items():
            m = f.get("method")
            if m and f["sn"] == "operator()":
                self.op_call[m.get("clsT")].append(k)
        self.fn_targets = defaultdict(set)   # std::function type -> target function keys
        for k, cs in F.calls.items():
            for c in cs:
                fn = c.get("fn") or ""
                if re.match(r"^std::function<.*>::(function|operator=)$", fn):
                    ftype = fn[:fn.rindex(">::") + 1]
                    args = call_args(c)
                    if c.get("k") == "CXXOperatorCallExpr":
                        args = args[1:] if len(args) > 1 else []
                    for a in args:
                        for tgt in self._callables_in(a):
                            self.fn_targets[ftype].add(tgt)

    def _callables_in(self, a):
        """repo functions that may be invoked through the value of expression a"""
        out = set()
        for n in walk(a):
            if n.get("k") == "LambdaExpr" and n.get("mg"):
                out.add(n["mg"])
            elif n.get("k") == "DeclRefExpr" and n.get("rk") == "Func" and n.get("mg") in self.F.functions:
                out.add(n["mg"])
            t = _unq(n.get("t"))
            if t in self.op_call:
                out.update(self.op_call[t])
        return out

    def _null_functions(self):
        """std::function types that are somewhere constructed empty / from nullptr"""
        self.null_fn_types = set()

        def scan(root, where):
            for n in walk(root):
                if n.get("k") in ("CXXConstructExpr", "CXXTemporaryObjectExpr"):
                    fn = n.get("fn") or ""
                    if re.match(r"^std::function<.*>::function$", fn):
                        args = call_args(n)
                        if not args or _unq(strip_all(args[0]).get("t")) in ("std::nullptr_t", "nullptr_t"):
                            self.null_fn_types.add(fn[:fn.rindex(">::") + 1])
        for k, f in self.F.functions.items():
            scan(f["body"], f)
            for ini in f.get("inits", ()):
                if "init" in ini:
                    scan(ini["init"], f)
        for r in self.F.records.values():
            for fl in r["fields"]:
                if "init" in fl:
                    scan(fl["init"], r)
                # a std::function field without initialiser that some ctor leaves out would be
                # empty as well; handled through implicit default construction = no CXXConstructExpr

    # -- structural helpers ---------------------------------------------------
    def parents(self, f):
        key = f["mg"] or f["name"]
        if key not in self.parent_cache:
            par = {}
            roots = [f["body"]] + [i["init"] for i in f.get("inits", ()) if "init" in i]
            for r in roots:
                for n in walk(r):
                    for c in kids(n):
                        par[id(c)] = n
            self.parent_cache[key] = par
        return self.parent_cache[key]

    def _same_ref(self, a, b):
        a, b = strip_all(a), strip_all(b)
        if a is None or b is None or a.get("k") != b.get("k"):
            return False
        if a["k"] == "DeclRefExpr":
            return a.get("id") == b.get("id")
        if a["k"] == "MemberExpr":
            return a.get("n") == b.get("n") and self._same_ref(a["c"][0], b["c"][0])
        if a["k"] == "CXXThisExpr":
            return True
        return False

    def _guarded_by_truth_test(self, f, call, obj):
        """is `obj` (a std::function) tested by `if (!obj) throw/return` earlier in f?"""
        for n in walk(f["body"]):
            if n.get("k") != "IfStmt" or n.get("l", 0) > call.get("l", 0):
                continue
            cond = strip_all(n["cond"])
            if cond.get("k") == "UnaryOperator" and cond.get("op") == "!":
                inner = strip_all(cond["c"][0])
                # operator bool member call
                if inner.get("k") == "CXXMemberCallExpr" and "operator bool" in (inner.get("fn") or ""):
                    from .facts import call_object
                    o = call_object(inner)
                    if o is not None and self._same_ref(o, obj) and always_exits(n.get("then")):
                        return True
        return False

    def _prefix_idiom(self, f, call):
        """str.substr(P.length()) control-dependent on starts_with(str, P) [compare(0, P.size(), P) == 0]"""
        from .facts import call_object
        args = call_args(call)
        if not args:
            return False
        a0 = strip_all(args[0])
        if a0.get("k") != "CXXMemberCallExpr" or not re.search(r"::(length|size)$", a0.get("fn") or ""):
            return False
        P = call_object(a0)
        S = call_object(call)
        par = self.parents(f)
        n = call
        while id(n) in par:
            p = par[id(n)]
            if p.get("k") == "IfStmt" and p.get("then") is not None and _contains(p["then"], n):
                cond = strip_all(p["cond"])
                if is_call(cond) and cond.get("mg") in self.F.functions:
                    cargs = call_args(cond)
                    callee = self.F.functions[cond["mg"]]
                    if len(cargs) == 2 and self._same_ref(cargs[0], S) and self._same_ref(cargs[1], P) \
                            and self._is_starts_with(callee):
                        return True
                # the same test written out (or inlined by the fact normalisation): S.compare(0, P.size(), P) == 0
                if self._is_prefix_test(cond, S, P):
                    return True
            n = p
        return False

    def _is_prefix_test(self, e, S, P):
        from .facts import call_object
        if e is None or e.get("k") != "BinaryOperator" or e.get("op") != "==":
            return False
        lhs, rhs = strip_all(e["c"][0]), strip_all(e["c"][1])
        if rhs.get("k") != "IntegerLiteral" or rhs.get("v") != "0":
            return False
        if lhs.get("k") != "CXXMemberCallExpr" or not (lhs.get("fn") or "").endswith("::compare"):
            return False
        a = call_args(lhs)
        if len(a) != 3 or strip_all(a[0]).get("iv", strip_all(a[0]).get("v")) != "0":
            return False
        if not self._same_ref(call_object(lhs), S) or not self._same_ref(a[2], P):
            return False
        sz = strip_all(a[1])
        return sz.get("k") == "CXXMemberCallExpr" and bool(re.search(r"::(size|length)$", sz.get("fn") or "")) \
            and self._same_ref(call_object(sz), P)

    def _is_starts_with(self, callee):
        """body is `return a.compare(0, b.size(), b) == 0` with a, b the two parameters"""
        body = callee["body"].get("c", [])
        if len(body) != 1 or body[0].get("k") != "ReturnStmt" or len(callee["params"]) != 2:
            return False
        e = strip_all(body[0]["c"][0])
        if e.get("k") != "BinaryOperator" or e.get("op") != "==":
            return False
        from .facts import call_object
        lhs, rhs = strip_all(e["c"][0]), strip_all(e["c"][1])
        if rhs.get("k") != "IntegerLiteral" or rhs.get("v") != "0":
            return False
        if lhs.get("k") != "CXXMemberCallExpr" or not (lhs.get("fn") or "").endswith("::compare"):
            return False
        a = call_args(lhs)
        if len(a) != 3 or strip_all(a[0]).get("iv", strip_all(a[0]).get("v")) != "0":
            return False
        o = strip_all(call_object(lhs))
        p0, p1 = callee["params"]
        if o.get("id") != p0["id"] or strip_all(a[2]).get("id") != p1["id"]:
            return False
        sz = strip_all(a[1])
        return sz.get("k") == "CXXMemberCallExpr" and re.search(r"::(size|length)$", sz.get("fn") or "") \
            and strip_all(call_object(sz)).get("id") == p1["id"]

    # -- string positions ----------------------------------------------------------
    def _find_derived_position(self, f, call, a):
        """position argument is V or V + 1 where every definition of the local V in f is
        `S.find*(...)` on the very string object the member is called on, and the call is
        guarded by `V != npos` (if / loop condition)"""
        from .facts import call_object
        from .structure import Struct
        e = strip_all(a)
        if e.get("k") == "BinaryOperator" and e.get("op") == "+":
            l, r = strip_all(e["c"][0]), strip_all(e["c"][1])
            if r.get("k") == "IntegerLiteral" and r.get("v") == "1":
                e = l
            else:
                return False
        if e.get("k") != "DeclRefExpr" or e.get("rk") != "Var":
            return False
        vid = e["id"]
        obj = call_object(call)
        if obj is None:
            return False
        defs = []
        for n in walk(f["body"]):
            if n.get("k") == "DeclStmt":
                for d in n["decls"]:
                    if d.get("id") == vid:
                        defs.append(d.get("init"))
            elif n.get("k") == "BinaryOperator" and n.get("op") == "=" and \
                    strip_all(n["c"][0]).get("id") == vid and strip_all(n["c"][0]).get("k") == "DeclRefExpr":
                defs.append(n["c"][1])
            elif n.get("k") in ("CompoundAssignOperator",) and strip_all(n["c"][0]).get("id") == vid:
                return False
            elif n.get("k") == "UnaryOperator" and n.get("op") in ("++", "--") and \
                    strip_all(n["c"][0]).get("id") == vid:
                return False
        if not defs:
            return False
        for d in defs:
            d = strip_all(d) if d else None
            if d is None or d.get("k") != "CXXMemberCallExpr" or \
                    not re.match(r"^std::basic_string<char>::(find|rfind|find_first_of|find_first_not_of|"
                                 r"find_last_of|find_last_not_of)$", d.get("fn") or ""):
                return False
            if not self._same_ref(call_object(d), obj):
                return False
        S = self._struct(f)
        for g in S.guards(call):
            if g[0] == "switch":
                continue
            cond, pol = g
            c = strip_all(cond)
            if c.get("k") == "BinaryOperator" and c.get("op") in ("!=", "=="):
                l, r = strip_all(c["c"][0]), strip_all(c["c"][1])
                if l.get("id") == vid and (r.get("n") or "").endswith("::npos") and \
                        ((c["op"] == "!=" and pol) or (c["op"] == "==" and not pol)):
                    return True
        return False

    def _struct(self, f):
        from .structure import Struct
        key = ("S", f["mg"] or f["name"])
        if key not in self.parent_cache:
            self.parent_cache[key] = Struct(f)
        return self.parent_cache[key]

    FROZEN_POS = {
        # (function, callee, position literal): reason
        ("SLHAea::Line::str", "std::basic_string<char>::substr", "1"):
            "Line::str() const: `output.str().substr(1)` after the early return for empty(): the loop "
            "wrote at least the separator blank, so size >= 1",
    }

    def _frozen_position(self, f, call, a):
        from .facts import call_object
        e = strip_all(a)
        key = (f["name"], call.get("fn"), e.get("v"))
        if key in self.FROZEN_POS and e.get("k") == "IntegerLiteral":
            # the structural part of the reason is re-checked: an `if (empty()) return` precedes
            S = self._struct(f)
            for g in S.guards(call):
                if g[0] != "switch" and g[1] is False:
                    c = strip_all(g[0])
                    if is_call(c) and (c.get("fn") or "").endswith("::empty"):
                        return self.FROZEN_POS[key]
        return None

    # -- boost::format arity ------------------------------------------------------
    def _format_ok(self, f, call):
        """a `%`-chain or .str() on boost::format built from a literal whose directive count
        equals the number of fed arguments never raises format_error"""
        # find the chain root: descend through operator% / str object operands
        n_args = 0
        cur = call
        from .facts import call_object
        while True:
            cur = strip_all(cur)
            k = cur.get("k")
            fn = cur.get("fn") or ""
            if k == "CXXMemberCallExpr" and fn.endswith("::str"):
                cur = call_object(cur)
                continue
            if k == "CXXMemberCallExpr" and fn.endswith("::operator%"):
                n_args += 1
                cur = call_object(cur)
                continue
            if k == "CXXOperatorCallExpr" and fn.endswith("::operator%"):
                n_args += 1
                cur = cur["c"][1]
                continue
            if k in ("CXXConstructExpr", "CXXTemporaryObjectExpr", "CXXFunctionalCastExpr") and \
                    ("basic_format" in fn or "basic_format" in (cur.get("t") or "")):
                lit = None
                for x in walk(cur):
                    if x.get("k") == "StringLiteral":
                        lit = x.get("v")
                        break
                if lit is None:
                    return None
                ndir = len(re.findall(r"%(?!%)[-+ #0]*\d*(?:\.\d+)?[a-zA-Z]", lit.replace("%%", "")))
                return ("lit", lit, ndir)
            return None

    def _format_chain_total(self, f, call):
        """for any node of a format chain return (literal, ndirectives, nfed) of the whole chain
        (the chain is the maximal operator%/.str() spine containing the node)"""
        par = self.parents(f)
        top = call
        while id(top) in par:
            p = par[id(top)]
            ps = p
            if ps.get("k") in ("ImplicitCastExpr", "ParenExpr", "ExprWithCleanups", "MaterializeTemporaryExpr",
                               "CXXBindTemporaryExpr", "MemberExpr", "CXXFunctionalCastExpr"):
                top = p
                continue
            if ps.get("k") == "CXXConstructExpr" and ps.get("elidable"):
                top = p
                continue
            fn = ps.get("fn") or ""
            if is_call(ps) and (fn.endswith("::operator%") or fn.endswith("::str")) and "basic_format" in fn:
                top = p
                continue
            break
        # count from the top
        nfed = 0
        lit = None
        for x in walk(top):
            fn = x.get("fn") or ""
            if is_call(x) and fn.endswith("::operator%") and "basic_format" in fn:
                nfed += 1
            if x.get("k") == "StringLiteral" and lit is None and x.get("m") in ("FORMAT_ELEMENT", "FORMAT_SPINFO", None):
                pass
        # literal: the StringLiteral feeding the basic_format constructor
        for x in walk(top):
            fn = x.get("fn") or ""
            if x.get("k") in ("CXXConstructExpr", "CXXTemporaryObjectExpr") and fn.endswith("basic_format<char>::basic_format"):
                for y in walk(x):
                    if y.get("k") == "StringLiteral":
                        lit = y.get("v")
                        break
        if lit is None:
            return None
        ndir = len(re.findall(r"%[-+ #0]*\d*(?:\.\d+)?[a-zA-Z]", lit.replace("%%", "")))
        return lit, ndir, nfed

    # -- classification of one call ------------------------------------------------
    def call_throws(self, f, n):
        F = self.F
        mg = n.get("mg")
        line = n.get("l")
        if mg and mg in F.functions:
            callee = F.functions[mg]
            res = {}
            for t, _w in self.mt[mg].items():
                res[t] = ("call", mg, line)
            return res
        if n.get("nx") is True:
            self.ext_classes["declared noexcept"].add(n.get("fn"))
            return self._callbacks(f, n)
        name = n.get("fn")
        if n.get("impl"):
            self.ext_classes["implicit/defaulted special member (allocation only)"].add(name)
            return {}
        if name is None:
            # call through a function pointer / dependent callee
            callee = strip_all(n["c"][0]) if n.get("c") else None
            return {"UNKNOWN:indirect-call": ("ext", "indirect call", line)}
        if n.get("inroot") and n.get("virt"):
            return {"UNKNOWN:virtual " + name: ("ext", name, line)}
        if n.get("inroot"):
            # declared in the repo but no analysed definition
            if name.endswith("::operator=") or re.search(r"::~", name):
                return {}
            return {"UNKNOWN:undefined " + name: ("ext", name, line)}
        res = {}
        # position-argument string members
        for rx, idx in STRING_POS:
            if re.match(rx, name):
                args = call_args(n)
                if name.endswith("::basic_string"):
                    # only the (str, pos[, n]) constructors throw
                    if len(args) < 2 or _unq(strip_all(args[0]).get("t")) not in (
                            "std::basic_string<char>",) or _unq(strip_all(args[1]).get("t")) not in INT_TYPES:
                        break
                if name.endswith("::erase") or name.endswith("::insert") or name.endswith("::replace"):
                    if not args or _unq(strip_all(args[0]).get("t")) not in INT_TYPES:
                        break   # iterator overloads
                if name.endswith("::append") or name.endswith("::assign") or name.endswith("::compare"):
                    if len(args) <= idx + 1 or _unq(strip_all(args[idx]).get("t")) not in INT_TYPES:
                        break
                if len(args) > idx:
                    a = args[idx]
                    v = a.get("iv", strip_all(a).get("iv", strip_all(a).get("v")))
                    if v == "0":
                        break
                    if a.get("k") == "CXXDefaultArgExpr":
                        break  # all defaults of these members are 0 / npos-lengths
                    if name.endswith("::substr") and self._prefix_idiom(f, n):
                        break
                    if self._find_derived_position(f, n, a):
                        self.ext_classes["string position derived from find*() on the same string and "
                                         "guarded by != npos"].add("%s in %s" % (name, f["name"]))
                        break
                    fz = self._frozen_position(f, n, a)
                    if fz:
                        self.ext_classes["frozen reviewed exception: " + fz].add("%s in %s" % (name, f["name"]))
                        break
                else:
                    break  # position defaulted to 0
                res["std::out_of_range"] = ("ext", name, line)
                self.ext_classes["T2 throwing: string position"].add(name)
                return res
        for rx, types, label in THROW_TABLE:
            if re.match(rx, name):
                if label == "lexical_cast":
                    args = call_args(n)
                    src_t = _unq(strip_all(args[0]).get("t")) if args else None
                    enum_types = {e["name"] for e in F.enums.values()} | {e.get("tname") for e in F.enums.values()}
                    benign = INT_TYPES | {"double", "float", "long double", "std::basic_string<char>",
                                          "char *", "const char *"} | enum_types
                    if src_t is not None and re.match(r"^(const )?char \[\d+\]$", src_t):
                        src_t = "char *"
                    if _unq(n.get("t")) == "std::basic_string<char>" and src_t in benign:
                        self.ext_classes["lexical_cast<string>(arithmetic): cannot fail"].add(name)
                        return {}
                if label == "format":
                    tot = self._format_chain_total(f, n)
                    if tot is not None and tot[1] == tot[2]:
                        self.ext_classes["boost::format literal with matching arity"].add("%r/%d" % (tot[0], tot[2]))
                        return {}
                if label == "function-call":
                    obj = n["c"][1] if n.get("k") == "CXXOperatorCallExpr" else None
                    ftype = _unq(obj.get("t")) if obj else None
                    for tgt in sorted(self.fn_targets.get(ftype, ())):
                        for t in self.mt[tgt]:
                            res[t] = ("call", tgt, line)
                    if not self.fn_targets.get(ftype):
                        res["UNKNOWN:std::function without known target " + str(ftype)] = ("ext", name, line)
                    if ftype in self.null_fn_types and not self._guarded_by_truth_test(f, n, obj):
                        res["std::bad_function_call"] = ("ext", name, line)
                    self.ext_classes["std::function call resolved to repo targets"].add(str(ftype))
                    return res
                for t in types:
                    res[t] = ("ext", name, line)
                self.ext_classes["T2 throwing: " + label].add(name)
                res.update(self._callbacks(f, n))
                return res
        for rx, label in NOTHROW_CLASSES:
            if re.match(rx, name):
                self.ext_classes["T3 " + label].add(name)
                return self._callbacks(f, n)
        if n.get("externC") or re.match(r"^[a-z_][a-z0-9_]*$", name):
            self.unknown_ext[name].add(f["name"])
        self.unknown_ext[name].add(f["name"])
        return {"UNKNOWN:" + name: ("ext", name, line)}

    def _callbacks(self, f, n):
        """exceptions of repo callables handed to an external callee"""
        res = {}
        name = n.get("fn") or ""
        if re.match(r"^std::function<.*>::function$", name):
            return res      # storing a callable does not call it
        for a in call_args(n) if n.get("k") != "CXXOperatorCallExpr" else n.get("c", [])[1:]:
            for tgt in self._callables_in(a):
                for t in self.mt[tgt]:
                    res[t] = ("call", tgt, n.get("l"))
        return res

    # -- body analysis --------------------------------------------------------------
    def thrown(self, f, n, rethrow):
        if n is None:
            return {}
        k = n.get("k")
        if k == "LambdaExpr":
            return {}
        if k == "CXXTryStmt":
            ch = n.get("c", [])
            inner = self.thrown(f, ch[0], rethrow)
            handlers = ch[1:]
            caught = [dict() for _ in handlers]
            out = {}
            for t, w in inner.items():
                for i, h in enumerate(handlers):
                    if self.catches(h.get("ct"), t):
                        caught[i][t] = w
                        break
                else:
                    out[t] = w
            for i, h in enumerate(handlers):
                if caught[i]:
                    out.update(self.thrown(f, h["body"], caught[i]))
            return out
        res = {}
        for c in kids(n):
            res.update(self.thrown(f, c, rethrow))
        if k == "CXXThrowExpr":
            if n.get("rethrow"):
                for t, w in (rethrow or {}).items():
                    res[t] = w
            else:
                res[_unq(n.get("tt"))] = ("throw", None, n.get("l"))
        elif k in CALL_KINDS:
            res.update(self.call_throws(f, n))
        elif k == "CXXNewExpr":
            pass  # A1
        elif k == "CXXDynamicCastExpr" and (n.get("t") or "").endswith("&"):
            res["std::bad_cast"] = ("ext", "dynamic_cast<T&>", n.get("l"))
        elif k == "CXXTypeidExpr":
            pass
        return res

    def analyze(self, key):
        f = self.F.functions[key]
        res = {}
        for ini in f.get("inits", ()):
            if "init" in ini:
                res.update(self.thrown(f, ini["init"], None))
        res.update(self.thrown(f, f["body"], None))
        return res

    def _solve(self):
        F = self.F
        keys = list(F.functions)
        changed = True
        rounds = 0
        while changed:
            changed = False
            rounds += 1
            for k in keys:
                r = self.analyze(k)
                f = F.functions[k]
                if f.get("nx") is True:
                    if r:
                        self.terminates[k] = r
                    r = {}
                if set(r) != set(self.mt[k]):
                    self.mt[k] = r
                    changed = True
            if rounds > 50:
                raise RuntimeError("throw model did not converge")
        self.rounds = rounds

    # -- reporting ---------------------------------------------------------------------
    def witness(self, key, t, depth=0):
        """call chain from function `key` to the origin of exception type t"""
        chain = []
        seen = set()
        cur = key
        while cur is not None and (cur, t) not in seen and len(chain) < 40:
            seen.add((cur, t))
            f = self.F.functions[cur]
            w = self.mt[cur].get(t) or (self.terminates.get(cur) or {}).get(t)
            if w is None:
                # may have been absorbed inside (handler) -- recompute raw
                break
            kind, tgt, line = w
            if kind == "throw":
                chain.append("%s  [throw %s @ %s:%s]" % (f["name"], t, f["file"], line))
                cur = None
            elif kind == "ext":
                chain.append("%s  [%s raises %s @ %s:%s]" % (f["name"], tgt, t, f["file"], line))
                cur = None
            else:
                chain.append("%s  [@ %s:%s]" % (f["name"], f["file"], line))
                cur = tgt
        return chain


def _contains(root, node):
    for x in walk(root):
        if x is node:
            return True
    return False


def always_exits(n):
    """statement never completes normally (return / throw / exit on every path)"""
    if n is None:
        return False
    k = n.get("k")
    if k in ("ReturnStmt", "CXXThrowExpr", "ContinueStmt", "BreakStmt"):
        return True
    if k == "ExprWithCleanups":
        return always_exits(n["c"][0])
    if k == "CompoundStmt":
        return any(always_exits(c) for c in n.get("c", []))
    if k == "IfStmt":
        return always_exits(n.get("then")) and always_exits(n.get("else"))
    if k in CALL_KINDS and n.get("fn") in ("exit", "abort", "std::exit", "std::abort", "_Exit", "quick_exit"):
        return True
    if k == "DoStmt":
        return always_exits(n.get("body"))
    return False
