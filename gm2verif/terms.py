"""E3 front end: abstract (symbolic) evaluation of straight-line C++ fragments into
terms.  No repository code is executed; no path is enumerated and no solver is
involved: statements are folded in source order, branches are kept as `ite`
terms, loops are unrolled only when their trip count is a compile-time
constant, and everything the evaluator does not model becomes an explicit
('unknown', why) term, which the rules report as inconclusive.

Terms are hashable tuples:
  ('num', Fraction)            exact literal (decimal literals are read from their spelling)
  ('sym', name)                free symbol (parameter of the root function)
  ('this',)                    the implicit object of the root function
  ('field', base, name)        data member
  ('elem', base, i, ...)       Eigen / array element with (term) indices
  ('call', fname, (args...))   opaque call (external or not inlined); methods: object first
  ('+'|'-'|'*'|'/', a, b), ('neg', a)
  ('cmp', op, a, b), ('not', a), ('and', a, b), ('or', a, b)
  ('ite', c, a, b)
  ('mat', rows, cols, ((i,k,term), ...))   element-wise built matrix value
  ('unknown', why)
"""
import re
from decimal import Decimal, InvalidOperation
from fractions import Fraction

from .facts import walk, kids, strip_all, call_args, call_object, is_call, CALL_KINDS
from .structure import always_exits

MATH_NAMES = {
    "sqrt": "sqrt", "std::sqrt": "sqrt", "std::abs": "abs", "abs": "abs", "fabs": "abs", "std::fabs": "abs",
    "log": "log", "std::log": "log", "exp": "exp", "std::exp": "exp", "pow": "pow", "std::pow": "pow",
    "sin": "sin", "cos": "cos", "tan": "tan", "atan": "atan", "asin": "asin", "acos": "acos", "atan2": "atan2",
    "std::sin": "sin", "std::cos": "cos", "std::tan": "tan", "std::atan": "atan", "std::asin": "asin",
    "std::acos": "acos", "std::atan2": "atan2", "fmin": "min", "fmax": "max", "std::fmin": "min",
    "std::fmax": "max", "std::min": "min", "std::max": "max", "std::norm": "norm", "std::conj": "conj",
    "std::real": "real", "std::imag": "imag", "std::isfinite": "isfinite", "std::hypot": "hypot",
    "hypot": "hypot", "log1p": "log1p", "std::log1p": "log1p", "std::isnan": "isnan", "std::polar": "polar",
    "std::arg": "arg", "std::cbrt": "cbrt", "cbrt": "cbrt",
}

NUM0 = ("num", Fraction(0))
NUM1 = ("num", Fraction(1))


def num(x):
    return ("num", Fraction(x))


def parse_float(spelling, value=None):
    s = (spelling or "").strip().rstrip("fFlL")
    try:
        return Fraction(Decimal(s))
    except (InvalidOperation, ValueError):
        if value is not None:
            try:
                return Fraction(Decimal(str(value)))
            except (InvalidOperation, ValueError):
                return None
        return None


_INT_T = re.compile(r"^(const )?(unsigned |signed )?(int|long|long long|short|char|std::size_t|size_t|unsigned|Eigen::Index|std::ptrdiff_t|long int|unsigned long)$")


def _is_integer_type(t):
    return bool(t) and bool(_INT_T.match(str(t).strip()))


def _proj(v, i):
    """i-th component of a tuple value, pushed through ite"""
    if isinstance(v, tuple) and len(v) == 4 and v[0] == "ite":
        return ("ite", v[1], _proj(v[2], i), _proj(v[3], i))
    if isinstance(v, tuple) and v[:2] == ("call", "tuple") and i < len(v[2]):
        return v[2][i]
    return ("call", "get<%d>" % i, (v,))


def _proj_init(v, i):
    """i-th initialiser of a brace-initialised aggregate value, pushed through ite; None if v is not of that shape"""
    if isinstance(v, tuple) and len(v) == 4 and v[0] == "ite":
        a, b = _proj_init(v[2], i), _proj_init(v[3], i)
        return None if a is None or b is None else ("ite", v[1], a, b)
    if isinstance(v, tuple) and v[:2] in (("call", "initlist"), ("call", "tuple")) and i < len(v[2]):
        return v[2][i]
    return None


def mk(op, a, b):
    """constant folding for pure numbers, otherwise a plain node"""
    if a[0] == "num" and b[0] == "num":
        if op == "+":
            return ("num", a[1] + b[1])
        if op == "-":
            return ("num", a[1] - b[1])
        if op == "*":
            return ("num", a[1] * b[1])
        if op == "/" and b[1] != 0:
            return ("num", a[1] / b[1])
    return (op, a, b)


class MatVal:
    """mutable element-wise matrix value of a fixed-size Eigen local"""

    def __init__(self, rows, cols):
        self.rows, self.cols = rows, cols
        self.el = {}

    def get(self, i, k):
        return self.el.get((i, k), ("unknown", "uninitialised matrix element (%d,%d)" % (i, k)))

    def freeze(self):
        return ("mat", self.rows, self.cols, tuple(sorted((i, k, v) for (i, k), v in self.el.items())))

    def copy(self):
        m = MatVal(self.rows, self.cols)
        m.el = dict(self.el)
        return m


class StructVal:
    """mutable value of a local plain aggregate (struct with public data members, no methods)"""

    def __init__(self, name, tname):
        self.name, self.tname = name, tname
        self.fields = {}

    def freeze(self):
        return ("struct", self.tname, tuple(sorted((k, (v.freeze() if hasattr(v, "freeze") else v))
                                                   for k, v in self.fields.items())))

    def copy(self):
        s = StructVal(self.name, self.tname)
        s.fields = {k: (v.copy() if hasattr(v, "copy") and not isinstance(v, tuple) else v) for k, v in self.fields.items()}
        return s


class Evaluator:
    def __init__(self, F, inline=None, max_depth=10, opaque=()):
        """inline(fname, fdict) -> bool decides whether a repo callee is evaluated or kept opaque"""
        self.F = F
        self.inline = inline or (lambda name, f: True)
        self.max_depth = max_depth
        self.opaque = set(opaque)
        self.notes = []
        self.effects = []      # (condition term or None, call term, node) of statement-level opaque calls
        self.eigen_kinds = False   # opt-in: a local declared Eigen::Matrix / Eigen::Array records its algebra kind

    # ---- public -------------------------------------------------------------
    def function_value(self, f, args=None, this=("this",), depth=0):
        """term of the value returned by f (parameters become ('sym', name) unless args are given)"""
        env = {}
        for i, p in enumerate(f["params"]):
            env[p["id"]] = args[i] if args is not None and i < len(args) else ("sym", p["name"])
        fr = Frame(self, f, env, this, depth)
        fr.run()
        return fr.result(), fr

    # ---- helpers --------------------------------------------------------------
    def dims_of(self, t):
        from .rules_c14 import _dims
        return _dims(t)

    def field_position(self, t, name):
        """position of field `name` in the plain aggregate of type t (declaration order), or None"""
        t = re.sub(r"^const\s+|\s*&+$", "", str(t or "")).strip()
        rec = self.F.records.get(t)
        if rec is None or rec.get("bases"):
            return None
        names = [fl["name"] for fl in rec.get("fields", ())]
        return names.index(name) if name in names else None


class Frame:
    def __init__(self, ev, f, env, this, depth, base_cond=None):
        self.base_cond = base_cond
        self.ev = ev
        self.F = ev.F
        self.f = f
        self.env = env
        self.this = this
        self.depth = depth
        self.heap = {}          # writes to fields of `this`: name -> term / MatVal
        self.returns = []       # (condition term or None, value)
        self.pathcond = []      # list of condition terms under which the current statement runs

    # ---- driver ----------------------------------------------------------------
    def run(self):
        for ini in self.f.get("inits", ()):
            if "member" in ini and "init" in ini:
                self.heap[ini["member"].split("::")[-1]] = self.e(ini["init"])
        self.block(self.f["body"])

    def result(self):
        if not self.returns:
            return ("void",)
        val = None
        for cond, v in reversed(self.returns):
            if val is None or cond is None:
                val = v if cond is None or val is None else ("ite", cond, v, val)
            else:
                val = ("ite", cond, v, val)
        if self.ev.eigen_kinds and isinstance(val, tuple) and val and val[0] not in ("mat", "num", "unknown", "obj", "void"):
            mk_ = re.search(r"^(const )?Eigen::(Matrix|Array)<", str(self.f.get("ret") or ""))
            if mk_:
                val = ("call", "matrix" if mk_.group(2) == "Matrix" else "array", (val,))
        return val

    def cond_now(self):
        conds = ([self.base_cond] if self.base_cond is not None else []) + self.pathcond
        if not conds:
            return None
        c = conds[0]
        for x in conds[1:]:
            c = ("and", c, x)
        return c

    # ---- statements ----------------------------------------------------------------
    def block(self, n):
        """returns True if control cannot continue past n"""
        if n is None:
            return False
        k = n.get("k")
        if k == "CompoundStmt":
            n0 = len(self.pathcond)
            for s in n.get("c", []):
                if self.block(s):
                    del self.pathcond[n0:]
                    return True
            del self.pathcond[n0:]
            return False
        if k == "DeclStmt":
            for d in n.get("decls", ()):
                if "id" not in d:
                    continue
                if d.get("init") is not None:
                    v = self.e(d["init"])
                    if isinstance(v, MatVal):
                        v = v.copy()
                    if isinstance(v, StructVal):
                        v = v if d.get("ref") else v.copy()
                    elif self.is_plain_aggregate(d) and not d.get("ref") and isinstance(v, tuple) and v[0] == "call" \
                            and v[1] == "initlist":
                        sv = StructVal(d["name"], (d.get("t") or "").replace("const ", "").strip())
                        rec = self.F.records.get(sv.tname)
                        for fl, val in zip(rec["fields"], v[2]):
                            sv.fields[fl["name"]] = val
                        for fl in rec["fields"][len(v[2]):]:
                            if "init" in fl:
                                sv.fields[fl["name"]] = self.e(fl["init"])
                        v = sv
                    elif self.is_plain_aggregate(d) and not d.get("ref") and isinstance(v, tuple) and v[0] == "ite" \
                            and _proj_init(v, 0) is not None and self.F.records.get((d.get("t") or "").replace("const ", "").strip()):
                        # brace-initialised under a ?: / switch (e.g. returned by a helper): field-wise conditional values
                        sv = StructVal(d["name"], (d.get("t") or "").replace("const ", "").strip())
                        rec = self.F.records.get(sv.tname)
                        for i_, fl in enumerate(rec["fields"]):
                            pv = _proj_init(v, i_)
                            if pv is not None:
                                sv.fields[fl["name"]] = pv
                        v = sv
                    elif self.is_plain_aggregate(d) and not d.get("ref") and isinstance(v, tuple) and v[0] == "call" \
                            and str(v[1]).startswith("construct:"):
                        sv = StructVal(d["name"], (d.get("t") or "").replace("const ", "").strip())
                        rec = self.F.records.get(sv.tname)
                        for fl in rec["fields"]:
                            if "init" in fl:
                                sv.fields[fl["name"]] = self.e(fl["init"])
                        v = sv
                    elif self.is_model_object(d) and not d.get("ref"):
                        v = ("obj", d["name"], self.fz(v), ())
                    if self.ev.eigen_kinds and isinstance(v, tuple) and v and v[0] not in ("mat", "num", "unknown", "obj"):
                        # Matrix(Array) / Array(Matrix) conversions change the meaning of `*`: keep the declared kind
                        mk_ = re.search(r"Eigen::(Matrix|Array)<", str(d.get("t") or ""))
                        if mk_:
                            v = ("call", "matrix" if mk_.group(1) == "Matrix" else "array", (v,))
                    self.env[d["id"]] = v
                elif self.is_plain_aggregate(d):
                    sv = StructVal(d["name"], (d.get("t") or "").replace("const ", "").strip())
                    rec = self.F.records.get(sv.tname)
                    for fl in rec["fields"]:
                        if "init" in fl:
                            sv.fields[fl["name"]] = self.e(fl["init"])
                    self.env[d["id"]] = sv
                elif self.is_model_object(d):
                    self.env[d["id"]] = ("obj", d["name"], None, ())
                else:
                    dims = self.ev.dims_of(d.get("t"))
                    self.env[d["id"]] = MatVal(*dims) if dims else ("unknown", "uninitialised " + d["name"])
                # a matrix constructed by copy keeps elementwise value
                if d.get("init") is not None and isinstance(self.env[d["id"]], tuple) and self.env[d["id"]][0] == "mat":
                    self.env[d["id"]] = self.thaw(self.env[d["id"]])
            return False
        if k == "ReturnStmt":
            v = self.e(n["c"][0]) if n.get("c") else ("void",)
            if isinstance(v, MatVal):
                v = v.freeze()
            self.returns.append((self.cond_now(), v))
            return True
        if k == "IfStmt":
            c = self.e(n["cond"])
            if c[0] == "num":
                br = n.get("then") if c[1] != 0 else n.get("else")
                return self.block(br) if br is not None else False
            return self.branch(c, n.get("then"), n.get("else"))
        if k == "ForStmt":
            return self.for_loop(n)
        if k in ("WhileStmt", "DoStmt", "CXXForRangeStmt"):
            if k == "DoStmt":
                c = strip_all(n.get("cond"))
                if c is not None and (c.get("iv") == "0" or c.get("v") in ("0", False)):
                    return self.block(n.get("body"))
            self.havoc(n, "loop")
            return False
        if k == "SwitchStmt":
            return self.switch(n)
        if k in ("NullStmt", "BreakStmt", "ContinueStmt"):
            return k != "NullStmt"
        if k == "CXXTryStmt":
            env0, heap0 = self.snapshot()
            ex = self.block(n["c"][0])
            env_t, heap_t = self.snapshot()
            all_exit = ex
            for h in n["c"][1:]:
                self.restore(*[{k2: (v.copy() if isinstance(v, (MatVal, StructVal)) else v) for k2, v in d.items()}
                               for d in (env0, heap0)])
                n0 = len(self.pathcond)
                self.pathcond.append(("caught", h.get("ct") or "..."))
                hx = self.block(h.get("body"))
                del self.pathcond[n0:]
                env_h, heap_h = self.snapshot()
                if not hx:
                    c = ("caught", h.get("ct") or "...")
                    if all_exit and ex:
                        env_t, heap_t = env_h, heap_h
                    else:
                        env_t, heap_t = self.merge(c, env_h, env_t), self.merge(c, heap_h, heap_t, heap=True)
                    all_exit = False
            self.restore(env_t, heap_t)
            return all_exit
        if k == "CXXThrowExpr":
            self.returns.append((self.cond_now(), ("throw", n.get("tt"))))
            return True
        # expression statement
        v = self.e(n)
        n0 = strip_all(n)
        is_asg = n0 is not None and (n0.get("k") in ("BinaryOperator", "CompoundAssignOperator") or
                                     (n0.get("k") == "CXXOperatorCallExpr" and n0.get("op") in ("=", "+=", "-=", "*=", "/=")))
        if isinstance(v, tuple) and v and v[0] == "call" and not is_asg:
            self.ev.effects.append((self.cond_now(), v, n))
        return False

    def branch(self, c, then, els):
        env0, heap0 = self.snapshot()
        n0 = len(self.pathcond)
        self.pathcond.append(c)
        t_exit = self.block(then) if then is not None else False
        extra_t = self.pathcond[n0 + 1:]     # conditions left behind by early exits nested in the branch
        del self.pathcond[n0:]
        env_t, heap_t = self.snapshot()
        self.restore(env0, heap0)
        self.pathcond.append(("not", c))
        e_exit = self.block(els) if els is not None else False
        extra_e = self.pathcond[n0 + 1:]
        del self.pathcond[n0:]
        env_e, heap_e = self.snapshot()
        if t_exit and e_exit:
            return True
        if t_exit:
            self.restore(env_e, heap_e)
            self.pathcond.append(("not", c))   # the rest of the enclosing block runs only if !c
            self.pathcond.extend(extra_e)
            return False
        if e_exit:
            self.restore(env_t, heap_t)
            self.pathcond.append(c)
            self.pathcond.extend(extra_t)
            return False
        # merge
        self.restore(self.merge(c, env_t, env_e), self.merge(c, heap_t, heap_e, heap=True))
        if extra_t or extra_e:
            def conj(first, rest):
                for x in rest:
                    first = ("and", first, x)
                return first
            self.pathcond.append(("or", conj(c, extra_t), conj(("not", c), extra_e)))
        return False

    def switch(self, n):
        """switch over an integral/enum value: arms are evaluated separately and merged as an ite chain"""
        from .structure import switch_arms
        from .extract import AnalysisBroken
        c = self.fz(self.e(n["cond"]))
        try:
            arms = switch_arms(n)
        except AnalysisBroken:
            self.havoc(n, "switch of unrecognised shape")
            return False
        # group: one entry per distinct label (fall-through arms already carry the following statements)
        env0, heap0 = self.snapshot()
        results = []    # (cond term or None for default, env, heap, exits)
        explicit = []
        for labels, stmts in arms:
            for lab in labels:
                if lab == "default":
                    continue
                explicit.append(lab)
        all_exit = True
        default_seen = False
        for labels, stmts in arms:
            conds = []
            for lab in labels:
                if lab == "default":
                    default_seen = True
                    others = None
                    for x in explicit:
                        t = ("cmp", "!=", c, num(int(x)))
                        others = t if others is None else ("and", others, t)
                    conds.append(others if others is not None else num(1))
                else:
                    conds.append(("cmp", "==", c, num(int(lab))))
            cond = conds[0]
            for x in conds[1:]:
                cond = ("or", cond, x)
            if c[0] == "num":
                # constant scrutinee: only the matching arm runs
                hit = any(lab != "default" and int(lab) == int(c[1]) for lab in labels) or \
                    ("default" in labels and all(int(x) != int(c[1]) for x in explicit))
                if not hit:
                    continue
                cond = num(1)
            self.restore(*[dict(env0) if False else x for x in (
                {k: (v.copy() if isinstance(v, MatVal) else v) for k, v in env0.items()},
                {k: (v.copy() if isinstance(v, MatVal) else v) for k, v in heap0.items()})])
            n0 = len(self.pathcond)
            if cond != num(1):
                self.pathcond.append(cond)
            ex = False
            for s in stmts:
                if s.get("k") == "BreakStmt":
                    break
                if self.block(s):
                    # return/throw end the function; a nested break ends the arm
                    ex = not any(x.get("k") == "BreakStmt" for x in walk(s)) or always_exits_function(s)
                    break
            del self.pathcond[n0:]
            results.append((cond, self.snapshot(), ex))
            if not ex:
                all_exit = False
        if not default_seen and c[0] != "num":
            results.append((None, (env0, heap0), False))
            all_exit = False
        live = [(cond, st) for cond, st, ex in results if not ex]
        if not live:
            self.restore(env0, heap0)
            return all_exit and bool(results)
        env, heap = live[-1][1]
        for cond, (e2, h2) in reversed(live[:-1]):
            if cond is None:
                continue
            env, heap = self.merge(cond, e2, env), self.merge(cond, h2, heap, heap=True)
        self.restore(env, heap)
        return False

    def snapshot(self):
        return ({k: (v.copy() if isinstance(v, (MatVal, StructVal)) else v) for k, v in self.env.items()},
                {k: (v.copy() if isinstance(v, (MatVal, StructVal)) else v) for k, v in self.heap.items()})

    def restore(self, env, heap):
        self.env, self.heap = env, heap

    def heap_default(self, k):
        """value of a heap location that was not written: the field itself"""
        if isinstance(k, str):
            return ("field", self.this, k)
        return k

    def merge(self, c, a, b, heap=False):
        out = {}
        for k in set(a) | set(b):
            va, vb = a.get(k), b.get(k)
            if heap:
                if va is None:
                    va = self.heap_default(k)
                if vb is None:
                    vb = self.heap_default(k)
            if isinstance(va, StructVal) or isinstance(vb, StructVal):
                if isinstance(va, StructVal) and isinstance(vb, StructVal):
                    m = StructVal(va.name, va.tname)
                    m.fields = self.merge(c, va.fields, vb.fields)
                    out[k] = m
                else:
                    out[k] = va if isinstance(va, StructVal) else vb
                continue
            if isinstance(va, MatVal) or isinstance(vb, MatVal):
                if isinstance(va, MatVal) and isinstance(vb, MatVal):
                    m = MatVal(va.rows, va.cols)
                    for ik in set(va.el) | set(vb.el):
                        x, y = va.el.get(ik), vb.el.get(ik)
                        m.el[ik] = x if x == y else ("ite", c, x or ("unknown", "unset"), y or ("unknown", "unset"))
                    out[k] = m
                else:
                    out[k] = va if isinstance(va, MatVal) else vb
                continue
            if va == vb:
                out[k] = va
            elif va is None or vb is None:
                out[k] = va if vb is None else vb
            else:
                out[k] = ("ite", c, va, vb)
        return out

    def for_loop(self, n):
        init, cond, inc, body = n.get("init"), n.get("cond"), n.get("inc"), n.get("body")
        if init is None or cond is None or inc is None or init.get("k") != "DeclStmt" or len(init["decls"]) != 1:
            self.havoc(n, "for loop of unrecognised shape")
            return False
        d = init["decls"][0]
        lo = self.e(d["init"]) if d.get("init") is not None else None
        c0 = strip_all(cond)
        if lo is None or lo[0] != "num" or c0.get("k") != "BinaryOperator" or c0.get("op") not in ("<", "<=", "!="):
            self.havoc(n, "for loop without constant lower bound")
            return False
        if strip_all(c0["c"][0]).get("id") != d["id"]:
            self.havoc(n, "for loop condition not on the loop variable")
            return False
        hi = self.e(c0["c"][1])
        inc0 = strip_all(inc)
        if hi[0] != "num" or not (inc0.get("k") == "UnaryOperator" and inc0.get("op") == "++"):
            self.havoc(n, "for loop without constant trip count")
            return False
        a, b = int(lo[1]), int(hi[1]) + (1 if c0["op"] == "<=" else 0)
        if b - a > 64:
            self.havoc(n, "for loop too long to unroll")
            return False
        for i in range(a, b):
            self.env[d["id"]] = num(i)
            if self.block(body):
                # `break`/`return` inside unrolled loops: give up precision
                self.havoc(n, "exit inside unrolled loop")
                return False
        self.env.pop(d["id"], None)
        return False

    def havoc(self, n, why):
        """forget everything assigned inside n"""
        self.ev.notes.append("%s:%s %s" % (self.f["file"], n.get("l"), why))
        for x in walk(n):
            if x.get("k") in ("BinaryOperator", "CompoundAssignOperator") and x.get("op") in ("=", "+=", "-=", "*=", "/="):
                l = strip_all(x["c"][0])
                self.assign(l, ("unknown", why))
            elif x.get("k") == "UnaryOperator" and x.get("op") in ("++", "--"):
                self.assign(strip_all(x["c"][0]), ("unknown", why))
            elif x.get("k") == "ReturnStmt":
                self.returns.append((("unknown", why), ("unknown", why)))

    # ---- assignment ---------------------------------------------------------------------
    def assign(self, lhs, val):
        lhs = strip_all(lhs)
        k = lhs.get("k")
        if isinstance(val, MatVal):
            val = val.copy()
        if k == "DeclRefExpr":
            if isinstance(val, tuple) and val and val[0] == "mat":
                val = self.thaw(val)
            self.env[lhs["id"]] = val
            return
        if k == "MemberExpr" and lhs.get("mk") == "Field":
            base = strip_all(lhs["c"][0]) if lhs.get("c") else None
            if base is None or base.get("k") == "CXXThisExpr":
                self.heap[lhs["sn"]] = val
                return
            b = self.e(lhs["c"][0])
            if isinstance(b, StructVal):
                b.fields[lhs["sn"]] = val
                return
            self.heap[("field", self.fz(b), lhs["sn"])] = val
            return
        if k == "CXXOperatorCallExpr" and lhs.get("op") in ("()", "[]"):
            tgt = strip_all(lhs["c"][1])
            idx = [self.e(a) for a in lhs["c"][2:]]
            holder = None
            if tgt.get("k") == "DeclRefExpr":
                holder = self.env.get(tgt["id"])
            elif tgt.get("k") == "MemberExpr" and tgt.get("mk") == "Field" and \
                    (not tgt.get("c") or strip_all(tgt["c"][0]).get("k") == "CXXThisExpr"):
                holder = self.heap.get(tgt["sn"])
                if holder is None:
                    dims = self.ev.dims_of(tgt.get("t"))
                    if dims:
                        holder = MatVal(*dims)
                        self.heap[tgt["sn"]] = holder
            if holder is None and tgt.get("k") == "MemberExpr" and tgt.get("mk") == "Field" and tgt.get("c"):
                b = self.e(tgt["c"][0])
                if isinstance(b, StructVal):
                    holder = b.fields.get(tgt["sn"])
                    if holder is None:
                        dims = self.ev.dims_of(tgt.get("t"))
                        if dims:
                            holder = MatVal(*dims)
                            b.fields[tgt["sn"]] = holder
            if isinstance(holder, MatVal) and all(i[0] == "num" for i in idx):
                ii = [int(i[1]) for i in idx]
                if len(ii) == 1:
                    ii = [ii[0], 0] if holder.cols == 1 else [0, ii[0]]
                holder.el[(ii[0], ii[1])] = val
                return
            tt = self.fz(self.e(lhs))
            self.ev.effects.append((self.cond_now(), ("call", "assign", (tt, self.fz(val))), lhs))
            return
        if k == "UnaryOperator" and lhs.get("op") == "*":
            return
        self.ev.notes.append("%s:%s assignment target %s not modelled" % (self.f["file"], lhs.get("l"), k))

    def is_plain_aggregate(self, d):
        t = (d.get("t") or "").replace("const ", "").strip()
        r = self.F.records.get(t)
        if r is None or not r["file"].startswith(("include/gm2calc", "src/")) or r.get("bases"):
            return False
        if not hasattr(self.ev, "_has_methods"):
            self.ev._has_methods = {(f.get("method") or {}).get("clsT") for f in self.F.functions.values()
                                    if f.get("method") and not (f.get("method") or {}).get("ctor")}
        return t not in self.ev._has_methods and bool(r["fields"])

    def is_model_object(self, d):
        t = (d.get("t") or "").replace("const ", "").strip()
        r = self.F.records.get(t)
        return r is not None and r["file"].startswith(("include/gm2calc", "src/")) and "Eigen" not in t and \
            any(fl for fl in r["fields"]) and not t.startswith("std::")

    def thaw(self, m):
        mv = MatVal(m[1], m[2])
        for i, k, v in m[3]:
            mv.el[(i, k)] = v
        return mv

    # ---- expressions -----------------------------------------------------------------------
    def e(self, n):
        n = strip_all(n)
        if n is None:
            return ("unknown", "null expression")
        k = n.get("k")
        if k == "ImplicitCastExpr":
            return self.e(n["c"][0])
        if "iv" in n and k not in ("DeclRefExpr",):
            return num(int(n["iv"]))
        if k == "IntegerLiteral":
            return num(int(n["v"]))
        if k == "FloatingLiteral":
            fr = parse_float(n.get("s"), n.get("v"))
            return ("num", fr) if fr is not None else ("unknown", "float literal " + str(n.get("s")))
        if k == "CXXBoolLiteralExpr":
            return num(1 if n.get("v") else 0)
        if k == "StringLiteral":
            return ("str", n.get("v"))
        if k == "CXXThisExpr":
            return self.this
        if k == "DeclRefExpr":
            rk = n.get("rk")
            if rk in ("Param", "Var", "StaticLocal"):
                if n.get("id") in self.env:
                    return self.env[n["id"]]
                return ("sym", n.get("n"))
            if rk == "Enum":
                if "iv" in n:
                    return num(int(n["iv"]))
                return ("enum", n.get("n"))
            if rk == "Global":
                g = self.F.global_by_id_name.get(n.get("n"))
                if g is not None and "init" in g and (g["const"] or g["constexpr"]):
                    gf = Frame(self.ev, {"file": g["file"], "params": [], "body": {"k": "CompoundStmt"}}, {}, ("this",), self.depth + 1)
                    return gf.e(g["init"])
                return ("sym", n.get("n"))
            if rk == "Func":
                return ("func", n.get("mg") or n.get("n"))
            return ("sym", n.get("n"))
        if k == "MemberExpr":
            if n.get("mk") == "Field":
                base_n = strip_all(n["c"][0]) if n.get("c") else None
                if base_n is None or base_n.get("k") == "CXXThisExpr":
                    if n["sn"] in self.heap:
                        return self.heap[n["sn"]]
                    return ("field", self.this, n["sn"])
                b = self.e(n["c"][0])
                if isinstance(b, StructVal):
                    if n["sn"] in b.fields:
                        return b.fields[n["sn"]]
                    return ("field", ("sym", b.name), n["sn"])
                b = self.fz(b)
                key = ("field", b, n["sn"])
                if key in self.heap:
                    return self.heap[key]
                # a field of an aggregate that was brace-initialised (possibly under ?: / a switch): by position
                pos = self.ev.field_position(base_n.get("t"), n["sn"])
                if pos is not None:
                    pv = _proj_init(b, pos)
                    if pv is not None:
                        return pv
                return key
            return ("member", n.get("n"))
        if k == "ParenExpr":
            return self.e(n["c"][0])
        if k == "UnaryOperator":
            op = n.get("op")
            if op in ("++", "--"):
                tgt = strip_all(n["c"][0])
                old = self.e(tgt)
                new = mk("+" if op == "++" else "-", old, NUM1) if not isinstance(old, MatVal) else old
                self.assign(tgt, new)
                return old if n.get("postfix") else new
            a = self.e(n["c"][0])
            if isinstance(a, MatVal):
                a = a.freeze()
            if op == "-":
                return ("num", -a[1]) if a[0] == "num" else ("neg", a)
            if op == "+":
                return a
            if op == "!":
                return num(0 if a[1] != 0 else 1) if a[0] == "num" else ("not", a)
            if op in ("*", "&"):
                return a
            return ("unknown", "unary " + op)
        if k in ("BinaryOperator", "CompoundAssignOperator"):
            op = n.get("op")
            if op == "=":
                v = self.e(n["c"][1])
                self.assign(n["c"][0], v)
                return v
            if op in ("+=", "-=", "*=", "/="):
                cur = self.e(n["c"][0])
                rhs = self.e(n["c"][1])
                if isinstance(cur, MatVal) or isinstance(rhs, MatVal):
                    v = ("unknown", "matrix compound assignment")
                else:
                    v = mk(op[0], cur, rhs)
                self.assign(n["c"][0], v)
                return v
            if op == ",":
                self.e(n["c"][0])
                return self.e(n["c"][1])
            a, b = self.e(n["c"][0]), self.e(n["c"][1])
            if op in ("/", "%") and _is_integer_type(n.get("t")):
                # C++ integer division truncates towards zero
                a, b = self.fz(a), self.fz(b)
                if a[0] == "num" and b[0] == "num" and b[1] != 0 and a[1].denominator == 1 and b[1].denominator == 1:
                    q = abs(int(a[1])) // abs(int(b[1]))
                    q = q if (a[1] >= 0) == (b[1] > 0) else -q
                    return num(q) if op == "/" else num(int(a[1]) - q * int(b[1]))
                return ("call", "idiv" if op == "/" else "imod", (a, b))
            return self.binop(op, a, b)
        if k == "ConditionalOperator":
            c = self.e(n["cond"])
            if c[0] == "num":
                return self.e(n["then"] if c[1] != 0 else n["else"])
            a, b = self.e(n["then"]), self.e(n["else"])
            if isinstance(a, MatVal):
                a = a.freeze()
            if isinstance(b, MatVal):
                b = b.freeze()
            return a if a == b else ("ite", c, a, b)
        if k in ("CXXStaticCastExpr", "CXXFunctionalCastExpr", "CStyleCastExpr", "CXXReinterpretCastExpr",
                 "CXXConstCastExpr"):
            return self.e(n["c"][0])
        if k in ("CXXConstructExpr", "CXXTemporaryObjectExpr"):
            args = [a for a in n.get("c", []) if a.get("k") != "CXXDefaultArgExpr"]
            fn = n.get("fn") or ""
            if len(args) == 1:
                return self.e(args[0])
            if not args:
                dims = self.ev.dims_of(n.get("t"))
                if dims:
                    return MatVal(*dims)
                if re.search(r"complex<", n.get("t") or "") or (n.get("t") in ("double", "int")):
                    return NUM0
                return ("call", "construct:" + (n.get("t") or "?"), ())
            vals = tuple(self.fz(self.e(a)) for a in args)
            if re.search(r"complex<.*>::complex$", fn):
                return ("call", "complex", vals)
            return ("call", "construct:" + (n.get("t") or "?"), vals)
        if k == "CXXOperatorCallExpr":
            return self.opcall(n)
        if k == "CXXMemberCallExpr":
            return self.membercall(n)
        if k == "CallExpr":
            return self.call(n)
        if k == "LambdaExpr":
            return ("lambda", n.get("mg"), tuple(sorted((c.get("id", 0), self.fz(self.env.get(c.get("id"), ("sym", c.get("name")))))
                                                          for c in n.get("captures", ()) if c.get("id"))))
        if k == "CXXDefaultArgExpr":
            return ("default",)
        if k == "ArraySubscriptExpr":
            b, i = self.e(n["c"][0]), self.e(n["c"][1])
            if isinstance(b, tuple) and b[:2] == ("call", "initlist") and isinstance(i, tuple) and i[0] == "num" \
                    and i[1].denominator == 1 and 0 <= int(i[1]) < len(b[2]):
                return b[2][int(i[1])]            # constant array with a constant index
            if b[0] == "elem":
                return b + (i,)
            return ("elem", self.fz(b), i)
        if k == "InitListExpr":
            return ("call", "initlist", tuple(self.fz(self.e(c)) for c in n.get("c", [])))
        if k == "CXXNullPtrLiteralExpr":
            return ("null",)
        if k == "UnaryExprOrTypeTraitExpr":
            return ("unknown", "sizeof")
        if k in ("ExprWithCleanups", "MaterializeTemporaryExpr", "CXXBindTemporaryExpr", "CXXStdInitializerListExpr"):
            return self.e(n["c"][0])
        return ("unknown", "expression kind " + str(k))

    def fz(self, v):
        return v.freeze() if isinstance(v, (MatVal, StructVal)) else v

    def binop(self, op, a, b):
        a, b = self.fz(a), self.fz(b)
        if op in ("+", "-", "*", "/"):
            return mk(op, a, b)
        if op in ("<", "<=", ">", ">=", "==", "!="):
            if a[0] == "num" and b[0] == "num":
                r = {"<": a[1] < b[1], "<=": a[1] <= b[1], ">": a[1] > b[1], ">=": a[1] >= b[1],
                     "==": a[1] == b[1], "!=": a[1] != b[1]}[op]
                return num(1 if r else 0)
            if op == ">":
                return ("cmp", "<", b, a)
            if op == ">=":
                return ("cmp", "<=", b, a)
            return ("cmp", op, a, b)
        if op == "&&":
            if a[0] == "num":
                return b if a[1] != 0 else num(0)
            return ("and", a, b)
        if op == "||":
            if a[0] == "num":
                return num(1) if a[1] != 0 else b
            return ("or", a, b)
        if op == "%" and a[0] == "num" and b[0] == "num" and b[1] != 0:
            return num(int(a[1]) % int(b[1]))
        return ("call", "op" + op, (a, b))

    # ---- calls ------------------------------------------------------------------------------------
    def opcall(self, n):
        op = n.get("op")
        ops = n["c"][1:]
        if op in ("()", "[]"):
            tgt_n = strip_all(ops[0])
            t = self.e(ops[0])
            idx = tuple(self.fz(self.e(a)) for a in ops[1:])
            if isinstance(t, tuple) and t and t[0] == "lambda":
                return self.call_lambda(t, idx)
            if isinstance(t, MatVal) and all(i[0] == "num" for i in idx):
                ii = [int(i[1]) for i in idx]
                if len(ii) == 1:
                    ii = [ii[0], 0] if t.cols == 1 else [0, ii[0]]
                return t.get(ii[0], ii[1])
            if isinstance(t, tuple) and t and t[0] == "mat" and all(i[0] == "num" for i in idx):
                mv = self.thaw(t)
                ii = [int(i[1]) for i in idx]
                if len(ii) == 1:
                    ii = [ii[0], 0] if mv.cols == 1 else [0, ii[0]]
                return mv.get(ii[0], ii[1])
            fn = n.get("fn") or ""
            # std::array<T, N> a = {{ ... }};  a[i] with a constant index (same as a C array)
            if op == "[]" and fn.startswith("std::array<") and len(idx) == 1 and idx[0][0] == "num":
                tv = self.fz(t)
                while isinstance(tv, tuple) and tv[:2] == ("call", "initlist") and len(tv[2]) == 1 and \
                        isinstance(tv[2][0], tuple) and tv[2][0][:2] == ("call", "initlist"):
                    tv = tv[2][0]
                if isinstance(tv, tuple) and tv[:2] == ("call", "initlist") and idx[0][1].denominator == 1 and \
                        0 <= int(idx[0][1]) < len(tv[2]):
                    return tv[2][int(idx[0][1])]
            if fn.startswith("Eigen::") or "Eigen::" in (tgt_n.get("t") or ""):
                return ("elem", self.fz(t)) + idx
            if n.get("mg") in self.F.functions:
                return self.inline_or_opaque(n, self.F.functions[n["mg"]], self.fz(t), list(idx))
            return ("call", fn, (self.fz(t),) + idx)
        if op == "=":
            lhs0 = strip_all(ops[0])
            if lhs0 is not None and is_call(lhs0) and str(lhs0.get("fn", "")) in ("std::tie", "tie"):
                # std::tie(a, b) = f(...):  component-wise assignment of the returned tuple
                v = self.fz(self.e(ops[1]))
                for i, a in enumerate(call_args(lhs0)):
                    self.assign(a, _proj(v, i))
                return v
            v = self.e(ops[1])
            self.assign(ops[0], v)
            return v
        if op in ("+=", "-=", "*=", "/="):
            cur, rhs = self.fz(self.e(ops[0])), self.fz(self.e(ops[1]))
            v = mk(op[0], cur, rhs)
            self.assign(ops[0], v)
            return v
        if op in ("+", "-", "*", "/") and len(ops) == 2:
            return self.binop(op, self.e(ops[0]), self.e(ops[1]))
        if op == "-" and len(ops) == 1:
            a = self.fz(self.e(ops[0]))
            return ("num", -a[1]) if a[0] == "num" else ("neg", a)
        if op in ("<", "<=", ">", ">=", "==", "!=") and len(ops) == 2:
            return self.binop(op, self.e(ops[0]), self.e(ops[1]))
        if op == "<<":
            fn = n.get("fn") or ""
            if fn.startswith("Eigen::"):
                return self.comma_init(n)
            vals = tuple(self.fz(self.e(a)) for a in ops)
            return ("call", "op<<", vals)
        if op == ",":
            return self.comma_init(n)
        if op in ("++", "--"):
            return ("unknown", "iterator " + op)
        if n.get("mg") in self.F.functions:
            vals = [self.fz(self.e(a)) for a in ops]
            return self.inline_or_opaque(n, self.F.functions[n["mg"]], None, vals)
        return ("call", n.get("fn") or ("op" + str(op)), tuple(self.fz(self.e(a)) for a in ops))

    def comma_init(self, n):
        """Eigen comma initialiser  M << a, b, c, ...  (row-major fill)"""
        vals = []
        cur = n
        while True:
            cur = strip_all(cur)
            if cur.get("k") == "CXXOperatorCallExpr" and cur.get("op") == ",":
                vals.append(cur["c"][2])
                cur = cur["c"][1]
                continue
            if cur.get("k") == "CXXOperatorCallExpr" and cur.get("op") == "<<":
                vals.append(cur["c"][2])
                target = cur["c"][1]
                break
            return ("unknown", "comma initialiser of unrecognised shape")
        vals.reverse()
        tv = self.e(target)
        terms = [self.fz(self.e(v)) for v in vals]
        if isinstance(tv, MatVal) and len(terms) == tv.rows * tv.cols:
            for j, t in enumerate(terms):
                tv.el[(j // tv.cols, j % tv.cols)] = t
            return tv
        return ("unknown", "comma initialiser target not an element-wise matrix")

    def membercall(self, n):
        obj = call_object(n)
        o = self.e(obj) if obj is not None else self.this
        args = [self.e(a) for a in call_args(n) if a.get("k") != "CXXDefaultArgExpr"]
        fn = n.get("fn") or ""
        short = fn.split("::")[-1]
        if short in ("finished", "eval") and (isinstance(o, MatVal) or (isinstance(o, tuple) and o and o[0] == "mat")):
            return o
        if isinstance(o, MatVal):
            if short in ("rows",):
                return num(o.rows)
            if short in ("cols",):
                return num(o.cols)
            if short == "size":
                return num(o.rows * o.cols)
        if isinstance(o, tuple) and o and o[0] == "obj" and not n.get("cm") and obj is not None:
            # mutating method on a local model object: recorded, object identity updated
            tgt = strip_all(obj)
            call = ("call", fn, (o,) + tuple(self.fz(a) for a in args))
            if tgt.get("k") == "DeclRefExpr" and tgt.get("id") in self.env:
                self.env[tgt["id"]] = ("obj", o[1], o[2], o[3] + ((short,) + tuple(self.fz(a) for a in args),))
            return call
        if n.get("mg") in self.F.functions:
            return self.inline_or_opaque(n, self.F.functions[n["mg"]], o, args)
        if fn.startswith("Eigen::") and short in ("rows", "cols", "size"):
            d = self.ev.dims_of(strip_all(obj).get("t")) if obj is not None else None
            if d:
                return num({"rows": d[0], "cols": d[1], "size": d[0] * d[1]}[short])
        if fn.startswith("Eigen::"):
            fn = short       # Eigen expression-template methods: the member name is the operation
        return ("call", fn, (self.fz(o),) + tuple(self.fz(a) for a in args))

    def call(self, n):
        fn = n.get("fn")
        args_n = [a for a in call_args(n) if a.get("k") != "CXXDefaultArgExpr"]
        if fn is None:
            # call through an expression (lambda variable)
            tgt = self.e(n["c"][0])
            args = [self.fz(self.e(a)) for a in args_n]
            if tgt[0] == "lambda":
                return self.call_lambda(tgt, args)
            if tgt[0] == "func" and tgt[1] in self.F.functions:
                return self.inline_or_opaque(n, self.F.functions[tgt[1]], None, args)
            return ("unknown", "indirect call")
        if n.get("mg") in self.F.functions:
            args = [self.e(a) for a in args_n]
            return self.inline_or_opaque(n, self.F.functions[n["mg"]], None, args, args_n)
        args = tuple(self.fz(self.e(a)) for a in args_n)
        name = MATH_NAMES.get(fn, fn)
        # Eigen::Matrix<T, R, C>::Zero() / Identity() of a fixed size: an explicit matrix value
        if not args and re.search(r"::(Zero|Identity)$", str(fn)):
            m_ = re.search(r"Matrix<[^,<>]+,\s*(\d+),\s*(\d+)", str(fn) + " " + str(n.get("t")))
            dims = (int(m_.group(1)), int(m_.group(2))) if m_ else None
            if dims:
                mv = MatVal(*dims)
                for i_ in range(dims[0]):
                    for k_ in range(dims[1]):
                        mv.el[(i_, k_)] = NUM1 if (str(fn).endswith("Identity") and i_ == k_) else ("num", Fraction(0))
                return mv
        if name in ("std::make_tuple", "std::make_pair", "make_tuple", "make_pair"):
            return ("call", "tuple", args)
        if name in ("min", "max") and len(args) == 1 and args[0][0] == "call" and args[0][1] == "initlist" and args[0][2]:
            # std::min({a, b, c}) -> min(a, min(b, c))
            el = args[0][2]
            r = el[-1]
            for x in reversed(el[:-1]):
                r = ("call", name, (x, r))
            return r
        if name == "pow" and len(args) == 2 and args[1][0] == "num" and args[1][1].denominator == 1 and 0 <= args[1][1] <= 8:
            r = NUM1
            for _ in range(int(args[1][1])):
                r = mk("*", r, args[0])
            return r
        return ("call", name, args)

    def call_lambda(self, lam, args):
        g = self.F.functions.get(lam[1])
        if g is None or self.depth >= self.ev.max_depth:
            return ("call", "lambda", tuple(args))
        env = {}
        for cid, val in lam[2]:
            env[cid] = self.thaw(val) if isinstance(val, tuple) and val and val[0] == "mat" else val
        for p, a in zip(g["params"], args):
            env[p["id"]] = a
        fr = Frame(self.ev, g, env, self.this, self.depth + 1, self.cond_now())
        fr.run()
        return fr.result()

    def inline_or_opaque(self, n, g, this, args, arg_nodes=None):
        name = g["name"]
        if self.depth >= self.ev.max_depth or name in self.ev.opaque or not self.ev.inline(name, g):
            vals = tuple(self.fz(a) for a in args)
            if this is not None:
                vals = (self.fz(this),) + vals
            return ("call", name, vals)
        env = {}
        byref = []
        for p, a in zip(g["params"], args):
            if isinstance(a, (MatVal, StructVal)) and not p.get("ref"):
                a = a.copy()
            env[p["id"]] = a
        fr = Frame(self.ev, g, env, this if this is not None else ("this",), self.depth + 1, self.cond_now())
        # heap of a method called on `this` of the caller is shared
        if this == self.this and this is not None:
            fr.heap = self.heap
        before = {p["id"]: env.get(p["id"]) for p in g["params"]}
        fr.run()
        if arg_nodes is not None:
            for p, an in zip(g["params"], arg_nodes):
                if p.get("ref") and not p.get("cref"):
                    new = fr.env.get(p["id"])
                    if new is not before.get(p["id"]) and new != before.get(p["id"]) and not isinstance(new, (MatVal, StructVal)):
                        self.assign(an, new)
        return fr.result()


def always_exits_function(s):
    for x in walk(s):
        if x.get("k") in ("ReturnStmt", "CXXThrowExpr"):
            return True
    return False


def show(t, depth=0):
    """compact rendering of a term"""
    if isinstance(t, (MatVal, StructVal)):
        t = t.freeze()
    if not isinstance(t, tuple) or not t:
        return str(t)
    h = t[0]
    if h == "num":
        return str(t[1])
    if h in ("sym", "enum", "str"):
        return str(t[1]).split("::")[-1]
    if h == "this":
        return "this"
    if h == "field":
        b = show(t[1], depth + 1)
        return t[2] if b == "this" else "%s.%s" % (b, t[2])
    if h == "elem":
        return "%s(%s)" % (show(t[1], depth + 1), ",".join(show(i, depth + 1) for i in t[2:]))
    if h == "call":
        return "%s(%s)" % (str(t[1]).split("::")[-1], ", ".join(show(a, depth + 1) for a in t[2]))
    if h in ("+", "-", "*", "/"):
        return "(%s %s %s)" % (show(t[1], depth + 1), h, show(t[2], depth + 1))
    if h == "neg":
        return "-%s" % show(t[1], depth + 1)
    if h == "cmp":
        return "(%s %s %s)" % (show(t[2], depth + 1), t[1], show(t[3], depth + 1))
    if h in ("and", "or"):
        return "(%s %s %s)" % (show(t[1], depth + 1), h, show(t[2], depth + 1))
    if h == "not":
        return "!%s" % show(t[1], depth + 1)
    if h == "ite":
        return "(%s ? %s : %s)" % (show(t[1], depth + 1), show(t[2], depth + 1), show(t[3], depth + 1))
    if h == "mat":
        return "mat%dx%d[%s]" % (t[1], t[2], "; ".join("(%d,%d)=%s" % (i, k, show(v, depth + 1)) for i, k, v in t[3]))
    if h == "unknown":
        return "<?%s>" % t[1]
    if h == "struct":
        return "%s{%s}" % (str(t[1]).split("::")[-1], ", ".join("%s=%s" % (k, show(v, depth + 1)) for k, v in t[2]))
    if h == "obj":
        return "%s{%s%s}" % (t[1], show(t[2], depth + 1) if t[2] else "",
                             "".join("; " + "%s(%s)" % (m[0], ", ".join(show(a) for a in m[1:])) for m in t[3]))
    return str(t)


def subst_fold(t, mapping):
    """replace sub-terms by `mapping` (term -> term) and fold constant arithmetic/conditions"""
    if not isinstance(t, tuple) or not t:
        return t
    if t in mapping:
        return mapping[t]
    h = t[0]
    if h in ("num", "sym", "this", "enum", "str", "unknown", "func", "null", "void", "default"):
        return t
    if h in ("+", "-", "*", "/"):
        a, b = subst_fold(t[1], mapping), subst_fold(t[2], mapping)
        if h == "+" and a == NUM0:
            return b
        if h in ("+", "-") and b == NUM0:
            return a
        if h == "*" and (a == NUM1):
            return b
        if h in ("*", "/") and b == NUM1:
            return a
        return mk(h, a, b)
    if h == "neg":
        a = subst_fold(t[1], mapping)
        return ("num", -a[1]) if a[0] == "num" else ("neg", a)
    if h == "cmp":
        a, b = subst_fold(t[2], mapping), subst_fold(t[3], mapping)
        if a[0] == "num" and b[0] == "num":
            r = {"<": a[1] < b[1], "<=": a[1] <= b[1], "==": a[1] == b[1], "!=": a[1] != b[1]}[t[1]]
            return num(1 if r else 0)
        return ("cmp", t[1], a, b)
    if h == "not":
        a = subst_fold(t[1], mapping)
        return num(0 if a[1] != 0 else 1) if a[0] == "num" else ("not", a)
    if h == "and":
        a, b = subst_fold(t[1], mapping), subst_fold(t[2], mapping)
        if a[0] == "num":
            return b if a[1] != 0 else num(0)
        if b[0] == "num":
            return a if b[1] != 0 else num(0)
        return ("and", a, b)
    if h == "or":
        a, b = subst_fold(t[1], mapping), subst_fold(t[2], mapping)
        if a[0] == "num":
            return num(1) if a[1] != 0 else b
        if b[0] == "num":
            return num(1) if b[1] != 0 else a
        return ("or", a, b)
    if h == "ite":
        c = subst_fold(t[1], mapping)
        if c[0] == "num":
            return subst_fold(t[2] if c[1] != 0 else t[3], mapping)
        return ("ite", c, subst_fold(t[2], mapping), subst_fold(t[3], mapping))
    if h == "call":
        return ("call", t[1], tuple(subst_fold(a, mapping) for a in t[2]))
    if h in ("field", "elem"):
        return (h,) + tuple(subst_fold(a, mapping) if isinstance(a, tuple) else a for a in t[1:])
    if h == "mat":
        return ("mat", t[1], t[2], tuple((i, k, subst_fold(v, mapping)) for i, k, v in t[3]))
    if h == "struct":
        return ("struct", t[1], tuple((k, subst_fold(v, mapping)) for k, v in t[2]))
    return t


def subterms(t):
    stack = [t]
    while stack:
        x = stack.pop()
        if isinstance(x, tuple):
            yield x
            for y in (x[1:] if x and isinstance(x[0], str) else x):
                if isinstance(y, tuple):
                    stack.append(y)
