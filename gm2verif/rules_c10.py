"""C10 -- THDM contributions vanish in the SM limit (algebraic cancellation clauses)."""
import re
from fractions import Fraction

from .facts import walk, kids, strip_all, call_args, call_object, is_call
from .terms import Evaluator, Frame, show, num, subterms, subst_fold, StructVal, MatVal
from .poly import to_rat, Rat, Poly, NotPolynomial
from .extract import AnalysisBroken

PID = "C10"
LEVEL = "other"
NS = "gm2calc::thdm::"


def _ite_conds(t):
    out = []
    for x in subterms(t):
        if len(x) == 4 and x[0] == "ite" and x[1] not in out:
            out.append(x[1])
    return out


def _branches(t, limit=6):
    """all ite-free instances of t (each condition set to true/false)"""
    conds = _ite_conds(t)
    if not conds:
        return [((), t)]
    if len(conds) > limit:
        raise AnalysisBroken("too many data-dependent branches (%d)" % len(conds))
    out = []
    for mask in range(2 ** len(conds)):
        mp = {c: num((mask >> i) & 1) for i, c in enumerate(conds)}
        r = subst_fold(t, mp)
        if _ite_conds(r):
            # nested conditions that only appear after folding
            for tag, rr in _branches(r, limit):
                out.append((tuple((show(c)[:40], (mask >> i) & 1) for i, c in enumerate(conds)) + tag, rr))
        else:
            out.append((tuple((show(c)[:40], (mask >> i) & 1) for i, c in enumerate(conds)), r))
    return out


def _mentions(p, what):
    return [a for a in p.atoms() if what in show(a)]


def _depends_on(r, par, name):
    """does the rational function r depend on the field par.name?  loop-function atoms that mention it
    count as dependence; the bare field is tested by d/dx (N/D) == 0"""
    from .rules_c20 import _reduce_roots
    bare = ("field", par, name)
    n_, d_ = r.n, r.d
    for _ in range(4):
        n_ = _reduce_roots(n_)
        d_ = _reduce_roots(d_)
    comp = [a for a in (n_.atoms() | d_.atoms()) if name in show(a) and a != bare]
    # composite atoms may still cancel between numerator and denominator only if they divide both: test by
    # treating them like the bare field (derivative w.r.t. each)
    for a in [bare] + comp:
        w = n_.diff(a) * d_ - n_ * d_.diff(a)
        for _ in range(4):
            w = _reduce_roots(w)
        if not w.is_zero():
            return [a]
    return []


def _strip_real(t, complex_names):
    """real(x), conj(x), norm(x) of expressions free of complex-valued inputs"""
    if not isinstance(t, tuple) or not t:
        return t
    t = tuple(_strip_real(x, complex_names) if isinstance(x, tuple) else x for x in t)
    if t[0] == "call" and t[1] in ("real", "conj", "norm") and len(t[2]) == 1:
        s = show(t[2][0])
        if not any(cn in s for cn in complex_names):
            return t[2][0] if t[1] != "norm" else ("*", t[2][0], t[2][0])
    return t


def run(F, R, tier):
    R.explanation = (
        "The SM-limit clause as an algebraic cancellation: the one-loop and the fermionic two-loop functions "
        "are folded into terms over opaque loop-function atoms; then the light Higgs is given the SM Higgs "
        "mass and SM couplings (y_f^h = m_f/v, i.e. cos(beta-alpha) = 0) by substitution. Every atom that "
        "mentions the SM Higgs mass must cancel identically (in every data-dependent branch): the result does "
        "not depend on the common Higgs mass. For the bosonic part: the light Higgs mass is read by exactly one "
        "function, whose result carries cos(beta-alpha) as an overall factor.")
    R.assumptions = ["the SM-limit substitution y_f^h(i,i) = m_f(i)/v, m_h = m_hSM, with m_mu = m_l(2nd generation) "
                     "(both are model.get_MFe(1) in the caller: checked)"]
    R.undecided = ["decoupling rate |a(M sqrt10)| <= 0.45 |a(M)| (numerical)", "bosonic Yukawa/non-Yukawa parts in the "
                   "decoupling limit (numerical)"]
    pars = ("sym", "pars")

    def sm_limit_map(par, yuk_fields, vterm):
        """term-level substitution for the SM limit of the light Higgs h"""
        mp = {}
        mp[("elem", ("field", par, "mh"), num(0))] = ("field", par, "mhSM")
        for yf, mf in yuk_fields:
            for i in range(3):
                for k in range(3):
                    el_ = ("elem", ("field", par, yf), num(i), num(k))
                    mp[el_] = ("/", ("elem", ("field", par, mf), num(i)), vterm) if i == k else num(0)
        mp[("field", par, "mm")] = ("elem", ("field", par, "ml"), num(1))
        return mp

    # ---- R0: the caller hands the same muon mass as mm and ml(1) ------------------------------
    R.rule("R0", "calculate_amu_1loop / _2loop_fermionic pass mm = MFe(1) and ml = MFe (so mm == ml(1))", 2)
    for nm in ("gm2calc::calculate_amu_1loop", "gm2calc::calculate_amu_2loop_fermionic"):
        fs = [f for f in F.fns(nm) if "THDM" in (f["params"][0]["t"] or "")]
        f = fs[0]
        E = Evaluator(F, inline=lambda n, g: False)
        v, fr = E.function_value(f)
        st = [x for x in subterms(v) if x and x[0] == "struct"]
        ok = False
        if st:
            d = dict(st[0][2])
            pm = f["params"][0]["name"] or "model"
            ok = show(d.get("mm")) == "get_MFe(%s, 1)" % pm and show(d.get("ml")) == "get_MFe(%s)" % pm and \
                show(d.get("mhSM")) == "get_mh(get_sm(%s))" % pm and show(d.get("mh")) == "get_Mhh(%s)" % pm
        R.check("R0", ok, "%s: mm = MFe(1), ml = MFe, mhSM = sm.mh, mh = Mhh" % nm.split("::")[-1], F.loc(f),
                "parameter struct is filled differently", key="R0|" + nm)

    # ---- R1: one loop ----------------------------------------------------------------------------------
    R.rule("R1", "1-loop (full and approximate): with h -> h_SM (mass and couplings) the result is independent of the "
                 "SM Higgs mass: light-Higgs terms cancel the subtracted SM terms identically", 2)
    loopfn = re.compile(r"^gm2calc::(F1C|F2C|F1N|F2N|F3C|F4C|F3N|F4N)$")
    for nm in ("amu1L", "amu1L_approx"):
        f = F.fn(NS + nm)
        E = Evaluator(F, inline=lambda n, g: not loopfn.match(n))
        v, fr = E.function_value(f, args=[pars])
        # v as the code defines it
        vterm = None
        for x in subterms(v):
            pass
        # SM vev in the function: v = 2 mw / g2 (amu1L) or v2 = 4 mw2/g22 (approx); take it from the counter-term
        # by introducing an atom and identifying v^2 through calc: use the local definition
        frv = Frame(E, f, {f["params"][0]["id"]: pars}, ("this",), 0)
        frv.run()
        loc = {}
        for n in walk(f["body"]):
            if n.get("k") == "DeclStmt":
                for d in n["decls"]:
                    if d.get("name") in ("v", "v2") and d.get("id") in frv.env:
                        loc[d["name"]] = frv.env[d["id"]]
        if "v" in loc:
            vt = loc["v"]
        elif "v2" in loc:
            vt = ("call", "sqrt", (loc["v2"],))
        else:
            R.broken("R1: local definition of v not found in %s" % nm)
        mp = sm_limit_map(pars, [("ylh", "ml")], vt)
        try:
            bad = []
            for tag, t in _branches(v):
                t2 = subst_fold(t, mp)
                t2 = _strip_real(t2, ("ylH", "ylA", "ylHp"))
                r = to_rat(t2)
                left = _depends_on(r, pars, "mhSM")
                if left:
                    bad.append((tag, left))
            R.check("R1", not bad, "%s: no dependence on m_hSM in the SM limit" % nm, F.loc(f),
                    "terms depending on the SM Higgs mass survive the SM limit: %s" % "; ".join(
                        show(a)[:90] for a in (bad[0][1][:2] if bad else [])), key="R1|" + nm)
        except NotPolynomial as ex:
            R.soft_broken("R1 %s: %s" % (nm, ex))

    # ---- R2: fermionic two loop, neutral -------------------------------------------------------------------
    R.rule("R2", "2-loop fermionic (neutral Higgs): with h -> h_SM the result is independent of the SM Higgs mass "
                 "(Barr-Zee h terms cancel the subtracted h_SM terms, per fermion and generation)", 1)
    f = F.fn(NS + "amu2L_F_neutral")
    bz = re.compile(r"^gm2calc::thdm::(\(anonymous namespace\)::)?(f[udl][SA]|calc_v2)$")
    E = Evaluator(F, inline=lambda n, g: not bz.match(n))
    thdm = ("sym", "thdm")
    v, fr = E.function_value(f, args=[thdm])
    v2name = [g_["name"] for g_ in F.functions.values() if g_["name"].endswith("::calc_v2") and "thdm" in g_["name"]
              and g_["file"].endswith("gm2_2loop_F.cpp")]
    if len(v2name) != 1:
        R.broken("R2: calc_v2 not found")
    v2call = ("call", v2name[0], (thdm,))
    vt = ("call", "sqrt", (v2call,))
    mp = sm_limit_map(thdm, [("yuh", "mu"), ("ydh", "md"), ("ylh", "ml")], vt)
    try:
        bad = []
        for tag, t in _branches(v):
            t2 = _strip_real(subst_fold(t, mp), ("yuH", "ydH", "ylH", "yuA", "ydA", "ylA", "Hp"))
            r = to_rat(t2)
            left = _depends_on(r, thdm, "mhSM")
            if left:
                bad.append((tag, left))
        R.check("R2", not bad, "amu2L_F_neutral: no dependence on m_hSM in the SM limit (%d branch(es))" % len(_branches(v)),
                F.loc(f), "terms depending on the SM Higgs mass survive the SM limit%s: %s" % (
                    (" in branch %s" % (bad[0][0],)) if bad and bad[0][0] else "",
                    "; ".join(show(a)[:90] for a in (bad[0][1][:3] if bad else []))), key="R2|neutral")
    except NotPolynomial as ex:
        R.soft_broken("R2: %s" % ex)
    # the charged part does not know the light Higgs at all
    g = F.fn(NS + "amu2L_F_charged")
    Ec = Evaluator(F, inline=lambda n, g_: not re.match(r"^gm2calc::thdm::(\(anonymous namespace\)::)?(f[udl]Hp|calc_v2)$", n))
    vc, _ = Ec.function_value(g, args=[thdm])
    dep = [x for x in subterms(vc) if x and x[0] == "field" and x[2] in ("mh", "mhSM", "ylh", "yuh", "ydh")]
    R.rule("R2c", "2-loop fermionic (charged Higgs) does not read the light-Higgs mass or couplings", 1)
    R.check("R2c", not dep, "amu2L_F_charged independent of mh, mhSM, y_f^h", F.loc(g),
            "charged part reads %s" % sorted({x[2] for x in dep}), key="R2c|charged")

    _static_runtime(F, R)

    # ---- R6: near-degenerate series used in the decoupling regime (mH ~ mA ~ mH+) -----------------------
    from .rules_c11 import _series_branches
    R.guard(_series_branches, F, R, rule="R6")

    # ---- R4: units of the THDM formulas ---------------------------------------------------------
    from .rules_c07 import check_units
    from fractions import Fraction as Fr
    R.rule("R4", "every function of the THDM one-/two-loop and uncertainty code is dimensionally consistent and "
                 "dimensionless (a_mu is a function of mass ratios: prerequisite of the (v/M)^2 decoupling)", 60)
    loopfn = re.compile(r"^gm2calc::(thdm::)?(\(anonymous namespace\)::)?(Fa|Fb|Ixyz|F1C|F2C|F3C|F4C|F1N|F2N|F3N|F4N|G3|G4|"
                        r"f_PS|f_S|f_sferm|dilog|Phi|Phi_over_lambda_2|lambda_2|FPZ|FSZ|FCWl|FCWu|FCWd|f_CSl|f_CSd|f_CSu|is_equal_rel|"
                        r"is_equal|is_zero|sort|shift)$")
    files = ("src/THDM/gm2_1loop_H.cpp", "src/THDM/gm2_2loop_B.cpp", "src/THDM/gm2_2loop_F.cpp", "src/THDM/gm2_uncertainty.cpp")
    rd = {"calc_v2": Fr(2)}
    # parameter naming convention of these files: m..2 = squared mass, ml/mv/mHp/q = mass, everything else a ratio
    for k, fn in F.functions.items():
        if fn["file"] in files:
            short = fn["name"].split("::")[-1]
            pd = {}
            for p in fn["params"]:
                nm = p["name"] or ""
                pd[nm] = Fr(2) if re.match(r"^m\w*2$", nm) else (Fr(1) if nm in ("ml", "mv", "mHp", "q") else Fr(0))
            rd[("params", short)] = pd
    check_units(F, R, "R4", files, rd, loopfn, skip=("shift",))

    # ---- R3: bosonic ----------------------------------------------------------------------------------------------
    R.rule("R3", "bosonic 2-loop: the light Higgs mass mh(0) is read by exactly one function, whose result carries "
                 "cos(beta-alpha) as an overall factor", 2)
    readers = {}
    for k, fn in F.functions.items():
        if fn["file"] != "src/THDM/gm2_2loop_B.cpp":
            continue
        for n in walk(fn["body"]):
            if n.get("k") == "CXXOperatorCallExpr" and n.get("op") == "()":
                tgt = strip_all(n["c"][1])
                if tgt.get("k") == "MemberExpr" and tgt.get("sn") == "mh" and len(n["c"]) == 3:
                    idx = strip_all(n["c"][2])
                    iv = idx.get("iv", idx.get("v"))
                    if iv == "0":
                        readers.setdefault(fn["name"], n)
    R.check("R3", sorted(readers) == [NS + "amu2L_B_EWadd"], "mh(0) read only in amu2L_B_EWadd: %s" % sorted(x.split("::")[-1] for x in readers),
            "src/THDM/gm2_2loop_B.cpp", "the light Higgs mass enters the bosonic result outside the cos(beta-alpha)-suppressed term",
            key="R3|readers")
    f = F.fn(NS + "amu2L_B_EWadd")
    opaque = re.compile(r"^gm2calc::(f_PS|dilog|is_equal_rel|thdm::.*)$")
    E = Evaluator(F, inline=lambda n, g_: not opaque.match(n) or n.endswith("::sqr"))
    v, fr = E.function_value(f, args=[thdm])
    cba = ("field", thdm, "cos_beta_minus_alpha")
    try:
        ok = True
        for tag, t in _branches(v):
            r = to_rat(t)
            if any(dict(m).get(cba, 0) < 1 for m in r.n.t):
                ok = False
        R.check("R3", ok, "amu2L_B_EWadd = cos(beta-alpha) * (...)", F.loc(f),
                "cos(beta-alpha) is not an overall factor of the only term that depends on m_h", key="R3|factor")
    except NotPolynomial as ex:
        R.soft_broken("R3: %s" % ex)


def _static_runtime(F, R):
    """shared with C19-P3b: a static local of the THDM a_mu code initialised from run-time values would freeze the
    SM subtraction term of the first model evaluated in the process"""
    R.rule("R5", "no static-storage variable of the THDM a_mu translation units is initialised from run-time values "
                 "(the subtracted SM terms are recomputed for every model)", 3)
    files = ("src/THDM/gm2_1loop_H.cpp", "src/THDM/gm2_2loop_F.cpp", "src/THDM/gm2_2loop_B.cpp", "src/THDM/gm2_1loop.cpp",
             "src/THDM/gm2_2loop.cpp")
    for key, g in sorted(F.globals.items()):
        if g["file"] not in files:
            continue
        ini = g.get("init")
        bad = None
        if ini is not None:
            for n in walk(ini):
                if (n.get("k") == "DeclRefExpr" and n.get("rk") in ("Param", "Var")) or n.get("k") == "CXXThisExpr":
                    bad = n
                    break
        ok = bad is None and (g["const"] or g["constexpr"] or str(g["t"]).startswith("const "))
        R.check("R5", ok, "%s is a compile-time style constant" % g["name"].split("::")[-1], "%s:%s" % (g["file"], g["line"]),
                "static `%s` depends on run-time data (%s): the SM-limit cancellation only holds for the first model "
                "evaluated" % (g["name"].split("::")[-1], (bad.get("n") if bad else "writable")), key="R5|" + g["name"])
