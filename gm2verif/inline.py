"""Normalisation of the fact trees: direct calls of *local lambda variables* are inlined into the calling function.

    const auto chk = [this] (bool c, const char* m) { if (!c) return; if (force()) WARNING(m); else throw E(m); };
    chk(MW >= MZ, "...");

is, for every structural rule (guards, rendering, macro provenance, may-throw sets), the same program as the
statements written out at the call site.  Extracting such a helper is one of the most common behaviour-preserving
refactorings, so the rules must not see a difference.  Only calls `v(args)` of a local variable v whose initialiser is
a lambda expression are rewritten (lambdas handed to std::function, std::sort, ... are left alone):

* a body `{ return E; }` replaces the call expression by (E) with the parameters replaced by the argument expressions;
* a void body called as a full statement replaces the statement by the body; its `return;` statements are removed by
  restructuring (`if (c) { ...; return; } rest`  ->  `if (c) { ... } else { rest }`); anything else is left alone.

By-value captures of variables that are assigned anywhere in the caller, parameters assigned inside the lambda, and
recursive situations are left alone.  The lambda's own function entry stays in the fact base."""
import copy
import re

from .facts import walk, kids, strip_all, NAMED_CHILD_KEYS

_ASSIGN_OPS = ("=", "+=", "-=", "*=", "/=", "%=", "&=", "|=", "^=", "<<=", ">>=")


def _assigned_ids(root):
    out = set()
    for n in walk(root):
        k = n.get("k")
        if k in ("BinaryOperator", "CompoundAssignOperator") and n.get("op") in _ASSIGN_OPS:
            l = strip_all(n["c"][0])
            if l is not None and l.get("k") == "DeclRefExpr":
                out.add(l.get("id"))
        elif k == "UnaryOperator" and n.get("op") in ("++", "--"):
            l = strip_all(n["c"][0])
            if l is not None and l.get("k") == "DeclRefExpr":
                out.add(l.get("id"))
    return out


def _subst(n, env):
    """deep copy of n with parameter references replaced by (copies of) the argument trees"""
    if isinstance(n, list):
        return [_subst(x, env) for x in n]
    if not isinstance(n, dict):
        return n
    if n.get("k") == "DeclRefExpr" and n.get("rk") == "Param" and n.get("id") in env:
        return {"k": "ParenExpr", "l": n.get("l"), "t": n.get("t"), "c": [copy.deepcopy(env[n["id"]])], "inl": "arg"}
    out = {}
    for key, v in n.items():
        if isinstance(v, (dict, list)):
            out[key] = _subst(v, env)
        else:
            out[key] = v
    return out


def _has_return(n):
    return any(x.get("k") == "ReturnStmt" for x in walk(n))


def _ends_in_plain_return(n):
    """statement (list) whose last executed statement is `return;` and that contains no other return"""
    if n is None:
        return False
    if n.get("k") == "ReturnStmt":
        return not n.get("c")
    if n.get("k") == "CompoundStmt" and n.get("c"):
        return _ends_in_plain_return(n["c"][-1]) and not any(_has_return(s) for s in n["c"][:-1])
    return False


def _drop_last_return(n):
    if n.get("k") == "ReturnStmt":
        return {"k": "CompoundStmt", "l": n.get("l"), "c": []}
    c = list(n["c"])
    last = _drop_last_return(c[-1])
    c = c[:-1] + ([last] if last.get("k") != "CompoundStmt" or last.get("c") else [])
    m = dict(n)
    m["c"] = c
    return m


def _unreturn(stmts, line):
    """statement list of a void lambda body -> equivalent list without return statements, or None"""
    out = []
    for i, s in enumerate(stmts):
        if s.get("k") == "ReturnStmt":
            if s.get("c"):
                return None
            return out
        if not _has_return(s):
            out.append(s)
            continue
        if s.get("k") == "IfStmt":
            te, ee = s.get("then"), s.get("else")
            rest = _unreturn(stmts[i + 1:], line)
            if rest is None:
                return None
            if _ends_in_plain_return(te) and (ee is None or not _has_return(ee)):
                new = dict(s)
                new["then"] = _drop_last_return(te)
                tail = ([ee] if ee is not None else []) + rest
                if tail:
                    new["else"] = {"k": "CompoundStmt", "l": s.get("l"), "c": tail}
                else:
                    new.pop("else", None)
                out.append(new)
                return out
            if ee is not None and _ends_in_plain_return(ee) and not _has_return(te):
                new = dict(s)
                new["else"] = _drop_last_return(ee)
                tc = te["c"] if te.get("k") == "CompoundStmt" else [te]
                new["then"] = {"k": "CompoundStmt", "l": te.get("l"), "c": list(tc) + rest}
                out.append(new)
                return out
        return None
    return out


def _peel_obj(n):
    n = strip_all(n)
    while n is not None and n.get("k") in ("CXXConstructExpr", "CXXFunctionalCastExpr") and len(n.get("c", [])) == 1:
        n = strip_all(n["c"][0])
    return n


def _fix_indirect(root, functions):
    """a call through a parameter that was replaced by the address of a function is a direct call of that function"""
    for n in walk(root):
        if n.get("k") == "CallExpr" and not n.get("fn") and n.get("c"):
            c = strip_all(n["c"][0])
            while c is not None and c.get("k") == "UnaryOperator" and c.get("op") in ("&", "*"):
                c = strip_all(c["c"][0])
            if c is not None and c.get("k") == "DeclRefExpr" and c.get("rk") == "Func" and c.get("mg"):
                n["fn"] = c.get("n")
                n["mg"] = c["mg"]
                g = functions.get(c["mg"])
                if g is not None:
                    n["inroot"] = True
                    if g.get("nx") is not None:
                        n["nx"] = g.get("nx")
                    if g.get("externC"):
                        n["externC"] = True


def _splice(parent, stmt, block):
    """the statements of an inlined block take the place of the call statement in the enclosing block"""
    i = [j for j, x in enumerate(parent["c"]) if x is stmt][0]
    parent["c"][i:i + 1] = block["c"]


def _replace(node, new):
    node.clear()
    node.update(new)


class Inliner:
    def __init__(self, functions):
        self.functions = functions
        self.done = set()
        self.active = set()
        self.count = 0
        self.sites = []

    def run(self):
        for key in list(self.functions):
            self.fn(key)
        for key in list(self.functions):
            f = self.functions[key]
            if f.get("body") is not None and str(f.get("file")).endswith(".cpp"):
                for _round in range(64):
                    before = self.count
                    self._predicates(f)
                    if self.count == before:
                        break
        for key in list(self.functions):
            f = self.functions[key]
            if f.get("body") is not None and str(f.get("file")).endswith((".cpp", ".hpp")):
                for _round in range(64):
                    before = self.count
                    self._helpers(f, only_fp=not f.get("externC"))
                    if self.count == before:
                        break
                    # lambdas handed to the helper are now called at the place of the former parameter
                    self._rewrite(f, self._lambda_vars(f))
        return self.count

    # -- file-local helpers of the C interface ---------------------------------------------------------
    def _local_helper(self, f, n):
        """callee of call node n if it is a helper defined in the same .cpp file as f (not extern "C", not a method)"""
        if n.get("k") not in ("CallExpr", "CXXMemberCallExpr") or not n.get("mg"):
            return None
        g = self.functions.get(n["mg"])
        if g is None or g is f or g.get("body") is None or g.get("externC"):
            return None
        if n.get("k") == "CXXMemberCallExpr":
            # a member helper of the caller's own class, called on the implicit this, that takes a callable
            from .facts import call_object
            obj = strip_all(call_object(n))
            m, fm = g.get("method") or {}, f.get("method") or {}
            if obj is None or obj.get("k") != "CXXThisExpr" or m.get("virtual") or not m.get("clsT") or \
                    m.get("clsT") != fm.get("clsT"):
                return None
            if not any("(lambda at" in str(p.get("t") or "") or "(*)" in str(p.get("t") or "") for p in g["params"]):
                return None
            stem = lambda x: str(x).rsplit(".", 1)[0]
            if stem(g.get("file")) != stem(f.get("file")):
                return None
        else:
            if g.get("method"):
                return None
            if g.get("file") != f.get("file") or not str(g.get("file")).endswith(".cpp"):
                # in headers: only trivial out-parameter forwarders next to their caller (an overload set that replaces an
                # if-chain over the type): at most two straight-line statements, every parameter a reference
                body = g["body"].get("c", []) if g["body"].get("k") == "CompoundStmt" else [g["body"]]
                if not (g.get("file") == f.get("file") and len(body) <= 2 and g["params"] and
                        re.search(r"(^|::)(detail|\(anonymous namespace\))::", str(g.get("name"))) and
                        all(p.get("ref") for p in g["params"]) and str(g.get("ret") or "").strip() == "void" and
                        not any(x.get("k") in ("IfStmt", "ForStmt", "WhileStmt", "DoStmt", "SwitchStmt", "ReturnStmt",
                                               "CXXTryStmt", "CXXForRangeStmt") for x in walk(g["body"]))):
                    return None
                return g if not any(x.get("mg") == n["mg"] for x in walk(g["body"]) if x.get("k") == "CallExpr") else None
        if any(x.get("mg") == n["mg"] for x in walk(g["body"]) if x.get("k") in ("CallExpr", "CXXMemberCallExpr")):
            return None     # recursive
        return g

    def _predicates(self, f):
        """calls of a bool-valued single-return helper defined in the same .cpp file (free function, or static member of a
        class defined in that file) are replaced by the returned expression"""
        for n in [x for x in walk(f["body"]) if x.get("k") in ("CallExpr", "CXXMemberCallExpr")]:
            g = self.functions.get(n.get("mg") or "")
            if g is None or g is f or g.get("body") is None or g.get("externC"):
                continue
            if g.get("file") != f.get("file") or not str(g.get("file")).endswith(".cpp"):
                continue
            if str(g.get("ret") or "").strip() != "bool":
                continue
            m = g.get("method")
            if m and not m.get("static"):
                continue
            if n.get("k") == "CXXMemberCallExpr":
                continue
            body = g["body"]
            stmts = body.get("c", []) if body.get("k") == "CompoundStmt" else [body]
            if not (len(stmts) == 1 and stmts[0].get("k") == "ReturnStmt" and stmts[0].get("c")):
                continue
            params, args = g["params"], n["c"][1:]
            if len(args) != len(params) or any(a.get("k") == "CXXDefaultArgExpr" for a in args):
                continue
            if any(x.get("mg") == n.get("mg") for x in walk(body) if x.get("k") == "CallExpr"):
                continue
            env = {p["id"]: a for p, a in zip(params, args)}
            e = {"k": "ParenExpr", "l": n.get("l"), "t": n.get("t"), "c": [_subst(stmts[0]["c"][0], env)], "inl": g["name"]}
            _replace(n, e)
            self.count += 1
            self.sites.append((f["name"], n.get("l"), "pred " + g["name"]))
            g.setdefault("inlined_into", []).append(f["name"])
            return

    def _helpers(self, f, only_fp=False):
        """`return helper(args);`, `helper(args);` and single-return helpers called from an extern "C" definition are
        replaced by the helper's body (tail form: the helper's return statements become the caller's).  In other callers
        (only_fp) this is done only for helpers that take a function pointer: the calls through it become direct calls"""
        par = {}
        for n in walk(f["body"]):
            for c in kids(n):
                par[id(c)] = n
        from .facts import call_args
        for n in [x for x in walk(f["body"]) if x.get("k") in ("CallExpr", "CXXMemberCallExpr")]:
            g = self._local_helper(f, n)
            if g is None:
                continue
            params, args = g["params"], list(call_args(n))
            trivial_fwd = not str(g.get("file")).endswith(".cpp") and n.get("k") == "CallExpr"
            # a file-local helper that encapsulates a rejection (`warn or throw`): the throw and its guards belong to the caller
            throws = n.get("k") == "CallExpr" and str(g.get("ret") or "").strip() == "void" and \
                any(x.get("k") == "CXXThrowExpr" for x in walk(g["body"]))
            # a file-local straight-line filler of out-parameters (e.g. the shared part of two parameter-struct set-ups)
            filler = n.get("k") == "CallExpr" and str(g.get("ret") or "").strip() == "void" and params and \
                all(p.get("ref") for p in params) and \
                not any(x.get("k") in ("IfStmt", "ForStmt", "WhileStmt", "DoStmt", "SwitchStmt", "ReturnStmt", "CXXTryStmt",
                                       "CXXForRangeStmt") for x in walk(g["body"]))
            if only_fp and not trivial_fwd and not throws and not filler and not any("(*)" in str(p.get("t") or "") or "(lambda at" in str(p.get("t") or "") for p in params):
                continue
            if len(args) != len(params) or any(a.get("k") == "CXXDefaultArgExpr" for a in args):
                continue
            # a by-value parameter that is assigned is a local of the helper; an assigned reference is the argument itself
            if {p["id"] for p in params if not p.get("ref") or p.get("cref")} & _assigned_ids(g["body"]):
                continue
            env = {p["id"]: a for p, a in zip(params, args)}
            body = g["body"]
            stmts = body.get("c", []) if body.get("k") == "CompoundStmt" else [body]
            top = n
            p = par.get(id(top))
            while p is not None and p.get("k") in ("ExprWithCleanups", "ParenExpr", "ImplicitCastExpr",
                                                   "MaterializeTemporaryExpr", "CXXBindTemporaryExpr") and len(p.get("c", [])) == 1:
                top, p = p, par.get(id(p))
            if p is not None and p.get("k") == "ReturnStmt":
                new = {"k": "CompoundStmt", "l": n.get("l"), "c": _subst(stmts, env), "inl": g["name"]}
                _fix_indirect(new, self.functions)
                pp = par.get(id(p))
                if pp is not None and pp.get("k") == "CompoundStmt" and any(x is p for x in pp.get("c", [])):
                    # splice into the enclosing block (rules that read the top-level statement list see the helper's statements)
                    i = [j for j, x in enumerate(pp["c"]) if x is p][0]
                    pp["c"][i:i + 1] = new["c"]
                else:
                    _replace(p, new)
                self.count += 1
                self.sites.append((f["name"], new.get("l"), "tail " + g["name"]))
                g.setdefault("inlined_into", []).append(f["name"])
                return
            if len(stmts) == 1 and stmts[0].get("k") == "ReturnStmt" and stmts[0].get("c"):
                e = {"k": "ParenExpr", "l": n.get("l"), "t": n.get("t"), "c": [_subst(stmts[0]["c"][0], env)], "inl": g["name"]}
                _fix_indirect(e, self.functions)
                _replace(n, e)
                self.count += 1
                self.sites.append((f["name"], n.get("l"), "expr " + g["name"]))
                g.setdefault("inlined_into", []).append(f["name"])
                return
            if p is not None and p.get("k") == "CompoundStmt" and any(s is top for s in p.get("c", [])) and \
                    str(g.get("ret") or "").strip() == "void":
                flat = _unreturn(stmts, n.get("l"))
                if flat is None:
                    continue
                new = {"k": "CompoundStmt", "l": n.get("l"), "c": _subst(flat, env), "inl": g["name"]}
                _fix_indirect(new, self.functions)
                _splice(p, top, new)
                self.count += 1
                self.sites.append((f["name"], new.get("l"), "stmt " + g["name"]))
                g.setdefault("inlined_into", []).append(f["name"])
                return

    def _lambda_vars(self, f):
        """decl id -> LambdaExpr node for locals initialised by a lambda expression"""
        out = {}
        for n in walk(f["body"]):
            if n.get("k") == "DeclStmt":
                for d in n.get("decls", ()):
                    ini = strip_all(d.get("init")) if d.get("init") is not None else None
                    while ini is not None and ini.get("k") in ("CXXConstructExpr",) and len(ini.get("c", [])) == 1:
                        ini = strip_all(ini["c"][0])
                    if ini is not None and ini.get("k") == "LambdaExpr" and "(lambda at" in str(d.get("t") or ""):
                        out[d["id"]] = ini
        return out

    def fn(self, key):
        if key in self.done or key in self.active:
            return
        f = self.functions[key]
        if f.get("body") is None:
            self.done.add(key)
            return
        self.active.add(key)
        try:
            lams = self._lambda_vars(f)
            if lams:
                self._rewrite(f, lams)
        finally:
            self.active.discard(key)
            self.done.add(key)

    def _rewrite(self, f, lams):
        # a lambda inlined in one round may bring calls of other local lambdas with it (captured by reference)
        for _round in range(6):
            before = self.count
            self._rewrite_once(f, lams)
            if self.count == before:
                break

    def _rewrite_once(self, f, lams):
        assigned = _assigned_ids(f["body"])
        # parents for the statement form
        par = {}
        for n in walk(f["body"]):
            for c in kids(n):
                par[id(c)] = n
        def lam_of(n):
            obj = _peel_obj(n["c"][1])
            if obj is None:
                return None
            if obj.get("k") == "DeclRefExpr" and obj.get("rk") == "Var" and obj.get("id") in lams:
                return lams[obj["id"]]
            if obj.get("k") == "LambdaExpr":        # a lambda handed to an inlined helper and called there
                return obj
            return None
        calls = []
        for n in walk(f["body"]):
            if n.get("k") == "CXXOperatorCallExpr" and n.get("op") == "()" and len(n.get("c", [])) >= 2:
                if lam_of(n) is not None:
                    calls.append(n)
        # innermost calls first (arguments may themselves contain calls of lambdas)
        for n in reversed(calls):
            lam = lam_of(n)
            if lam is None:
                continue
            g = self.functions.get(n.get("mg")) or self.functions.get(lam.get("mg"))
            if g is None or g.get("body") is None or not (g.get("method") or {}).get("lambda"):
                continue
            gkey = g.get("mg") or g["name"]
            if gkey in self.active:
                continue
            self.fn(gkey)            # lambdas called inside the lambda are inlined first
            if any((not c.get("byref")) and c.get("id") in assigned for c in lam.get("captures", ())):
                continue
            params = g["params"]
            args = n["c"][2:]
            if len(args) != len(params):
                continue
            if {p["id"] for p in params} & _assigned_ids(g["body"]):
                continue
            env = {p["id"]: a for p, a in zip(params, args)}
            body = g["body"]
            stmts = body.get("c", []) if body.get("k") == "CompoundStmt" else [body]
            if len(stmts) == 1 and stmts[0].get("k") == "ReturnStmt" and stmts[0].get("c"):
                e = _subst(stmts[0]["c"][0], env)
                _replace(n, {"k": "ParenExpr", "l": n.get("l"), "t": n.get("t"), "c": [e], "inl": g["name"]})
                self.count += 1
                self.sites.append((f["name"], n.get("l"), "expr"))
                g.setdefault("inlined_into", []).append(f["name"])
                continue
            # statement form: the call is a full statement
            top = n
            p = par.get(id(top))
            while p is not None and p.get("k") in ("ExprWithCleanups", "ParenExpr", "ImplicitCastExpr") and len(p.get("c", [])) == 1:
                top, p = p, par.get(id(p))
            if p is None or p.get("k") != "CompoundStmt" or not any(s is top for s in p.get("c", [])):
                continue
            if "void" != str(g.get("ret") or "").strip():
                continue
            flat = _unreturn(stmts, n.get("l"))
            if flat is None or any(x.get("k") in ("BreakStmt", "ContinueStmt") for s in flat for x in walk(s)
                                   if False):
                continue
            new = {"k": "CompoundStmt", "l": n.get("l"), "c": _subst(flat, env), "inl": g["name"]}
            _splice(p, top, new)
            self.count += 1
            self.sites.append((f["name"], new.get("l"), "stmt"))
            g.setdefault("inlined_into", []).append(f["name"])


def inline_local_lambdas(functions):
    I = Inliner(functions)
    I.run()
    return I
