"""Abstract interpretation of the decomposition wrappers of src/gm2_linalg.hpp in a domain of
*matrix words*: products of symbolic unitary factors (from the Eigen solvers, taken as axioms),
permutation matrices and diagonal matrices diag(f(x_i)).  In-place Eigen operations (reverseInPlace,
`*= p`, `transpose() *= p`, transposeInPlace, `= (z p).adjoint()`, `z * s.unaryExpr(F).asDiagonal()`,
`s = s.abs()`, std::sort of permutation indices with a comparator lambda) are given their algebraic meaning;
anything else is `Undecided` (inconclusive, never a verdict).  Nothing is executed.

Axioms (Eigen's documented contracts):
  JacobiSVD(A):                A = U diag(sigma) V^H, U, V unitary, sigma >= 0 descending
  SelfAdjointEigenSolver(A):   A = Z diag(w) Z^H,     Z unitary,    w ascending
"""
import re

from .facts import strip_all


class Undecided(Exception):
    pass


class NeedDecision(Exception):
    """a value-dependent branch was reached and the decision string is exhausted: the driver forks"""


# ---- words ---------------------------------------------------------------------------------------
# factor kinds:
#   ('u', name, T, C, real)      unitary symbol, transposed / conjugated flags
#   ('p', name, inv)             permutation matrix (real): inverse == transpose
#   ('d', fn, base)              diag(fn(x_i)), fn = tuple of scalar function names applied left to right, x = base vector
#   ('m', name, T, C, real)      the input matrix (opaque)
SYMMETRIC_PERMS = {"REV"}


def f_transpose(f):
    k = f[0]
    if k == "c":
        return f
    if k in ("u", "m"):
        return (k, f[1], not f[2], f[3], f[4])
    if k == "p":
        return f if f[1] in SYMMETRIC_PERMS else ("p", f[1], not f[2])
    return f


def f_conj(f):
    k = f[0]
    if k == "c":
        return f
    if k in ("u", "m"):
        return f if f[4] else (k, f[1], f[2], not f[3], f[4])
    if k == "d":
        return ("d", f[1] + ("conj",), f[2])
    return f


def w_transpose(w):
    return tuple(f_transpose(f) for f in reversed(w))


def w_conj(w):
    return tuple(f_conj(f) for f in w)


def w_adjoint(w):
    return w_conj(w_transpose(w))


def f_inverse_scalar(f):
    return ("c", f[1], -f[2])


def _cancels(a, b):
    if a[0] == "c" and b[0] == "c" and a[1] == b[1]:
        return a[2] == -b[2]
    if a[0] == "u" and b[0] == "u" and a[1] == b[1]:
        if a[4]:   # real orthogonal: inverse is the transpose
            return a[2] != b[2]
        return a[2] != b[2] and a[3] != b[3]
    if a[0] == "p" and b[0] == "p" and a[1] == b[1]:
        return a[1] in SYMMETRIC_PERMS or a[2] != b[2]
    return False


def simplify(w):
    # real scalar factors commute with everything: collect them in front
    sc = sorted([f for f in w if f[0] == "c"], key=lambda f: (f[1], f[2]))
    w = tuple(sc) + tuple(f for f in w if f[0] != "c")
    out = []
    for f in w:
        if out and _cancels(out[-1], f):
            out.pop()
            continue
        if out and out[-1][0] == "d" and f[0] == "d" and out[-1][2] == f[2]:
            out[-1] = ("d", ("prod", out[-1][1], f[1]), f[2])
            continue
        out.append(f)
    # cancellation may expose new neighbours
    if len(out) != len(w):
        return simplify(tuple(out))
    return tuple(out)


def show_word(w):
    def one(f):
        if f[0] in ("u", "m"):
            s = f[1]
            if f[2] and f[3]:
                return s + "^H"
            if f[2]:
                return s + "^T"
            if f[3]:
                return s + "^*"
            return s
        if f[0] == "p":
            return f[1] + ("^T" if f[2] else "")
        if f[0] == "c":
            return f[1] if f[2] > 0 else "1/" + f[1]
        return "diag(%s(%s))" % (show_fn(f[1]), f[2])
    return " ".join(one(f) for f in w) or "1"


def show_fn(fn):
    if fn and fn[0] == "prod":
        return "%s*%s" % (show_fn(fn[1]), show_fn(fn[2]))
    return ".".join(fn) if fn else "id"


# ---- vectors --------------------------------------------------------------------------------------
class Vec:
    """x' = W^T f(x): base vector `base`, scalar function chain `fn`, applied permutations W = p1 p2 ..."""

    def __init__(self, base, fn=(), perms=(), order=None, nonneg=False, scal=()):
        self.base, self.fn, self.perms, self.order, self.nonneg = base, tuple(fn), tuple(perms), order, nonneg
        self.scal = tuple(scal)          # real scalar factors ('c', name, +-1) multiplying every entry

    def key(self):
        return (self.base, self.fn, self.perms, self.order, self.nonneg, self.scal)

    def diag_word(self):
        inv = tuple(f_transpose(p) for p in reversed(self.perms))
        return self.scal + inv + (("d", self.fn, self.base),) + self.perms

    def show(self):
        return "%s(%s) perms[%s] order=%s" % (show_fn(self.fn), self.base, show_word(self.perms), self.order)


# ---- interpreter -----------------------------------------------------------------------------------
PASS = ("ImplicitCastExpr", "ParenExpr", "ExprWithCleanups", "MaterializeTemporaryExpr", "CXXBindTemporaryExpr",
        "CXXFunctionalCastExpr", "ConstantExpr", "SubstNonTypeTemplateParmExpr", "CXXStaticCastExpr")


class Interp:
    def __init__(self, F, functor_fn=None, max_depth=12):
        self.F = F
        self.store = {}
        self.nloc = 0
        self.nsym = 0
        self.axioms = []      # (argument word, rhs word, description)
        self.trace = []
        self.functor_fn = functor_fn
        self.max_depth = max_depth
        self.functions_seen = []
        self.decisions = []        # outcomes of value-dependent conditions, in the order they are met (path string)
        self.ndec = 0
        self.path = []             # readable description of the path
        self.base_sign = {}        # base vector -> 'nonneg' / 'nonpos' (path assumptions)
        self.risky = []            # operations whose validity needs a fact that no path condition provides
        self.scalar_pos = set()    # scalar locals known to be > 0 on this path

    def new_loc(self, v):
        self.nloc += 1
        self.store[self.nloc] = v
        return self.nloc

    def fresh(self, stem):
        self.nsym += 1
        return "%s%d" % (stem, self.nsym)

    # -- entry ------------------------------------------------------------------------------------
    def call(self, f, args, depth=0):
        """args: list of abstract values / ('loc', L) / ('ptr', L) / ('null',) per parameter"""
        if depth > self.max_depth:
            raise Undecided("call depth")
        self.functions_seen.append(f["name"])
        env = {}
        for p, a in zip(f["params"], args):
            env[p["id"]] = a
        for p in f["params"][len(args):]:
            env[p["id"]] = ("null",)
        if not hasattr(self, "_ret"):
            self._ret = []
        self._ret.append(None)
        self.block(f["body"], env, depth, f)
        return self._ret.pop()

    # -- statements ---------------------------------------------------------------------------------
    def block(self, n, env, depth, f):
        """returns True if the function returned"""
        if n is None:
            return False
        k = n.get("k")
        if k == "CompoundStmt":
            for s in n.get("c", []):
                if self.block(s, env, depth, f):
                    return True
            return False
        if k == "DeclStmt":
            for d in n.get("decls", ()):
                if "id" not in d:
                    continue
                env[d["id"]] = ("loc", self.new_loc(self.construct(d, env, depth, f)))
            return False
        if k == "ReturnStmt":
            # value-returning helpers (e.g. a factory of a permutation): the value is kept for the caller
            if n.get("c") and getattr(self, "_ret", None):
                self._ret[-1] = self.rv(self.ev(n["c"][0], env, depth, f))
            return True
        if k == "IfStmt":
            c = self.cond(n["cond"], env, depth, f)
            br = n.get("then") if c else n.get("else")
            return self.block(br, env, depth, f) if br is not None else False
        if k == "NullStmt":
            return False
        if k in ("ForStmt", "WhileStmt", "DoStmt", "SwitchStmt", "CXXTryStmt"):
            raise Undecided("%s:%s: %s in a decomposition wrapper" % (f["file"], n.get("l"), k))
        self.ev(n, env, depth, f)
        return False

    def cond(self, n, env, depth, f):
        n0 = strip_all(n)
        if n0 is not None and n0.get("iv") is not None:
            return n0.get("iv") not in ("0", 0)
        if n.get("iv") is not None:
            return n.get("iv") not in ("0", 0)
        if n0.get("k") == "UnaryOperator" and n0.get("op") == "!":
            return not self.cond(n0["c"][0], env, depth, f)
        v = self.ev(n0, env, depth, f)
        if v[0] == "ptr":
            return True
        if v[0] == "null":
            return False
        if v[0] == "bool":
            return v[1]
        if v[0] == "datacond":
            if self.ndec >= len(self.decisions):
                raise NeedDecision()
            truth = self.decisions[self.ndec]
            self.ndec += 1
            self.path.append("%s%s @%s" % ("" if truth else "not ", v[1], n.get("l")))
            if truth and v[2] is not None:
                if v[2][0] == "diag":
                    # on this path the matrix is diagonal: it equals diag of its own diagonal
                    self.axioms.append((v[2][1], (("d", (), "dm"),), "path assumption: the input matrix is diagonal, m = diag(dm)"))
                    self.diag_words = getattr(self, "diag_words", []) + [v[2][1]]
                elif v[2][0] == "scalar_pos":
                    self.scalar_pos.add(v[2][1])
                else:
                    self.base_sign[v[2][0]] = v[2][1]
            return truth
        raise Undecided("%s:%s: condition %s is not a null test or a compile-time constant" % (f["file"], n.get("l"), n0.get("k")))

    def construct(self, d, env, depth, f):
        t = str(d.get("t") or "")
        init = d.get("init")
        if "PermutationMatrix" in t:
            m = re.search(r"PermutationMatrix<\s*(\d+)", t)
            # initialised from a helper that builds the permutation (e.g. a sorting permutation returned by value)
            if init is not None and any(x.get("k") == "CallExpr" for x in _walk(init)):
                v = self.rv(self.ev(init, env, depth, f))
                if isinstance(v, tuple) and v and v[0] == "perm":
                    return v
            return ("perm", None, int(m.group(1)) if m else None, None)
        if "JacobiSVD" in t or "SelfAdjointEigenSolver" in t:
            kind = "svd" if "JacobiSVD" in t else "eig"
            args = [a for a in (init or {}).get("c", [])] if init else []
            real = "complex" not in t
            if args:
                a = self.rv(self.ev(args[0], env, depth, f))
                return self.solve(kind, a, f, d, real)
            return ("solver", kind, None, real)
        if re.search(r"Eigen::(Matrix|Array)<", t):
            if init is not None:
                cs = init.get("c", [])
                if init.get("k") == "CXXConstructExpr" and not cs:
                    return ("uninit",)
                v = self.rv(self.ev(init, env, depth, f))
                return v
            return ("uninit",)
        if init is not None:
            try:
                v0 = self.rv(self.ev(init, env, depth, f))
            except Undecided:
                return ("opaque", d.get("name"))
            if v0[0] == "scalar":
                return ("scalar", "%s@%s" % (d.get("name"), d.get("id")), v0[2])
            return v0
        return ("opaque", d.get("name"))

    def solve(self, kind, a, f, n, real):
        """real: the solver's scalar type is real (its factors are then real orthogonal)"""
        if a[0] != "mat":
            raise Undecided("%s:%s: solver applied to %s" % (f["file"], n.get("l"), a[0]))
        if kind == "svd":
            U, V, sg = self.fresh("U"), self.fresh("V"), self.fresh("sigma")
            u = ("u", U, False, False, real)
            v = ("u", V, False, False, real)
            vec = Vec(sg, order=("desc", ()), nonneg=True)
            self.axioms.append((a[1], (u,) + vec.diag_word() + w_adjoint((v,)), "JacobiSVD: A = %s diag(%s) %s^H" % (U, sg, V)))
            return ("solver", "svd", dict(U=("mat", (u,)), V=("mat", (v,)), s=vec), real)
        Z, w = self.fresh("Z"), self.fresh("w")
        z = ("u", Z, False, False, real)
        vec = Vec(w, order=("asc", ()))
        self.axioms.append((a[1], (z,) + vec.diag_word() + w_adjoint((z,)), "SelfAdjointEigenSolver: A = %s diag(%s) %s^H" % (Z, w, Z)))
        return ("solver", "eig", dict(Z=("mat", (z,)), w=vec), real)

    # -- expressions ----------------------------------------------------------------------------------
    def rv(self, v):
        if isinstance(v, tuple) and v and v[0] == "loc":
            return self.store[v[1]]
        if isinstance(v, tuple) and v and v[0] == "tview":
            x = self.store[v[1]]
            if x[0] == "mat":
                return ("mat", w_transpose(x[1]))
            return x
        return v

    def ev(self, n, env, depth, f):
        k = n.get("k")
        if k in PASS:
            return self.ev(n["c"][-1], env, depth, f)
        if k == "CStyleCastExpr":
            # (void)x and scalar casts: evaluated for their effects only
            self.ev(n["c"][-1], env, depth, f)
            return ("opaque", "cast")
        if k == "DeclRefExpr":
            if n.get("rk") in ("Param", "Var"):
                if n.get("id") not in env:
                    raise Undecided("%s:%s: unknown variable %s" % (f["file"], n.get("l"), n.get("n")))
                return env[n["id"]]
            if n.get("iv") is not None:
                return ("int", int(n["iv"]))
            return ("opaque", n.get("n"))
        if k in ("IntegerLiteral",):
            return ("null",) if str(n.get("v")) == "0" and "*" in str(n.get("t") or "") else ("int", int(n.get("v")))
        if k in ("CXXNullPtrLiteralExpr", "GNUNullExpr"):
            return ("null",)
        if k == "CXXDefaultArgExpr":
            if n.get("c"):
                return self.ev(n["c"][0], env, depth, f)
            return ("null",)
        if k == "UnaryOperator":
            op = n.get("op")
            a = self.ev(n["c"][0], env, depth, f)
            if op == "*":
                if a[0] == "ptr":
                    return ("loc", a[1])
                raise Undecided("%s:%s: dereference of %s" % (f["file"], n.get("l"), a[0]))
            if op == "&":
                if a[0] == "loc":
                    return ("ptr", a[1])
                raise Undecided("address of a non-lvalue")
            if op == "!":
                return ("bool", not self.cond(n["c"][0], env, depth, f))
            raise Undecided("unary %s" % op)
        if k == "ConditionalOperator":
            c = self.cond(n["cond"], env, depth, f)
            return self.ev(n["then"] if c else n["else"], env, depth, f)
        if k == "LambdaExpr":
            return ("lambda", n, dict(env))
        if k in ("CXXTemporaryObjectExpr", "CXXConstructExpr"):
            cls = str(n.get("cls") or n.get("t") or "")
            if "Flip_sign" in cls or (n.get("t") and "gm2calc::" in str(n.get("t")) and not n.get("c")):
                return ("functor", str(n.get("t") or cls))
            cs = n.get("c", [])
            if len(cs) == 1:
                return self.ev(cs[0], env, depth, f)
            raise Undecided("%s:%s: construction of %s" % (f["file"], n.get("l"), cls[:60]))
        if k == "CXXMemberCallExpr":
            return self.method(n, env, depth, f)
        if k == "CXXOperatorCallExpr":
            return self.operator(n, env, depth, f)
        if k == "CallExpr":
            return self.free_call(n, env, depth, f)
        if k == "BinaryOperator" and n.get("op") == "+":
            a = self.ev(n["c"][0], env, depth, f)
            if a[0] == "pdata":
                return a
        if k == "BinaryOperator" and n.get("op") in ("<", "<=", ">", ">="):
            return self.data_condition(n, env, depth, f)
        if k == "BinaryOperator" and n.get("op") in ("==", "!=", "&&", "||"):
            return self.data_condition_eq(n, env, depth, f)
        if k == "BinaryOperator" and n.get("op") == "=":
            # scalar stores (error bounds, INFO): no effect on the decomposition outputs
            lhs = self.ev(n["c"][0], env, depth, f)
            if lhs[0] == "loc":
                self.store[lhs[1]] = ("opaque", "scalar")
            return lhs
        if k in ("FloatingLiteral", "CXXBoolLiteralExpr", "CharacterLiteral"):
            return ("opaque", "literal")
        if k == "BinaryOperator":
            return ("opaque", "scalar expression")
        raise Undecided("%s:%s: expression kind %s is not modelled" % (f["file"], n.get("l"), k))

    def data_condition(self, n, env, depth, f):
        """a comparison of run-time values: the branch is explored both ways; `v[0] >= 0` / `v[last] <= 0` on a vector known to
        be sorted by value additionally tells the sign of all its entries on the true branch"""
        l, r = strip_all(n["c"][0]), strip_all(n["c"][1])
        op = n.get("op")
        txt = "value comparison %s" % op
        info = None

        def elem(x):
            if x is not None and x.get("k") == "CXXOperatorCallExpr" and x.get("op") in ("[]", "()") and len(x.get("c", [])) == 3:
                try:
                    o = self.ev(x["c"][1], env, depth, f)
                except Undecided:
                    return None
                idx = strip_all(x["c"][2])
                iv = idx.get("iv", idx.get("v")) if idx is not None else None
                if o[0] == "loc" and self.store[o[1]][0] == "vec" and iv is not None:
                    m = re.search(r"Eigen::Array<[^,]+,\s*(\d+)", str(strip_all(x["c"][1]).get("t") or ""))
                    return self.store[o[1]][1], int(iv), int(m.group(1)) if m else None
            return None

        def zero(x):
            return x is not None and x.get("k") in ("IntegerLiteral", "FloatingLiteral") and float(x.get("v", x.get("s", 1)) or 1) == 0.0

        # scalar local compared with zero
        if l is not None and l.get("k") == "DeclRefExpr" and zero(r) and op in (">",):
            try:
                sv = self.rv(self.ev(l, env, depth, f))
            except Undecided:
                sv = None
            if sv is not None and sv[0] == "scalar" and sv[1]:
                return ("datacond", "%s > 0" % sv[1].split("@")[0], ("scalar_pos", sv[1]))
        e = elem(l)
        if e is not None and zero(r):
            v, i, nlen = e
            txt = "%s[%d] %s 0" % (v.base, i, op)
            if not v.fn and v.order is not None and v.order[1] == ():
                first, last = (i == 0), (nlen is not None and i == nlen - 1)
                lo_end = first if v.order[0] == "asc" else last      # index of the smallest entry
                hi_end = last if v.order[0] == "asc" else first
                if op in (">=", ">") and lo_end:
                    info = (v.base, "nonneg")
                if op in ("<=", "<") and hi_end:
                    info = (v.base, "nonpos")
        return ("datacond", txt, info)

    def data_condition_eq(self, n, env, depth, f):
        """equality tests on run-time values: explored both ways; a conjunction of `X(i,j) == 0` over all off-diagonal entries of
        a square matrix X tells that X is diagonal on the true branch"""
        leaves = []

        def conj(x):
            x = strip_all(x)
            if x is not None and x.get("k") == "BinaryOperator" and x.get("op") == "&&":
                conj(x["c"][0])
                conj(x["c"][1])
            else:
                leaves.append(x)
        conj(n)
        info = None
        zero_entries, words, dim = set(), set(), None
        plain = True
        for x in leaves:
            ok_ = False
            if x is not None and x.get("iv") is not None:
                if x.get("iv") in ("0", 0):
                    plain = False
                continue             # compile-time conjunct such as N == 2
            if x is not None and x.get("k") in ("BinaryOperator", "CXXOperatorCallExpr") and x.get("op") == "==":
                ops = x["c"] if x["k"] == "BinaryOperator" else x["c"][1:]
                l, r = strip_all(ops[0]), strip_all(ops[1])
                for a_, b_ in ((l, r), (r, l)):
                    zb = b_ is not None and (b_.get("iv") in ("0", 0) or str(b_.get("v")) in ("0", "0.0") or
                                             any(str(y.get("v")) in ("0", "0.0") for y in _walk(b_) if y.get("k") in ("IntegerLiteral", "FloatingLiteral")))
                    if a_ is not None and a_.get("k") == "CXXOperatorCallExpr" and a_.get("op") == "()" and len(a_.get("c", [])) == 4 and zb:
                        try:
                            o = self.ev(a_["c"][1], env, depth, f)
                        except Undecided:
                            continue
                        ii = [strip_all(a_["c"][2]), strip_all(a_["c"][3])]
                        iv_ = [y.get("iv", y.get("v")) if y is not None else None for y in ii]
                        val = self.rv(o)
                        if val[0] == "mat" and None not in iv_:
                            zero_entries.add((int(iv_[0]), int(iv_[1])))
                            words.add(val[1])
                            m_ = re.search(r"Eigen::Matrix<[^,]+(?:<[^>]*>)?,\s*(\d+),\s*(\d+)", str(strip_all(a_["c"][1]).get("t") or ""))
                            if m_:
                                dim = (int(m_.group(1)), int(m_.group(2)))
                            ok_ = True
            if not ok_:
                plain = False
        if plain and len(words) == 1 and dim and dim[0] == dim[1]:
            need = {(i, j) for i in range(dim[0]) for j in range(dim[1]) if i != j}
            if need and need <= zero_entries:
                info = ("diag", list(words)[0])
        return ("datacond", "equality test on matrix entries" if info else "equality / logical test on run-time values", info)

    def obj_of(self, n, env, depth, f):
        me = n["c"][0]
        while me.get("k") in PASS:
            me = me["c"][-1]
        if me.get("k") != "MemberExpr":
            raise Undecided("member call without MemberExpr")
        o = self.ev(me["c"][0], env, depth, f)
        if me.get("arrow"):
            if o[0] == "ptr":
                o = ("loc", o[1])
            elif o[0] != "loc":
                raise Undecided("%s:%s: -> on %s" % (f["file"], n.get("l"), o[0]))
        return me.get("sn"), o

    def method(self, n, env, depth, f):
        name, o = self.obj_of(n, env, depth, f)
        args = n["c"][1:]
        where = "%s:%s" % (f["file"], n.get("l"))
        val = self.rv(o)
        # --- solvers
        if val[0] == "solver":
            if name in ("compute", "computeDirect"):
                a = self.rv(self.ev(args[0], env, depth, f))
                if o[0] != "loc":
                    raise Undecided("compute on a temporary")
                self.store[o[1]] = self.solve(val[1], a, f, n, val[3])
                return o
            if val[2] is None:
                raise Undecided("%s: solver read before compute" % where)
            table = {"singularValues": "s", "matrixU": "U", "matrixV": "V", "eigenvalues": "w", "eigenvectors": "Z"}
            if name in table and table[name] in val[2]:
                x = val[2][table[name]]
                return ("vec", x) if isinstance(x, Vec) else x
            raise Undecided("%s: solver method %s" % (where, name))
        # --- permutations
        if val[0] == "perm":
            if name == "setIdentity":
                self.store[o[1]] = ("perm", "ID", val[2], None)
                return o
            if name == "indices":
                return ("pidx", o[1], None)
            if name == "transpose" or name == "inverse":
                return ("permT", o[1])
            raise Undecided("%s: permutation method %s" % (where, name))
        if val[0] == "pidx" or o[0] == "pidx":
            p = o if o[0] == "pidx" else val
            if name == "segment":
                size = None
                for a in args:
                    a0 = strip_all(a)
                    if a.get("k") == "CXXDefaultArgExpr" or (a0 is not None and a0.get("k") == "CXXDefaultArgExpr"):
                        size = int((a.get("iv") or a0.get("iv")))
                start = strip_all(args[0])
                st = int(start.get("v", start.get("iv", -1))) if start is not None else -1
                if size is None:
                    m = re.search(r"segment<(\d+)>", str(n.get("fn")))
                    size = int(m.group(1)) if m else None
                return ("pidx", p[1], (st, size))
            if name == "reverseInPlace":
                pv = self.store[p[1]]
                seg = p[2]
                if pv[1] != "ID":
                    raise Undecided("%s: reversal of non-identity permutation indices" % where)
                if seg is not None and (seg[0] != 0 or seg[1] != pv[2]):
                    raise Undecided("%s: partial reversal segment<%s>(%s) of a permutation of size %s" % (where, seg[1], seg[0], pv[2]))
                self.store[p[1]] = ("perm", "REV", pv[2], None)
                return o
            if name == "data":
                return ("pdata", p[1])
            if name == "size":
                return ("int", -1)
            raise Undecided("%s: method %s on permutation indices" % (where, name))
        # --- vectors
        if val[0] == "vec":
            v = val[1]
            if name == "reverseInPlace":
                if o[0] != "loc":
                    raise Undecided("reverseInPlace on a temporary")
                order = None
                if v.order is not None:
                    order = ("asc" if v.order[0] == "desc" else "desc", v.order[1])
                self.store[o[1]] = ("vec", Vec(v.base, v.fn, v.perms + (("p", "REV", False),), order, v.nonneg, v.scal))
                return o
            if name in ("matrix", "array", "eval", "cast", "derived", "real"):
                return o if name in ("matrix", "array", "derived") else ("vec", v)
            if name in ("maxCoeff", "minCoeff", "sum", "mean", "norm", "squaredNorm"):
                return ("scalar", None, "nonneg" if (v.nonneg or (v.fn and v.fn[-1] == "abs")) else "any")
            if name == "transpose":
                return ("tview", o[1]) if o[0] == "loc" else ("vec", v)
            if name in ("abs", "cwiseAbs"):
                sg = "nonneg" if v.nonneg else (self.base_sign.get(v.base) if not v.fn else None)
                keep = None
                if v.order is not None and sg == "nonneg":
                    keep = v.order
                elif v.order is not None and sg == "nonpos":
                    keep = ("asc" if v.order[0] == "desc" else "desc", v.order[1])
                return ("vec", Vec(v.base, v.fn + ("abs",), v.perms, keep, True, tuple(("c", c_[1], c_[2]) for c_ in v.scal)))
            if name == "unaryExpr":
                fu = self.ev(args[0], env, depth, f)
                if fu[0] != "functor":
                    raise Undecided("%s: unaryExpr with %s" % (where, fu[0]))
                return ("vec", Vec(v.base, v.fn + ("functor:" + fu[1],), v.perms, None, False, ()))
            if name == "asDiagonal":
                return ("mat", v.diag_word())
            if name in ("fill", "setZero", "setConstant"):
                raise Undecided("%s: %s on an output vector" % (where, name))
            raise Undecided("%s: vector method %s" % (where, name))
        # --- matrices
        if val[0] == "mat":
            w = val[1]
            if name == "diagonal":
                if w in getattr(self, "diag_words", []):
                    return ("vec", Vec("dm"))
                return ("vec", Vec(self.fresh("diag")))
            if name == "setIdentity" and o[0] == "loc":
                self.store[o[1]] = ("mat", ())
                return o
            if name == "transposeInPlace":
                self.store[o[1]] = ("mat", w_transpose(w))
                return o
            if name == "adjointInPlace":
                self.store[o[1]] = ("mat", w_adjoint(w))
                return o
            if name == "transpose":
                return ("tview", o[1]) if o[0] == "loc" else ("mat", w_transpose(w))
            if name == "adjoint":
                return ("mat", w_adjoint(w))
            if name == "conjugate":
                return ("mat", w_conj(w))
            if name in ("eval", "cast", "derived", "matrix", "template cast"):
                return ("mat", w)
            if name in ("colwise", "rowwise"):
                return ("vwise", name, w)
            raise Undecided("%s: matrix method %s" % (where, name))
        if val[0] == "vwise":
            if name == "reverse":
                # colwise().reverse() reverses every column (= permutes the rows), rowwise().reverse() permutes the columns
                rev = ("p", "REV", False)
                return ("mat", (rev,) + val[2]) if val[1] == "colwise" else ("mat", val[2] + (rev,))
            raise Undecided("%s: %s().%s" % (where, val[1], name))
        if val[0] == "uninit" and name == "setIdentity" and o[0] == "loc":
            self.store[o[1]] = ("mat", ())
            return o
        if val[0] in ("opaque", "uninit"):
            # error-bound arrays: fill / reverseInPlace / operator/= have no effect on the decomposition
            return ("opaque", "method " + str(name))
        if o[0] == "tview":
            raise Undecided("%s: method %s on a transposed view" % (where, name))
        raise Undecided("%s: method %s on %s" % (where, name, val[0]))

    def operator(self, n, env, depth, f):
        op = n.get("op")
        where = "%s:%s" % (f["file"], n.get("l"))
        a = [self.ev(x, env, depth, f) for x in n["c"][1:]]
        if op == "=":
            lhs, rhs = a[0], self.rv(a[1])
            if lhs[0] != "loc":
                raise Undecided("%s: assignment to %s" % (where, lhs[0]))
            if rhs[0] in ("mat", "vec", "opaque"):
                self.store[lhs[1]] = rhs
                return lhs
            raise Undecided("%s: assignment of %s" % (where, rhs[0]))
        if op == "*=" and self.rv(a[1])[0] == "scalar" and a[0][0] == "loc" and self.store[a[0][1]][0] in ("mat", "vec"):
            y = self.rv(a[1])
            if y[1] is None:
                raise Undecided("%s: scaling by an unnamed scalar expression" % where)
            cf = ("c", y[1], 1)
            cur = self.store[a[0][1]]
            if cur[0] == "mat":
                self.store[a[0][1]] = ("mat", cur[1] + (cf,))
            else:
                v_ = cur[1]
                keep = v_.order if (y[2] == "nonneg" or y[1] in self.scalar_pos) else None
                self.store[a[0][1]] = ("vec", Vec(v_.base, v_.fn, v_.perms, keep, v_.nonneg, v_.scal + (cf,)))
            return a[0]
        if op == "*=":
            lhs, rhs = a[0], a[1]
            rp = self.rv(rhs)
            if rp[0] == "perm":
                pf = self.perm_factor(rp, where)
                if lhs[0] == "loc":
                    cur = self.store[lhs[1]]
                    if cur[0] == "mat":
                        self.store[lhs[1]] = ("mat", cur[1] + (pf,))
                        return lhs
                    raise Undecided("%s: *= permutation on %s" % (where, cur[0]))
                if lhs[0] == "tview":
                    cur = self.store[lhs[1]]
                    if cur[0] == "mat":
                        # X^T := X^T P   <=>   X := P^T X
                        self.store[lhs[1]] = ("mat", (f_transpose(pf),) + cur[1])
                        return lhs
                    if cur[0] == "vec":
                        v = cur[1]
                        order = self.order_after(v, rp, pf)
                        self.store[lhs[1]] = ("vec", Vec(v.base, v.fn, v.perms + (pf,), order, v.nonneg, v.scal))
                        return lhs
                    if cur[0] in ("opaque", "uninit"):
                        return lhs
                raise Undecided("%s: *= permutation on %s" % (where, lhs[0]))
            lv = self.rv(lhs)
            if lv[0] == "mat" and rp[0] == "mat" and lhs[0] == "loc":
                self.store[lhs[1]] = ("mat", lv[1] + rp[1])
                return lhs
            if lv[0] in ("opaque", "uninit"):
                return lhs
            raise Undecided("%s: %s *= %s" % (where, lv[0], rp[0]))
        if op == "*":
            x, y = self.rv(a[0]), self.rv(a[1])
            if x[0] == "mat" and y[0] == "mat":
                return ("mat", x[1] + y[1])
            if x[0] == "mat" and y[0] == "perm":
                return ("mat", x[1] + (self.perm_factor(y, where),))
            if x[0] == "perm" and y[0] == "mat":
                return ("mat", (self.perm_factor(x, where),) + y[1])
            if x[0] == "opaque" or y[0] == "opaque":
                return ("opaque", "product")
            raise Undecided("%s: %s * %s" % (where, x[0], y[0]))
        if op in ("/", "*") and self.rv(a[1])[0] == "scalar" and self.rv(a[0])[0] in ("mat", "vec"):
            x, y = self.rv(a[0]), self.rv(a[1])
            if y[1] is None:
                raise Undecided("%s: scaling by an unnamed scalar expression" % where)
            if op == "/" and y[1] not in self.scalar_pos:
                self.risky.append("%s: division by `%s` (%s), which is not excluded to be zero on this path: for such input every "
                                  "entry becomes NaN" % (where, y[1].split("@")[0], "a non-negative norm" if y[2] == "nonneg" else "a run-time value"))
            cf = ("c", y[1], -1 if op == "/" else 1)
            if x[0] == "mat":
                return ("mat", x[1] + (cf,))
            v_ = x[1]
            return ("vec", Vec(v_.base, v_.fn, v_.perms, v_.order, v_.nonneg, v_.scal + (cf,)))
        if op in ("*=", "/=") and self.rv(a[1])[0] == "scalar" and a[0][0] == "loc" and self.store[a[0][1]][0] in ("mat", "vec"):
            y = self.rv(a[1])
            if y[1] is None:
                raise Undecided("%s: scaling by an unnamed scalar expression" % where)
            if op == "/=" and y[1] not in self.scalar_pos:
                self.risky.append("%s: division by `%s`, which is not excluded to be zero on this path" % (where, y[1].split("@")[0]))
            cf = ("c", y[1], -1 if op == "/=" else 1)
            cur = self.store[a[0][1]]
            if cur[0] == "mat":
                self.store[a[0][1]] = ("mat", cur[1] + (cf,))
            else:
                v_ = cur[1]
                keep = v_.order if y[2] == "nonneg" or y[1] in self.scalar_pos else None
                self.store[a[0][1]] = ("vec", Vec(v_.base, v_.fn, v_.perms, keep, v_.nonneg, v_.scal + (cf,)))
            return a[0]
        if op in ("/=", "+=", "-="):
            lv = self.rv(a[0])
            if lv[0] in ("opaque", "uninit"):
                return a[0]
            raise Undecided("%s: %s on %s" % (where, op, lv[0]))
        if op in ("[]", "()"):
            return ("opaque", "element")
        raise Undecided("%s: operator %s" % (where, op))

    def perm_factor(self, p, where):
        if p[1] in (None,):
            raise Undecided("%s: permutation used before setIdentity" % where)
        if p[1] == "ID":
            raise Undecided("%s: identity permutation applied (no reordering)" % where) if False else None
        return ("p", p[1], False)

    def order_after(self, v, perm_val, pf):
        if pf is None:
            return v.order
        if pf[1] == "REV":
            return None if v.order is None else ("asc" if v.order[0] == "desc" else "desc", v.order[1])
        info = perm_val[3]
        if info and info.get("vec_key") == v.key():
            return (info["dir"], info["key"])
        return None

    def free_call(self, n, env, depth, f):
        fn = str(n.get("fn") or "")
        where = "%s:%s" % (f["file"], n.get("l"))
        args = n["c"][1:]
        if fn.startswith("std::sort"):
            a0 = self.ev(args[0], env, depth, f)
            lam = self.ev(args[2], env, depth, f) if len(args) > 2 else None
            if a0[0] != "pdata" or lam is None or lam[0] != "lambda":
                raise Undecided("%s: std::sort on something other than permutation indices with a lambda" % where)
            pv = self.store[a0[1]]
            if pv[1] != "ID":
                raise Undecided("%s: sort of non-identity indices" % where)
            info = self.comparator(lam, where)
            name = self.fresh("SORT")
            self.store[a0[1]] = ("perm", name, pv[2], info)
            return ("opaque", "sort")
        base = fn.split("<")[0]
        cands = [g for g in self.F.by_name.get(base, []) if g.get("mg") == n.get("mg")]
        if cands and cands[0]["file"].endswith("gm2_linalg.hpp"):
            g = cands[0]
            vals = []
            for p, a in zip(g["params"], args):
                v = self.ev(a, env, depth, f)
                t = str(p.get("t") or "")
                if p.get("ref"):
                    if v[0] == "loc":
                        vals.append(v)
                    else:
                        vals.append(("loc", self.new_loc(self.rv(v))))
                elif t.rstrip().endswith("*"):
                    if v[0] in ("ptr", "null"):
                        vals.append(v)
                    elif v[0] == "int" and v[1] == 0:
                        vals.append(("null",))
                    else:
                        raise Undecided("%s: pointer argument is %s" % (where, v[0]))
                else:
                    vals.append(self.rv(v))
            if base.endswith("::disna"):
                return ("opaque", "disna")
            rv = self.call(g, vals, depth + 1)
            return rv if rv is not None else ("opaque", "void")
        if fn.startswith("std::") or fn.startswith("Eigen::"):
            return ("opaque", fn)
        raise Undecided("%s: call of %s" % (where, fn[:80]))

    def comparator(self, lam, where):
        node, cenv = lam[1], lam[2]
        g = self.F.functions.get(node.get("mg"))
        if g is None:
            raise Undecided("%s: comparator lambda body not available" % where)
        body, params = g["body"], g["params"]
        rets = [s for s in _walk(body) if s.get("k") == "ReturnStmt"]
        if len(rets) != 1:
            raise Undecided("%s: comparator with %d return statements" % (where, len(rets)))
        e = strip_all(rets[0]["c"][0])
        if e.get("k") != "BinaryOperator" or e.get("op") not in ("<", ">"):
            raise Undecided("%s: comparator is not a strict < or > comparison" % where)

        def side(x):
            x = strip_all(x)
            fnchain = ()
            while x.get("k") == "CallExpr":
                nm = str(x.get("fn") or "").split("(")[0]
                if nm in ("std::abs", "abs", "std::fabs", "fabs"):
                    fnchain = ("abs",) + fnchain
                    x = strip_all(x["c"][1])
                else:
                    raise Undecided("%s: comparator applies %s" % (where, nm))
            if x.get("k") == "CXXOperatorCallExpr" and x.get("op") in ("[]", "()"):
                vec = strip_all(x["c"][1])
                idx = strip_all(x["c"][2])
                return fnchain, vec, idx
            raise Undecided("%s: comparator operand is not an element of the sorted vector" % where)

        f1, v1, i1 = side(e["c"][0])
        f2, v2, i2 = side(e["c"][1])
        if f1 != f2 or v1.get("id") != v2.get("id") or v1.get("id") is None:
            raise Undecided("%s: comparator compares different quantities" % where)
        pid = [p.get("id") for p in params]
        if len(pid) != 2 or i1.get("id") not in pid or i2.get("id") not in pid or i1.get("id") == i2.get("id"):
            raise Undecided("%s: comparator indices are not its two parameters" % where)
        first = i1.get("id") == pid[0]
        asc = (e.get("op") == "<") == first
        tgt = cenv.get(v1.get("id"))
        if tgt is None or tgt[0] != "loc":
            raise Undecided("%s: comparator reads a vector that is not a captured local/parameter" % where)
        cur = self.store[tgt[1]]
        if cur[0] != "vec":
            raise Undecided("%s: comparator reads %s" % (where, cur[0]))
        return dict(vec_loc=tgt[1], vec_key=cur[1].key(), key=f1, dir="asc" if asc else "desc")


def _walk(n):
    if isinstance(n, dict):
        yield n
        for k in ("c", "decls"):
            for x in n.get(k, []) or []:
                yield from _walk(x)
        for k in ("cond", "then", "else", "init", "body", "inc"):
            if isinstance(n.get(k), dict):
                yield from _walk(n[k])
