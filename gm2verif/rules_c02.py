"""C02 -- multi-variable loop functions: definition, symmetry, homogeneity and degenerate limits."""
import math
import os
import re
from fractions import Fraction

from .facts import walk, strip_all, call_args, is_call
from .structure import Struct, always_exits
from .terms import Evaluator, show, subterms
from .poly import Poly, Rat, NotPolynomial, PI
from .extract import AnalysisBroken, REPO
from . import mparse
from .closedform import canon, short, LOG, ARGS, key, diff_term, N as NUM
from .series import taylor, SeriesError, rat_series, asymptotic, LZ, poly_series
from .rules_c11 import INLINE_HELPERS, _is_sorting_network, ite_conds
from .terms import subst_fold
from .rules_c01 import hoist_ites, leaves, fold, rename, same_value, poly_float, value_at, ACC
from .domains import units, UnitFail

PID = "C02"
LEVEL = "other"
FILE = "src/gm2_ffunctions.cpp"

SYMMETRIC = {"Fa": 2, "Fb": 2, "FPZ": 2, "FSZ": 2, "FCWl": 2, "Ixyz": 3, "Phi": 3, "Phi_over_lambda_2": 3}
HOMOG = {  # name -> (dimension of each parameter, dimension of the result)
    "Iabc": (1, -2), "Ixyz": (2, -2), "Phi": (2, 2), "Phi_over_lambda_2": (2, -2), "lambda_2": (2, 4)}
DEFS2 = {"Fa": "Fa", "Fb": "Fb", "FPZ": "FPZ", "FSZ": "FSZ", "FCWl": "FCWl", "FCWu": "FCWu", "FCWd": "FCWd",
         "f_CSd": "fCSd", "f_CSu": "fCSu"}
SYM = lambda n: ("sym", n)


def fn(F, name, nparams=None):
    fs = [f for f in F.functions.values() if f["file"] == FILE and f["name"].split("::")[-1] == name
          and (nparams is None or len(f["params"]) == nparams)]
    if len(fs) != 1:
        raise AnalysisBroken("anchor %s/%s in %s: %d definitions" % (name, nparams, FILE, len(fs)))
    return fs[0]


def true_conds(facts):
    return [c for c, t in facts if t]


def generic_leaf(lv):
    g = [(f_, v) for f_, v in lv if not [c for c, t in f_ if t and not _sign_test(c)]]
    return g[-1] if g else None


def _sign_test(c):
    return c[0] == "cmp" and c[1] in ("<=", "<") and c[2][0] == "num" and c[2][1] == 0


def subst_sym(t, env):
    return mparse.subst(t, env)


def inline_calls(t, table):
    """replace ('call', name, (a,)) by table[name](a) recursively"""
    if not isinstance(t, tuple):
        return t
    if t[0] == "call":
        args = tuple(inline_calls(a, table) for a in t[2])
        n = short(t[1])
        if n in table:
            return table[n](*args)
        return ("call", t[1], args)
    if t[0] in ("num", "sym"):
        return t
    return (t[0],) + tuple(inline_calls(x, table) if isinstance(x, tuple) else x for x in t[1:])


def small_o(A, G, var, order):
    """A - G = O(var^order) at var = 0 for rational closed forms (other symbols are constants):
    returns the first non-vanishing order below `order`, or None"""
    diff = A - G
    num = poly_series(diff.n, var, Fraction(0), order + 8)
    den = poly_series(diff.d, var, Fraction(0), order + 8)
    vd = den.val()
    if vd is None:
        raise SeriesError("denominator vanishes identically")
    vn = num.val()
    if vn is None or vn - vd >= order:
        return None
    return vn - vd


def run(F, R, tier):
    R.explanation = (
        "(R1) Fa, Fb, FPZ, FSZ, FCWl, Ixyz (Iabc), Phi, Phi/lambda^2 sort their symmetric arguments (a verified "
        "sorting network) before anything but the negativity guard reads them, hence are invariant under every "
        "permutation exactly; lambda^2(x,y,z) is symmetric as a polynomial. (R2) Iabc, Ixyz, Phi, Phi/lambda^2, "
        "lambda^2 are homogeneous of degree -2, -1, 1, -1, 2 in their (squared-)mass arguments: units inference on "
        "the bodies. (R3) the generic branch of each function equals its definition in math/ffunctions.m; Ixy equals "
        "I2abc[x,y,1]. (R4) every degenerate branch is the exact limit/expansion of that generic form: equal "
        "arguments (FPZ, FSZ, FCWl: x f'(x) - f(x), and the [x,x] lines of ffunctions.m), Fa/Fb/Ixy expansions "
        "around y = x to second order, around (1,1), around x = 1; FPZ/FSZ around x = y = 1/4 (value and slope from "
        "the series of f_PS), FSZ for large x = y. (R5) zero arguments return the documented 0.")
    R.assumptions = ["f_PS enters through its differential equation (stated by ffunctions.m via FPZ[x,x]) and f_PS(1/4) = 2 log 2"]
    R.undecided = ["accuracy figures (1e-6 / 1e-4) as numbers", "phi_pos/phi_neg/luv against the dilogarithm form of Phi",
                   "phi_over_y limits", "continuity *between* regimes beyond the expansion orders checked"]

    text = open(os.path.join(getattr(F, "repo", None) or REPO, "math", "ffunctions.m")).read()
    defs = mparse.definitions(text)
    gen_m, spec_m = {}, {}
    for name, args, rhs in defs:
        if args is None or isinstance(rhs, Exception):
            continue
        pats = [a[1] for a in args if a[0] == "pat"]
        if len(pats) == len(args) and len(set(pats)) == len(pats):
            gen_m[name] = (pats, rhs)
        else:
            spec_m.setdefault(name, []).append((args, rhs))

    # closed forms of the one-variable functions (from ffunctions.m, already tied to the code by C01-R1)
    def m_closed(mname):
        pats, rhs = gen_m[mname]
        return lambda a: subst_sym(mparse.expand_module(rhs), {pats[0]: a})
    G3c, G4c, fClc, fSc = m_closed("G3"), m_closed("G4"), m_closed("fCl"), m_closed("fS")

    # ---------------------------------------------------------------- R1 sort first
    R.rule("R1", "symmetric arguments are sorted (ascending sorting network) before any use other than the negativity guard", 8)
    for name, n in sorted(SYMMETRIC.items()):
        f = fn(F, name, n)
        pn = [p["name"] for p in f["params"]]
        body = f["body"].get("c", [])
        ok, why = False, "no call sort(%s) at the top level of the body" % ", ".join(pn)
        for i, st in enumerate(body):
            calls = [x for x in walk(st) if is_call(x) and str(x.get("fn", "")).split("::")[-1] == "sort"]
            uses = [x for x in walk(st) if x.get("k") == "DeclRefExpr" and x.get("n") in pn]
            if calls and strip_all(st) is calls[0] or (calls and st.get("k") in ("CallExpr",)):
                got = [strip_all(a).get("n") for a in call_args(calls[0])]
                tgt = F.functions.get(calls[0].get("mg"))
                if got == pn and tgt is not None and _is_sorting_network(tgt, n):
                    ok, why = True, ""
                else:
                    why = "sort(%s) does not sort all of (%s) ascending" % (", ".join(map(str, got)), ", ".join(pn))
                break
            if uses:
                # only `if (p < 0 || ...) return NaN;` may precede
                guard = st.get("k") == "IfStmt" and always_exits(st.get("then")) and st.get("else") is None and \
                    all(_is_neg_test(F, st["cond"], u) for u in [x for x in walk(st["cond"]) if x.get("k") == "DeclRefExpr" and x.get("n") in pn])
                if not guard:
                    why = "statement at line %s uses %s before they are sorted" % (st.get("l"), "/".join(pn))
                    break
        R.check("R1", ok, "%s(%s): sort first" % (name, ", ".join(pn)), F.loc(f),
                "%s is not symmetric by construction: %s" % (name, why), key="R1|" + name)
    # lambda_2(x,y,z): polynomial symmetry and == LambdaK^2
    f = fn(F, "lambda_2", 3)
    E = Evaluator(F, inline=lambda n_, g: bool(re.search(r"::(sqr|lambda_2)$", n_)), max_depth=3)
    v, _ = E.function_value(f)
    x, y, z = [Poly.atom(SYM(p["name"])) for p in f["params"]]
    want = Rat(x * x + y * y + z * z - (x * y + y * z + z * x).scale(2))
    try:
        gl = generic_leaf(leaves(v))            # a zero-argument early return is a regime of its own
        lam = canon(gl[1] if gl is not None else v)
        same, shown = (lam - want).is_zero(), repr(lam.n)[:120]
    except NotPolynomial as e:
        same, shown = False, str(e)[:120]
    R.check("R1", same, "lambda_2(x,y,z) == x^2+y^2+z^2-2xy-2yz-2zx (symmetric polynomial)", F.loc(f),
            "lambda_2(x,y,z) is not the Kaellen polynomial: %s" % shown, key="R1|lambda_2")

    # ---------------------------------------------------------------- R2 homogeneity
    R.rule("R2", "homogeneity: Iabc(ka,kb,kc) = Iabc/k^2, Phi(kx,ky,kz) = k Phi, lambda^2 degree 2, Phi/lambda^2 and Ixyz "
                 "degree -1 (mass-dimension inference on the bodies)", 5)
    inl = re.compile(r"::(sqr|sort)$")
    for name, (pdim, want_d) in sorted(HOMOG.items()):
        f = fn(F, name, 3)
        E = Evaluator(F, inline=lambda n_, g: bool(inl.search(n_)), max_depth=3)
        v, _ = E.function_value(f)
        pd = {p["name"]: Fraction(pdim) for p in f["params"]}
        try:
            d = units(v, pd)
            R.check("R2", d == want_d, "%s: arguments GeV^%d -> result GeV^%s" % (name, pdim, d), F.loc(f),
                    "%s is homogeneous of degree %s/%d instead of %d/%d in its arguments" % (name, d, pdim, want_d, pdim),
                    key="R2|" + name)
        except UnitFail as ex:
            R.fail("R2", "%s: homogeneity" % name, F.loc(f), "%s: %s" % (ex, show(ex.term)[:120]), key="R2|" + name)

    # ---------------------------------------------------------------- R3 generic == definition
    R.rule("R3", "generic branch == definition in math/ffunctions.m (rational identity over the one-variable loop functions)", 10)
    lv, gen = {}, {}
    for cname, mname in sorted(DEFS2.items()):
        f = fn(F, cname)
        pn = [p["name"] for p in f["params"]]
        v = fold(F, f)
        lv[cname] = leaves(v)
        g = generic_leaf(lv[cname])
        if g is None or mname not in gen_m:
            R.soft_broken("R3 %s: generic branch or definition %s not found" % (cname, mname))
            continue
        pats, rhs = gen_m[mname]
        try:
            # the C++ of FCWu/FCWd shifts its arguments inside an ite: the generic leaf has them unshifted
            gv = g[1]
            for _ in range(6):          # inner ite values (shift merged into the arguments): take the un-shifted alternative
                cs = ite_conds(gv)
                if not cs:
                    break
                gv = subst_fold(gv, {c: NUM(0) for c in cs if not ite_conds(c)})
            code = canon(gv)
            rterm = subst_sym(mparse.expand_module(rhs), {a: SYM(b) for a, b in zip(pats, pn)})
            if cname == "f_CSu":
                dp, drhs = gen_m["fCSd"]
                rterm = inline_calls(rterm, {"fCSd": lambda *a_: subst_sym(mparse.expand_module(drhs), dict(zip(dp, a_)))})
            ref = canon(rterm)
            gen[cname] = code
            R.check("R3", (code - ref).is_zero(), "%s == %s[%s]" % (cname, mname, ", ".join(pats)), F.loc(f),
                    "generic branch of %s differs from its definition %s in math/ffunctions.m" % (cname, mname), key="R3|" + cname)
        except NotPolynomial as e:
            R.soft_broken("R3 %s: %s" % (cname, str(e)[:160]))
    # Ixy(x,y) == I2abc[x,y,1]
    f = fn(F, "Ixy")
    v = fold(F, f)
    lv["Ixy"] = leaves(v)
    g = generic_leaf(lv["Ixy"])
    pats, rhs = gen_m["I2abc"]
    try:
        code = canon(g[1])
        ref = canon(subst_sym(rhs, {pats[0]: SYM("x"), pats[1]: SYM("y"), pats[2]: NUM(1)}))
        gen["Ixy"] = code
        R.check("R3", (code - ref).is_zero(), "Ixy(x,y) == I2abc[x,y,1]", F.loc(f),
                "generic branch of Ixy differs from I2abc[a,b,c] of math/ffunctions.m at c = 1", key="R3|Ixy")
    except NotPolynomial as e:
        R.soft_broken("R3 Ixy: %s" % str(e)[:160])

    # ---------------------------------------------------------------- R4 degenerate branches
    R.rule("R4", "degenerate branches are exact limits / expansions of the generic form", 20)
    R.guard(_r4_barr_zee, F, R, lv, gen_m, spec_m, fClc)
    R.guard(_r4_fab, F, R, gen_m, G3c, G4c)
    R.guard(_r4_ixy, F, R, lv, gen)

    # ---------------------------------------------------------------- R7 Phi for lambda^2 > 0
    R.guard(_r7_phi, F, R, gen_m)

    # ---------------------------------------------------------------- R8 Phi/lambda^2 at lambda^2 = 0
    R.guard(_r8_phi_limit, F, R)

    # ---------------------------------------------------------------- R6 scale-free regime tests
    from .structure import no_runtime_statics
    R.guard(no_runtime_statics, F, R, "R9", ("src/gm2_ffunctions.cpp", "src/gm2_ffunctions.hpp", "src/gm2_numerics.hpp", "src/gm2_numerics.cpp"), "loop functions (gm2_ffunctions, gm2_numerics)", 1)
    R.rule("R6", "the test that selects an equal-argument expansion compares a scale-free quantity (x/y with 1), so that it "
                 "bounds the relative expansion variable (y-x)/x for arguments of every size in [1e-6, 1e6]", 6)
    scale_free_guards(F, R, "R6", ("Fa", "Fb", "Ixy", "FPZ", "FSZ", "FCWl", "Phi_over_lambda_2"), lv)

    # ---------------------------------------------------------------- R5 zero arguments
    R.rule("R5", "a zero argument returns the documented limit 0 (is_zero / == 0 branch in front of every division by it)", 7)
    for cname in ("Fa", "Fb", "FPZ", "FSZ", "FCWl", "Ixy", "f_CSd"):
        f = fn(F, cname)
        ls = lv.get(cname) or leaves(fold(F, f))
        zero = [(fa, v_) for fa, v_ in ls if any(_is_zero_test(c) for c in true_conds(fa))]
        if cname == "Ixy":
            # I(x, 0) = 0; I(0, y) = I0y(y) = log(y)/(y-1) is non-zero and checked under R4
            zero = [(fa, v_) for fa, v_ in zero if any(short(c[1]) == "is_zero" and c[2][0] == SYM("y") for c in true_conds(fa) if c[0] == "call")]
        ok = bool(zero) and all(v_ == ("num", Fraction(0)) for fa, v_ in zero)
        R.check("R5", ok, "%s: %d zero-argument regime(s) return 0" % (cname, len(zero)), F.loc(f),
                "%s: zero-argument regime missing or not returning 0: %s" % (cname, [show(v_)[:40] for fa, v_ in zero]),
                key="R5|" + cname)


def scale_free_guards(F, R, rid, names, lv):
    """shared by C02-R6 and C11-R6s"""
    for cname in names:
        f = fn(F, cname)
        pn = [p["name"] for p in f["params"]]
        ls = lv.get(cname) or leaves(hoist_ites(fold(F, f)))
        lv[cname] = ls
        seen = set()
        for fa, v_ in ls:
            for c in true_conds(fa):
                ms = {x_[1] for x_ in subterms(c) if isinstance(x_, tuple) and x_ and x_[0] == "sym" and x_[1] in pn}
                if len(ms) < 2 or c in seen or c[0] in ("or", "and"):
                    continue
                seen.add(c)
                ops = []
                if c[0] == "call" and short(c[1]) in ("is_equal_rel", "is_equal"):
                    ops = list(c[2][:2])
                elif c[0] == "call" and short(c[1]) == "is_zero" and len(c[2]) >= 1:
                    ops = [c[2][0]]           # |X| < eps with a pure number eps: X must be scale free
                elif c[0] == "cmp" and c[2][0] == "call" and short(c[2][1]) == "abs":
                    ops = [c[2][2][0]]
                elif c[0] == "cmp":
                    continue             # ordering tests (x < y) are scale-free
                else:
                    continue
                try:
                    k_ = SYM("__k")

                    def same_scaled(o):
                        """o(k p) == o(p); an opaque call is invariant when each of its arguments is"""
                        if o[0] == "call" and not (len(o[2]) == 1 and short(o[1]) in ("abs", "sqrt", "log")) and short(o[1]) not in ("pow",):
                            return all(same_scaled(a_) for a_ in o[2])
                        return (canon(subst_sym(o, {p_: ("*", k_, SYM(p_)) for p_ in pn})) - canon(o)).is_zero()
                    inv = all(same_scaled(o) for o in ops)
                except NotPolynomial:
                    inv = False
                R.check(rid, inv, "%s: %s is invariant under a common rescaling of its arguments" % (cname, show(c)[:60]), F.loc(f),
                        "%s selects its equal-argument branch by %s, an absolute comparison: for small arguments two unequal "
                        "values count as equal and the expansion around y = x is used outside its range" % (cname, show(c)[:80]),
                        key=rid + "|%s|%s" % (cname, show(c)[:60]))


def _is_neg_test(F, cond, use):
    """the use of a parameter inside `cond` is of the form  p < 0"""
    S_par = {}
    for n in walk(cond):
        for c in (n.get("c") or []):
            S_par[id(c)] = n
    p = S_par.get(id(use))
    while p is not None and p.get("k") in ("ImplicitCastExpr", "ParenExpr"):
        use, p = p, S_par.get(id(p))
    if p is None or p.get("k") != "BinaryOperator" or p.get("op") != "<":
        return False
    rhs = strip_all(p["c"][1])
    return p["c"][0] is use and str(rhs.get("v", rhs.get("iv"))) in ("0", "0.0", "0.")


def _is_zero_test(c):
    if c[0] == "call" and short(c[1]) == "is_zero":
        return True
    if c[0] == "cmp" and c[1] == "==" and (c[3] == ("num", Fraction(0)) or c[2] == ("num", Fraction(0))):
        return True
    if c[0] == "or":
        return _is_zero_test(c[1]) or _is_zero_test(c[2])
    return False


def _near(c, a, b=None):
    """condition is |1 - a/b| < eps or is_equal_rel(a, b, eps)"""
    s = show(c)
    return ("abs" in s or "is_equal_rel" in s)


def _window_about(conds, var):
    """(centre, half-width) of a closeness test on `var`: |var - c| < W, or is_equal_rel(var, c, eps) (half-width eps (1 + max(|var|, |c|)) <= eps (1 + |c|)/(1 - eps)), or is_equal(var, c, eps) (absolute)"""
    v = SYM(var)
    for c in conds:
        if c[0] == "cmp" and c[1] in ("<", "<=") and c[2][0] == "call" and c[2][1] == "abs" and c[3][0] == "num":
            a = c[2][2][0]
            if a[0] == "-" and a[1] == v and a[2][0] == "num":
                return a[2][1], float(c[3][1])
            if a[0] == "-" and a[2] == v and a[1][0] == "num":
                return a[1][1], float(c[3][1])
        if c[0] == "call" and str(c[1]).split("::")[-1] in ("is_equal_rel", "is_equal") and len(c[2]) == 3:
            a, b, e = c[2]
            if b == v:
                a, b = b, a
            if a == v and b[0] == "num" and e[0] == "num":
                # gm2_numerics.hpp: is_equal_rel(a, b, eps) <=> |a - b| < eps (1 + max(|a|, |b|))
                w = float(e[1]) * ((1 + abs(float(b[1]))) / (1 - float(e[1])) if str(c[1]).endswith("is_equal_rel") else 1.0)
                return b[1], w
    return None


# ---- Barr-Zee functions --------------------------------------------------------------------------------------

def _r4_barr_zee(F, R, lv, gen_m, spec_m, fClc):
    fps = lambda a: ("call", "f_PS", (a,))
    # derivative of f_PS from its differential equation: f' = ((2z-1) f - 2z log z)/(z (4z-1))
    dfps = lambda a: ("/", ("-", ("*", ("-", ("*", NUM(2), a), NUM(1)), fps(a)), ("*", ("*", NUM(2), a), ("call", "log", (a,)))),
                      ("*", a, ("-", ("*", NUM(4), a), NUM(1))))
    one = {"FPZ": lambda a: fps(a),
           "FSZ": lambda a: ("-", ("*", ("-", ("*", NUM(2), a), NUM(1)), fps(a)), ("*", ("*", NUM(2), a), ("+", NUM(2), ("call", "log", (a,))))),
           "FCWl": fClc}
    for cname in ("FPZ", "FSZ", "FCWl"):
        f = fn(F, cname)
        loc = F.loc(f)
        xs = SYM("x")
        ft = one[cname](xs)
        try:
            lim = canon(("-", ("*", xs, diff_term(ft, "x", {"f_PS": dfps})), ft))        # x f'(x) - f(x)
        except NotPolynomial as e:
            R.soft_broken("R4 %s: %s" % (cname, str(e)[:120]))
            continue
        # ffunctions.m  F[x_, x_]
        mm = [rhs for args, rhs in spec_m.get(cname, []) if len(args) == 2 and args[0][0] == "pat" and args[1] == args[0]]
        if mm:
            pv = [a for a, r in spec_m[cname] if len(a) == 2 and a[0][0] == "pat" and a[1] == a[0]][0][0][1]
            ref = canon(subst_sym(mm[0], {pv: xs}))
            R.check("R4", (lim - ref).is_zero(), "%s[x,x] of ffunctions.m == x f'(x) - f(x)" % cname, loc,
                    "ffunctions.m: %s[x,x] is not the y -> x limit of %s[x,y]" % (cname, cname), key="R4|%s|m" % cname)
        # the code's equal-argument regimes
        eq = [(fa, v_) for fa, v_ in lv[cname] if any(_near(c, "x", "y") for c in true_conds(fa)) and
              not any(_is_zero_test(c) for c in true_conds(fa))]
        if not eq:
            R.fail("R4", "%s: equal-argument branch" % cname, loc, "%s has no branch for x == y" % cname, key="R4|%s|eq" % cname)
            continue
        for fa, v_ in eq:
            extra = [c for c in true_conds(fa) if not ("/" in show(c) and "abs((1 -" in show(c))]
            tag = "; ".join(show(c)[:40] for c in extra) or "generic x == y"
            try:
                val = canon(inline_calls(v_, {"f_CSl": fClc}) if cname == "FCWl" else v_)
            except NotPolynomial as e:
                R.soft_broken("R4 %s [%s]: %s" % (cname, tag, str(e)[:100]))
                continue
            kinds = [show(c) for c in extra]
            if not extra:
                R.check("R4", (val - lim).is_zero(), "%s(x,x) == x f'(x) - f(x)" % cname, loc,
                        "equal-argument branch of %s is not the limit y -> x of its generic form" % cname, key="R4|%s|eq" % cname)
            elif _window_about(extra, "x") is not None:
                # value + slope around the centre of the window (1/4 today)
                try:
                    ctr0, _w = _window_about(extra, "x")
                    deg = val.n.degree_in(SYM("x"))
                    tc = taylor(val, "x", ctr0, deg + 1)
                    cc = taylor(lim, "x", ctr0, deg + 3)
                    bad = [i for i in range(deg + 1) if not same_value(Rat(tc[i]), Rat(cc[i]))]
                    R.check("R4", not bad, "%s(x,x) around 1/4: %d coefficient(s) from the series of f_PS" % (cname, deg + 1), loc,
                            "%s near x = y = 1/4: coefficient(s) %s differ from the expansion of the limit form "
                            "(code %s, exact %s)" % (cname, bad, [poly_float(tc[i]) for i in bad], [poly_float(cc[i]) for i in bad]),
                            key="R4|%s|quarter" % cname)
                    ctr, Wf = _window_about(extra, "x")
                    if Wf:
                        err = abs(poly_float(cc[deg + 1])) * Wf ** (deg + 1) / abs(poly_float(cc[0]))
                        R.check("R4", err <= 1e-6, "%s(x,x) around 1/4: truncation %.1e" % (cname, err), loc,
                                "%s: window |x - 1/4| < %g is too wide for an expansion of degree %d (error %.1e > 1e-6)"
                                % (cname, Wf, deg, err), key="R4|%s|quarterw" % cname)
                except (SeriesError, NotPolynomial) as e:
                    R.fail("R4", "%s around 1/4" % cname, loc, "series failed: %s" % str(e)[:150], key="R4|%s|quarter" % cname)
            elif any(re.search(r"\(\d+ <= x\)", k) for k in kinds):
                T = float([c for c in extra if c[0] == "cmp"][0][2][1])
                try:
                    ac, ash = asymptotic(val, "x", 12)
                    order = max([i for i, c in enumerate(ac) if c.t] or [0])
                    gc, gsh = asymptotic(lim, "x", order + 8)
                    bad = [i for i in range(order + 1) if not (ac[i] - gc[i]).is_zero()] if ash == gsh else ["leading power"]
                    R.check("R4", not bad, "%s(x,x) for x >= %g: %d expansion coefficients" % (cname, T, order + 1), loc,
                            "%s large-x branch: coefficient(s) of x^-%s differ from the expansion of the limit form (code %s, exact %s)"
                            % (cname, bad, [repr(ac[i]) for i in bad if isinstance(i, int)][:2], [repr(gc[i]) for i in bad if isinstance(i, int)][:2]),
                            key="R4|%s|inf" % cname)
                    lt = math.log(T)
                    c0 = abs(poly_float(gc[0], logz=lt))
                    err = sum(abs(poly_float(c, logz=lt)) * T ** (-(order + 1 + i)) for i, c in enumerate(gc[order + 1:])) / c0
                    R.check("R4", err <= 1e-6, "%s(x,x) for x >= %g: truncation %.1e" % (cname, T, err), loc,
                            "%s: large-x expansion of order %d used from x = %g on: error %.1e > 1e-6" % (cname, order, T, err),
                            key="R4|%s|infw" % cname)
                except (SeriesError, NotPolynomial) as e:
                    R.fail("R4", "%s large x" % cname, loc, "expansion failed: %s" % str(e)[:150], key="R4|%s|inf" % cname)
            else:
                R.soft_broken("R4 %s: unrecognised equal-argument regime %s" % (cname, kinds))
        # special values of ffunctions.m at (1/4, 1/4)
        for args, rhs in spec_m.get(cname, []):
            try:
                a0 = canon(args[0])
            except NotPolynomial:
                continue
            if a0.n.is_const() and a0.d.is_const() and a0.n.const_value() / a0.d.const_value() == Fraction(1, 4):
                try:
                    cc = taylor(lim, "x", Fraction(1, 4), 1)
                    R.check("R4", same_value(canon(rhs), Rat(cc[0])) or (canon(rhs) - Rat(cc[0])).is_zero(),
                            "%s[1/4,1/4] of ffunctions.m == limit" % cname, loc,
                            "ffunctions.m: %s[1/4,1/4] differs from the limit of %s[x,x]" % (cname, cname), key="R4|%s|mq" % cname)
                except (SeriesError, NotPolynomial) as e:
                    R.soft_broken("R4 %s[1/4,1/4]: %s" % (cname, str(e)[:100]))


# ---- Fa / Fb ------------------------------------------------------------------------------------------------------

def _r4_fab(F, R, gen_m, G3c, G4c):
    for cname, Gc, helper_x, helper_11 in (("Fa", G3c, "Fax", "Fa11"), ("Fb", G4c, "Fbx", "Fb11")):
        xs, ys, ts = SYM("x"), SYM("y"), SYM("t")
        generic = lambda a, b: ("/", ("-", Gc(b), Gc(a)), ("-", a, b))           # (G(y) - G(x))/(x - y)
        loc = F.loc(fn(F, cname))
        # (1) expansion around y = x:  helper_x generic branch, y = x (1 + t)
        f = fn(F, helper_x)
        ls = leaves(fold(F, f))
        g = generic_leaf(ls)
        near1 = [(fa, v_) for fa, v_ in ls if true_conds(fa)]
        try:
            env = {"y": ("*", xs, ("+", NUM(1), ts))}
            A = canon(subst_sym(g[1], env))
            G = canon(generic(xs, env["y"]))
            o = small_o(A, G, "t", 3)
            R.check("R4", o is None, "%s(x,y): expansion in (y - x) agrees with %s to O((y-x)^3)" % (helper_x, cname), F.loc(f),
                    "%s differs from the generic form of %s at order (y-x)^%s" % (helper_x, cname, o), key="R4|%s|yx" % cname)
        except (SeriesError, NotPolynomial) as e:
            R.fail("R4", "%s expansion" % helper_x, F.loc(f), "comparison failed: %s" % str(e)[:150], key="R4|%s|yx" % cname)
        # (2) x ~ 1 inside helper_x: Taylor in d = x - 1 of F(x,x) = -G'(x)
        for fa, v_ in near1:
            try:
                val = canon(v_)
                deg = val.n.degree_in(xs)
                tc = taylor(val, "x", 1, deg + 1)
                fxx = canon(("neg", diff_term(Gc(xs), "x")))
                cc = taylor(fxx, "x", 1, deg + 1)
                bad = [i for i in range(deg + 1) if not (tc[i] - cc[i]).is_zero()]
                R.check("R4", not bad, "%s near x = 1: %d Taylor coefficients of %s(x,x)" % (helper_x, deg + 1, cname), F.loc(f),
                        "%s near 1: coefficient(s) of d^%s differ from the series of %s(x,x) = -G'(x) (code %s, exact %s)"
                        % (helper_x, bad, cname, [repr(tc[i]) for i in bad][:2], [repr(cc[i]) for i in bad][:2]),
                        key="R4|%s|x1" % cname)
            except (SeriesError, NotPolynomial) as e:
                R.fail("R4", "%s near 1" % helper_x, F.loc(f), "series failed: %s" % str(e)[:150], key="R4|%s|x1" % cname)
        # (3) (1,1): bivariate coefficients c_ij = -g_{i+j+1}
        f = fn(F, helper_11)
        g = generic_leaf(leaves(fold(F, f)))
        try:
            val = canon(g[1])
            p = val.n.scale(1 / val.d.const_value())
            # re-expand in x1 = x - 1, y1 = y - 1
            sub = p.subs({xs: Poly.atom(SYM("x1")) + Poly.const(1), ys: Poly.atom(SYM("y1")) + Poly.const(1)})
            gs = taylor(canon(Gc(xs)), "x", 1, 8)
            bad = []
            n_ = 0
            for m, c in sub.t.items():
                d_ = dict(m)
                i, j = d_.get(SYM("x1"), 0), d_.get(SYM("y1"), 0)
                want = -gs[i + j + 1].const_value() if gs[i + j + 1].t else Fraction(0)
                n_ += 1
                if c != want:
                    bad.append("x1^%d y1^%d: %s vs %s" % (i, j, c, want))
            # every coefficient up to total degree 2 must be present
            for i in range(3):
                for j in range(3 - i):
                    want = -gs[i + j + 1].const_value()
                    mono = tuple(sorted([(a, e) for a, e in ((SYM("x1"), i), (SYM("y1"), j)) if e], key=lambda q: repr(q[0])))
                    if sub.t.get(mono, Fraction(0)) != want:
                        bad.append("missing x1^%d y1^%d" % (i, j))
            R.check("R4", not bad, "%s: %d bivariate Taylor coefficients at (1,1) == -g_{i+j+1}" % (helper_11, n_), F.loc(f),
                    "%s: %s" % (helper_11, "; ".join(bad[:3])), key="R4|%s|11" % cname)
        except (SeriesError, NotPolynomial) as e:
            R.fail("R4", "%s at (1,1)" % helper_11, F.loc(f), "comparison failed: %s" % str(e)[:150], key="R4|%s|11" % cname)
        # (4) ffunctions.m F[x,x] and F[1,1]
        for args, rhs in [(a, r) for n_, a, r in mparse.definitions(open(os.path.join(getattr(F, "repo", None) or REPO, "math", "ffunctions.m")).read())
                          if n_ == cname and a is not None and not isinstance(r, Exception)]:
            if len(args) == 2 and args[0][0] == "pat" and args[1] == args[0]:
                fxx = canon(("neg", diff_term(Gc(xs), "x")))
                ref = canon(subst_sym(rhs, {args[0][1]: xs}))
                R.check("R4", (fxx - ref).is_zero(), "%s[x,x] of ffunctions.m == -G'(x)" % cname, loc,
                        "ffunctions.m: %s[x,x] is not the y -> x limit of %s[x,y]" % (cname, cname), key="R4|%s|mxx" % cname)
            elif len(args) == 2 and args[0] == NUM(1) and args[1] == NUM(1):
                gs = taylor(canon(Gc(xs)), "x", 1, 3)
                R.check("R4", (canon(rhs) - Rat(-gs[1])).is_zero(), "%s[1,1] of ffunctions.m == -G'(1)" % cname, loc,
                        "ffunctions.m: %s[1,1] differs from -G'(1) = %r" % (cname, -gs[1]), key="R4|%s|m11" % cname)


# ---- Ixy -------------------------------------------------------------------------------------------------------------

def _r4_ixy(F, R, lv, gen):
    xs, ys, ts = SYM("x"), SYM("y"), SYM("t")
    G = gen.get("Ixy")
    if G is None:
        R.soft_broken("R4 Ixy: generic form unavailable")
        return

    def Gat(a, b):
        # generic I(x,y) as a term
        lx, ly = ("call", "log", (a,)), ("call", "log", (b,))
        one = NUM(1)
        return ("/", ("-", ("*", ("*", a, ("-", b, one)), lx), ("*", ("*", b, ("-", a, one)), ly)),
                ("*", ("*", ("-", a, one), ("-", a, b)), ("-", b, one)))
    chk = canon(Gat(xs, ys))
    if not (chk - G).is_zero():
        R.soft_broken("R4 Ixy: internal generic form differs from the code")
        return
    # Ixx(x,y): expansion around x = y to second order (generic branch), x = y (1 + t)
    f = fn(F, "Ixx")
    ls = leaves(fold(F, f))
    g = generic_leaf(ls)
    try:
        env = {"x": ("*", ys, ("+", NUM(1), ts))}
        A = canon(subst_sym(g[1], env))
        o = small_o(A, canon(Gat(env["x"], ys)), "t", 3)
        R.check("R4", o is None, "Ixx(x,y): expansion in (x - y) agrees with I(x,y) to O((x-y)^3)", F.loc(f),
                "Ixx differs from the generic I(x,y) at order (x-y)^%s" % o, key="R4|Ixx|xy")
    except (SeriesError, NotPolynomial) as e:
        R.fail("R4", "Ixx expansion", F.loc(f), "comparison failed: %s" % str(e)[:150], key="R4|Ixx|xy")
    # Ixx near y = 1: bivariate polynomial in (x-1), (y-1): exact through total order 2
    for fa, v_ in [(fa, v_) for fa, v_ in ls if true_conds(fa)]:
        try:
            env = {"x": ("+", NUM(1), ("*", SYM("a"), ts)), "y": ("+", NUM(1), ("*", SYM("b"), ts))}
            A = canon(subst_sym(v_, env))
            o = small_o(A, canon(Gat(env["x"], env["y"])), "t", 3)
            R.check("R4", o is None, "Ixx near (1,1): agrees with I(x,y) through total order 2", F.loc(f),
                    "Ixx near (1,1) differs from I(x,y) at total order %s" % o, key="R4|Ixx|11")
        except (SeriesError, NotPolynomial) as e:
            R.fail("R4", "Ixx near (1,1)", F.loc(f), "comparison failed: %s" % str(e)[:150], key="R4|Ixx|11")
    # I1y(x,y): expansion around x = 1 to second order
    f = fn(F, "I1y")
    g = generic_leaf(leaves(fold(F, f)))
    try:
        env = {"x": ("+", NUM(1), ts)}
        A = canon(subst_sym(g[1], env))
        o = small_o(A, canon(Gat(env["x"], ys)), "t", 3)
        R.check("R4", o is None, "I1y(x,y): expansion in (x - 1) agrees with I(x,y) to O((x-1)^3)", F.loc(f),
                "I1y differs from the generic I(x,y) at order (x-1)^%s" % o, key="R4|I1y")
    except (SeriesError, NotPolynomial) as e:
        R.fail("R4", "I1y expansion", F.loc(f), "comparison failed: %s" % str(e)[:150], key="R4|I1y")
    # I0y(y) = lim x->0 I(x,y) = log(y)/(y-1); near 1: series
    f = fn(F, "I0y")
    ls = leaves(fold(F, f))
    g = generic_leaf(ls)
    try:
        i0 = canon(g[1])
        want = canon(("/", ("call", "log", (ys,)), ("-", ys, NUM(1))))
        R.check("R4", (i0 - want).is_zero(), "I0y(y) == log(y)/(y-1) = lim x->0 I(x,y)", F.loc(f),
                "I0y is not the x -> 0 limit of I(x,y)", key="R4|I0y")
        for fa, v_ in [(fa, v_) for fa, v_ in ls if true_conds(fa)]:
            val = canon(v_)
            deg = val.n.degree_in(ys)
            tc, cc = taylor(val, "y", 1, deg + 1), taylor(want, "y", 1, deg + 1)
            bad = [i for i in range(deg + 1) if not (tc[i] - cc[i]).is_zero()]
            R.check("R4", not bad, "I0y near 1: %d Taylor coefficients" % (deg + 1), F.loc(f),
                    "I0y near 1: coefficient(s) %s differ from the series of log(y)/(y-1)" % bad, key="R4|I0y|1")
    except (SeriesError, NotPolynomial) as e:
        R.fail("R4", "I0y", F.loc(f), "comparison failed: %s" % str(e)[:150], key="R4|I0y")



# ---- Phi(x,y,z) for lambda^2 > 0 ------------------------------------------------------------------------------------

def _r7_phi(F, R, gen_m):
    """phi_pos: generic branch == Phi[u,v,1] of ffunctions.m (arxiv:1607.06292 Eq.(68));  the small-argument
    expansions l00, l0v, lv0 and the u == v expansion satisfy the quadratic equation of the quantity they expand,
       t^2 - (1 + u - v) t + u = 0   for (1 - lambda + u - v)/2,     t^2 - (1 - u + v) t + v = 0   for (1 - lambda - u + v)/2,
    to the stated order"""
    R.rule("R7", "Phi for lambda^2 > 0: phi_pos generic branch == Phi[u,v,1] of ffunctions.m; l00, l0v, lv0 and the u = v expansion "
                 "solve the defining quadratic of (1 - lambda +- (u - v))/2 to the stated order", 5)
    f = fn(F, "phi_pos")
    E = Evaluator(F, inline=lambda n_, g: bool(re.search(r"::(sqr|luv|lambda_2)$", n_)), max_depth=4)
    v, fr = E.function_value(f)
    ls = leaves(v)
    g = generic_leaf(ls)
    u, w = SYM("u"), SYM("v")
    try:
        gv = g[1]
        for _ in range(6):
            cs = ite_conds(gv)
            if not cs:
                break
            gv = subst_fold(gv, {c: NUM(0) for c in cs if not ite_conds(c)})
        code = canon(gv)
        need = {"Phi", "LambdaK", "alphaPlus", "alphaMinus"}
        if not need <= set(gen_m):
            raise NotPolynomial("definitions %s missing in ffunctions.m" % sorted(need - set(gen_m)))
        table = {}
        for nm in need:
            pats, rhs = gen_m[nm]
            table[nm] = (lambda pats_, rhs_: (lambda *a_: inline_calls(subst_sym(mparse.expand_module(rhs_), dict(zip(pats_, a_))), table)))(pats, rhs)
        ref = canon(table["Phi"](u, w, NUM(1)))
        lam2 = canon(("-", ("*", ("-", ("-", NUM(1), u), w), ("-", ("-", NUM(1), u), w)), ("*", ("*", NUM(4), u), w)))
        from .closedform import reduce_sqrt
        same = reduce_sqrt((code * lam2 * Rat(Poly.const(Fraction(1, 2))) - ref).n).is_zero()
        R.check("R7", same, "phi_pos(u,v) lambda^2/2 == Phi[u,v,1] (Davydychev-Tausk form of ffunctions.m)", F.loc(f),
                "generic branch of phi_pos differs from Phi[x,y,z] of math/ffunctions.m", key="R7|phi_pos")
    except (NotPolynomial, KeyError) as e:
        R.soft_broken("R7 phi_pos: %s" % str(e)[:160])

    def residual_orders(X, kind):
        """monomials (i, j) of  X^2 - (1 +- (u - v)) X + (u | v)  after clearing denominators"""
        one = Rat(Poly.const(1))
        U, V = Rat(Poly.atom(u)), Rat(Poly.atom(w))
        res = X * X - (one + U - V) * X + U if kind == "x" else X * X - (one - U + V) * X + V
        return res
    # l00(u,v): polynomial; exact up to and including u^3 v^3
    for name in ("l00",):
        f = fn(F, name)
        try:
            X = canon(generic_leaf(leaves(fold(F, f)))[1])
            ok_kind = None
            for kind in ("x", "y"):
                r_ = residual_orders(X, kind)
                low = [m for m in r_.n.t if dict(m).get(u, 0) <= 3 and dict(m).get(w, 0) <= 3]
                if r_.d.is_const() and not low:
                    ok_kind = kind
            R.check("R7", ok_kind is not None, "%s(u,v) solves its quadratic through u^3 v^3 (%s-type root)" % (name, ok_kind), F.loc(f),
                    "%s is not the expansion of (1 - lambda +- (u - v))/2 through O(u^3 v^3)" % name, key="R7|" + name)
        except (NotPolynomial, TypeError) as e:
            R.soft_broken("R7 %s: %s" % (name, str(e)[:120]))
    # l0v, lv0: series in u with exact coefficients in v; exact through u^3
    for name in ("l0v", "lv0"):
        f = fn(F, name)
        try:
            X = canon(generic_leaf(leaves(fold(F, f)))[1])
            ok_kind = None
            for kind in ("x", "y"):
                r_ = residual_orders(X, kind)
                low = [m for m in r_.n.t if dict(m).get(u, 0) <= 3]
                if not low and r_.d.degree_in(u) == 0:
                    ok_kind = kind
            R.check("R7", ok_kind is not None, "%s(u,v) solves its quadratic through u^3, exactly in v (%s-type root)" % (name, ok_kind), F.loc(f),
                    "%s is not the expansion of (1 - lambda +- (u - v))/2 through O(u^3)" % name, key="R7|" + name)
        except (NotPolynomial, TypeError) as e:
            R.soft_broken("R7 %s: %s" % (name, str(e)[:120]))
    # u == v branch of phi_pos: x = u (1 + u (1 + u (2 + 5 u))) solves t^2 - t + u = 0 through u^4
    f = fn(F, "phi_pos")
    found = False
    for x_ in subterms(v):
        if isinstance(x_, tuple) and len(x_) == 4 and x_[0] == "ite" and x_[1][0] == "cmp" and x_[1][2] == u:
            try:
                X = canon(x_[2])
                if not X.d.is_const() or X.n.degree_in(u) < 2:
                    continue
                res = X * X - X + Rat(Poly.atom(u))
                low = [m for m in res.n.t if dict(m).get(u, 0) <= X.n.degree_in(u)]
                found = True
                R.check("R7", not low, "phi_pos, u = v small: x(u) solves t^2 - t + u = 0 through u^%d" % X.n.degree_in(u), F.loc(f),
                        "the small-u expansion of (1 - sqrt(1 - 4u))/2 in phi_pos is wrong at order %s"
                        % sorted({dict(m).get(u, 0) for m in low})[:1], key="R7|uu")
            except NotPolynomial:
                continue
            break
    if not found:
        R.soft_broken("R7: small-u expansion of the u == v branch of phi_pos not found")



# ---- the limit lambda^2 -> 0 of Phi/lambda^2 -----------------------------------------------------------------------

def _r8_phi_limit(F, R):
    """On the curve lambda^2(u,v) = 0 (sqrt u + sqrt v = 1, parametrised by s = sqrt v: u = (1-s)^2, v = s^2) the bracket
    B of phi_pos vanishes and phi_pos = B/lambda -> dB/dlambda at lambda = 0.  The explicit limit formulas of
    Phi_over_lambda_2 (sorted, normalised arguments) and of phi_over_y (both cases, z = 1 not necessarily the largest
    argument; Phi/lambda^2 is symmetric and homogeneous of degree -1) must equal (dB/dlambda)/(2 c), c the largest argument."""
    R.rule("R8", "the explicit lambda^2 -> 0 limits (Phi_over_lambda_2, both cases of phi_over_y) equal d(bracket of phi_pos)/d(lambda) "
                 "at lambda = 0 on the curve sqrt(u) + sqrt(v) = 1, divided by 2 max(x,y,z)", 3)
    S_ = SYM("s")
    one = NUM(1)

    def on_curve(t, env):
        """term -> Rat over s, LOG(s), LOG(1-s), LOG(1+s): substitute env (param -> term in s), then resolve sqrt and log
        of products of powers of s, 1-s, 1+s (0 < s < 1)"""
        t = subst_sym(t, env)
        base = {"s": Poly.atom(S_), "1-s": Poly.const(1) - Poly.atom(S_), "1+s": Poly.const(1) + Poly.atom(S_)}

        def factor(p):
            """p = c * s^a (1-s)^b (1+s)^c  -> (c, a, b, c) or None"""
            exps = {}
            cur = p
            for nm, b in base.items():
                e = 0
                while True:
                    q = _divide(cur, b)
                    if q is None:
                        break
                    cur, e = q, e + 1
                exps[nm] = e
            if not cur.is_const() or not cur.t:
                return None
            return cur.const_value(), exps

        def atomize(x):
            if x[0] == "call" and short(x[1]) in ("sqrt", "log", "abs") and len(x[2]) == 1:
                a = to_rat_s(x[2][0])
                fn_, fd_ = factor(a.n), factor(a.d)
                if fn_ is None or fd_ is None:
                    raise NotPolynomial("argument of %s is not a product of s, 1-s, 1+s: %s" % (short(x[1]), show(x)[:60]))
                c = fn_[0] / fd_[0]
                ex = {k: fn_[1][k] - fd_[1][k] for k in base}
                if short(x[1]) == "abs":
                    r = Rat(Poly.const(abs(c)))
                    for k, e in ex.items():
                        for _ in range(abs(e)):
                            r = r * Rat(base[k]) if e > 0 else r / Rat(base[k])
                    return r
                if short(x[1]) == "sqrt":
                    if any(e % 2 for e in ex.values()) or c <= 0:
                        raise NotPolynomial("sqrt of a non-square")
                    import math as _m
                    rc = Fraction(_m.isqrt(c.numerator), _m.isqrt(c.denominator))
                    if rc * rc != c:
                        raise NotPolynomial("sqrt of a non-square constant")
                    r = Rat(Poly.const(rc))
                    for k, e in ex.items():
                        for _ in range(abs(e) // 2):
                            r = r * Rat(base[k]) if e > 0 else r / Rat(base[k])
                    return r
                # log
                from .closedform import _log_of_rational
                res = Poly()
                if abs(c) != 1:
                    res = res + _log_of_rational(abs(c))
                for k, e in ex.items():
                    if e:
                        res = res + Poly.atom(("LOGS", k)).scale(e)
                return Rat(res)
            return None

        def to_rat_s(u_):
            from .poly import to_rat as _tr
            return _tr(u_, atomize=atomize)
        return to_rat_s(t)

    # ---- dB/dlambda at lambda = 0 from the generic branch of phi_pos -----------------------------------------------
    f = fn(F, "phi_pos")
    E = Evaluator(F, inline=lambda n_, g: bool(re.search(r"::(sqr|luv)$", n_)), max_depth=4)
    v, fr = E.function_value(f)
    gv = generic_leaf(leaves(v))[1]
    for _ in range(6):
        cs = ite_conds(gv)
        if not cs:
            break
        gv = subst_fold(gv, {c: NUM(0) for c in cs if not ite_conds(c)})
    # gv = B / sqrt(lambda_2(u,v)); make lambda a symbol
    lam_t = [x for x in subterms(gv) if isinstance(x, tuple) and len(x) == 3 and x[0] == "call" and short(x[1]) == "sqrt"]
    lam_t = [x for x in lam_t if "lambda_2" in show(x)]
    if not lam_t or gv[0] != "/" or gv[2] != lam_t[0]:
        R.soft_broken("R8: phi_pos is not of the form bracket/sqrt(lambda_2(u,v))")
        return
    from .kernels import _subst as _tsub
    B = _tsub(gv[1], lam_t[0], SYM("lam"))
    try:
        dB = diff_term(B, "lam")
        dB0 = subst_sym(dB, {"lam": NUM(0)})
        B0 = subst_sym(B, {"lam": NUM(0)})
        curve = {"u": ("*", ("-", one, S_), ("-", one, S_)), "v": ("*", S_, S_)}
        b0 = on_curve(B0, curve)
        # B(lambda = 0) must vanish on the curve:  -log u log v + 2 log x log y - 2 Li2(x) - 2 Li2(y) + pi^2/3 with x + y = 1
        # (Euler reflection Li2(x) + Li2(1-x) = pi^2/6 - log x log(1-x)) -- checked on the derivative level only
        L = on_curve(dB0, curve)                      # limit of phi_pos = B'(0)
    except NotPolynomial as e:
        R.soft_broken("R8: %s" % str(e)[:160])
        return
    # ---- Phi_over_lambda_2 ------------------------------------------------------------------------------------------
    f = fn(F, "Phi_over_lambda_2")
    E2 = Evaluator(F, inline=lambda n_, g: bool(re.search(r"::(sqr)$", n_)), max_depth=2)
    v2, _ = E2.function_value(f)
    from .rules_c01 import hoist_ites
    v2 = hoist_ites(v2)          # `c ? limit : generic` inside the returned expression is the same regime split
    lim = [val for fa, val in leaves(v2) if true_conds(fa)]
    try:
        if len(lim) != 1:
            raise NotPolynomial("limit branch of Phi_over_lambda_2 not found")
        pn = [p_["name"] for p_ in f["params"]]
        got = on_curve(lim[0], {pn[0]: curve["u"], pn[1]: curve["v"], pn[2]: one})
        R.check("R8", (got - L * Rat(Poly.const(Fraction(1, 2)))).is_zero(),
                "Phi_over_lambda_2: limit branch == (d bracket/d lambda)/(2 z) on sqrt(u) + sqrt(v) = 1", F.loc(f),
                "the lambda^2 -> 0 value returned by Phi_over_lambda_2 is not the limit of Phi/lambda^2", key="R8|Phi_over_lambda_2")
    except NotPolynomial as e:
        R.soft_broken("R8 Phi_over_lambda_2: %s" % str(e)[:140])
    # ---- phi_over_y ------------------------------------------------------------------------------------------------------
    f = fn(F, "phi_over_y")
    v3, _ = E2.function_value(f)
    v3 = hoist_ites(v3)
    cases = [(fa, val) for fa, val in leaves(v3) if true_conds(fa)]
    pn = [p_["name"] for p_ in f["params"]]          # (xu, xd); Phi(xd, xu, 1)
    try:
        if len(cases) != 2:
            raise NotPolynomial("%d limit branches in phi_over_y, expected 2" % len(cases))
        # case a: xu = (1 - sqrt xd)^2, xd = s^2 < 1: largest argument is 1 -> (u, v) = ((1-s)^2, s^2), c = 1
        # case b: xu = (1 + sqrt xd)^2, xd = s'^2: largest is xu; on the curve with s = s'/(1+s'):  c = (1+s')^2 = 1/(1-s)^2
        ok_a = ok_b = False
        for fa, val in cases:
            ga = on_curve(val, {pn[0]: curve["u"], pn[1]: curve["v"]})
            if (ga - L * Rat(Poly.const(Fraction(1, 2)))).is_zero():
                ok_a = True
                continue
            # s' = s/(1-s):  xd = s'^2, xu = (1+s')^2 = 1/(1-s)^2
            sp = ("/", S_, ("-", one, S_))
            gb = on_curve(val, {pn[1]: ("*", sp, sp), pn[0]: ("/", one, ("*", ("-", one, S_), ("-", one, S_)))})
            c = Rat(Poly.const(1)) / (Rat(Poly.const(1) - Poly.atom(S_)) * Rat(Poly.const(1) - Poly.atom(S_)))
            # sorted normalised arguments: {1/c, xd/c} = {(1-s)^2, s^2}
            if (gb - L * Rat(Poly.const(Fraction(1, 2))) / c).is_zero():
                ok_b = True
        R.check("R8", ok_a, "phi_over_y, xu = (1 - sqrt xd)^2: limit == (d bracket/d lambda)/2", F.loc(f),
                "the first limit formula of phi_over_y is not the limit of Phi(xd,xu,1)/lambda^2", key="R8|phi_over_y|a")
        R.check("R8", ok_b, "phi_over_y, xu = (1 + sqrt xd)^2: limit == (d bracket/d lambda)/(2 xu)", F.loc(f),
                "the second limit formula of phi_over_y is not the limit of Phi(xd,xu,1)/lambda^2", key="R8|phi_over_y|b")
    except NotPolynomial as e:
        R.soft_broken("R8 phi_over_y: %s" % str(e)[:140])


def _divide(p, b):
    """exact division of a univariate polynomial in s by a linear polynomial b; None if not divisible"""
    x = SYM("s")
    if any(a != x for a in p.atoms()) or p.degree_in(x) < b.degree_in(x) or not p.t:
        return None
    deg = p.degree_in(x)
    c = [(p.coeff_of(x, k).const_value() if p.coeff_of(x, k).t else Fraction(0)) for k in range(deg + 1)]
    b0 = b.coeff_of(x, 0).const_value() if b.coeff_of(x, 0).t else Fraction(0)
    b1 = b.coeff_of(x, 1).const_value() if b.degree_in(x) == 1 else Fraction(0)
    if b1 == 0:
        return None
    q = [Fraction(0)] * deg
    rem = list(c)
    for k in range(deg, 0, -1):
        q[k - 1] = rem[k] / b1
        rem[k - 1] -= q[k - 1] * b0
        rem[k] = Fraction(0)
    if rem[0] != 0:
        return None
    out = Poly()
    for k, ck in enumerate(q):
        if ck:
            out = out + ((Poly.atom(x) ** k).scale(ck) if k else Poly.const(ck))
    return out
