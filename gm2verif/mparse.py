"""Reader for the Mathematica definition file math/ffunctions.m (the repository's own statement of
the published closed forms, with equation numbers).  Produces terms of the evaluator's term
language:  ('num', Fraction) ('sym', name) ('+',a,b) ('-',a,b) ('*',a,b) ('/',a,b) ('neg',a)
('pow', a, n) ('call', Name, (args...)).  Only the expression subset used by the file is
accepted; anything else raises MParseError (the rule that needs that definition reports
analysis-broken, never a pass)."""
import re
from fractions import Fraction


class MParseError(Exception):
    pass


TOK = re.compile(r"\s*(?:(\d+\.\d*|\d+)|([A-Za-z][A-Za-z0-9]*_?)|(:=|[-+*/^\[\](){},;=]))")


def strip_comments(s):
    out, depth, i = [], 0, 0
    while i < len(s):
        if s.startswith("(*", i):
            depth += 1
            i += 2
        elif s.startswith("*)", i) and depth:
            depth -= 1
            i += 2
        else:
            if not depth:
                out.append(s[i])
            i += 1
    return "".join(out)


def tokenize(s):
    toks, i = [], 0
    s = s.rstrip()
    while i < len(s):
        m = TOK.match(s, i)
        if not m:
            if s[i:].strip() == "":
                break
            raise MParseError("cannot tokenize at %r" % s[i:i + 30])
        if m.group(1):
            toks.append(("num", m.group(1)))
        elif m.group(2):
            toks.append(("id", m.group(2)))
        else:
            toks.append(("op", m.group(3)))
        i = m.end()
    return toks


class P:
    def __init__(self, toks):
        self.t = toks
        self.i = 0

    def peek(self):
        return self.t[self.i] if self.i < len(self.t) else (None, None)

    def take(self, kind=None, val=None):
        k, v = self.peek()
        if (kind is not None and k != kind) or (val is not None and v != val):
            raise MParseError("expected %s %s, got %s %s" % (kind, val, k, v))
        self.i += 1
        return v

    def at(self, val):
        return self.peek() == ("op", val)

    # compound:  a = b; c = d; expr
    def compound(self):
        items = [self.assign()]
        while self.at(";"):
            self.take()
            if self.peek()[0] is None or self.at("]") or self.at(")"):
                break
            items.append(self.assign())
        return items[0] if len(items) == 1 else ("seq", tuple(items))

    def assign(self):
        save = self.i
        k, v = self.peek()
        if k == "id" and self.i + 1 < len(self.t) and self.t[self.i + 1] == ("op", "="):
            self.i += 2
            return ("set", v, self.expr())
        self.i = save
        return self.expr()

    def expr(self):
        a = self.term()
        while self.at("+") or self.at("-"):
            op = self.take()
            b = self.term()
            a = (op, a, b)
        return a

    def starts_primary(self):
        k, v = self.peek()
        return k in ("num", "id") or (k == "op" and v in ("(", "{"))

    def term(self):
        a = self.unary()
        while True:
            if self.at("*") or self.at("/"):
                op = self.take()
                b = self.unary()
                a = (op, a, b)
            elif self.starts_primary():
                b = self.power()
                a = ("*", a, b)
            else:
                return a

    def unary(self):
        if self.at("-"):
            self.take()
            return ("neg", self.unary())
        if self.at("+"):
            self.take()
            return self.unary()
        return self.power()

    def power(self):
        a = self.primary()
        if self.at("^"):
            self.take()
            b = self.unary_exp()
            return ("pow", a, b)
        return a

    def unary_exp(self):
        if self.at("-"):
            self.take()
            return ("neg", self.unary_exp())
        return self.power()

    def primary(self):
        k, v = self.peek()
        if k == "num":
            self.take()
            return ("num", Fraction(v))
        if k == "id":
            self.take()
            if self.at("["):
                self.take()
                args = []
                if not self.at("]"):
                    args.append(self.compound())
                    while self.at(","):
                        self.take()
                        args.append(self.compound())
                self.take("op", "]")
                return ("call", v, tuple(args))
            return ("sym", v)
        if self.at("("):
            self.take()
            e = self.compound()
            self.take("op", ")")
            return e
        if self.at("{"):
            self.take()
            items = []
            if not self.at("}"):
                items.append(self.assign())
                while self.at(","):
                    self.take()
                    items.append(self.assign())
            self.take("op", "}")
            return ("list", tuple(items))
        raise MParseError("unexpected token %s %s" % (k, v))


def parse_expr(s):
    p = P(tokenize(s))
    e = p.compound()
    if p.peek()[0] is not None:
        raise MParseError("trailing tokens: %s" % (p.t[p.i:p.i + 5],))
    return e


def definitions(text):
    """list of (name, lhs_args (terms; pattern variables as ('pat', name)), rhs term or MParseError)"""
    text = strip_comments(text)
    out = []
    for chunk in re.split(r"\n\s*\n", text):
        chunk = chunk.strip()
        if ":=" not in chunk:
            continue
        lhs, rhs = chunk.split(":=", 1)
        rhs = rhs.strip().rstrip(";").strip()
        try:
            l = parse_expr(lhs.strip())
        except MParseError as e:
            out.append((lhs.strip(), None, e))
            continue
        if l[0] != "call":
            continue
        args = []
        for a in l[2]:
            if a[0] == "sym" and a[1].endswith("_"):
                args.append(("pat", a[1][:-1]))
            else:
                args.append(a)
        try:
            r = parse_expr(rhs)
        except MParseError as e:
            r = e
        out.append((l[1], tuple(args), r))
    return out


def expand_module(t):
    """Module[{a = e, ...}, body] and Module[{a, b}, a = e; b = f; body] -> body with the locals substituted"""
    if not isinstance(t, tuple):
        return t
    if t[0] == "call" and t[1] == "Module" and len(t[2]) == 2 and t[2][0][0] == "list":
        env = {}
        for it in t[2][0][1]:
            if it[0] == "set":
                env[it[1]] = subst(expand_module(it[2]), env)
        body = t[2][1]
        items = body[1] if body[0] == "seq" else (body,)
        res = None
        for it in items:
            if it[0] == "set":
                env[it[1]] = subst(expand_module(it[2]), env)
            else:
                res = subst(expand_module(it), env)
        if res is None:
            raise MParseError("Module without value")
        return res
    if t[0] in ("num", "sym"):
        return t
    if t[0] == "call":
        return ("call", t[1], tuple(expand_module(a) for a in t[2]))
    return (t[0],) + tuple(expand_module(x) if isinstance(x, tuple) else x for x in t[1:])


def subst(t, env):
    if not isinstance(t, tuple):
        return t
    if t[0] == "sym":
        return env.get(t[1], t)
    if t[0] == "num":
        return t
    if t[0] == "call":
        return ("call", t[1], tuple(subst(a, env) for a in t[2]))
    return (t[0],) + tuple(subst(x, env) if isinstance(x, tuple) else x for x in t[1:])


def comments_with_positions(s):
    out, depth, i, start = [], 0, 0, None
    while i < len(s):
        if s.startswith("(*", i):
            if depth == 0:
                start = i
            depth += 1
            i += 2
        elif s.startswith("*)", i) and depth:
            depth -= 1
            i += 2
            if depth == 0:
                out.append((start, i, s[start + 2:i - 2].strip()))
        else:
            i += 1
    return out


def integral_definitions(text):
    """(* Module[{x}, pref Integrate[integrand, {x,0,1}]] *) comments, attached to the next defined function:
    {name: (prefactor term, integrand term, integration variable)}"""
    res = {}
    for start, end, body in comments_with_positions(text):
        if "Integrate[" not in body:
            continue
        m = re.search(r"\n\s*([A-Za-z][A-Za-z0-9]*)\[[^\]]*\]\s*:=", text[end:])
        if not m:
            continue
        try:
            t = parse_expr(body)
        except MParseError:
            continue
        if t[0] == "call" and t[1] == "Module" and len(t[2]) == 2:
            t = t[2][1]
        # pref * Integrate[f, {x, 0, 1}]
        pref, integ = ("num", Fraction(1)), None

        def find(u, acc):
            nonlocal integ
            if u[0] == "call" and u[1] == "Integrate":
                integ = u
                return acc
            if u[0] == "*":
                a = find(u[1], acc)
                if integ is not None and a is acc and u[1][0] == "call" and u[1][1] == "Integrate":
                    return ("*", acc, u[2])
                if integ is not None:
                    return ("*", a, u[2]) if not (u[2][0] == "call" and u[2][1] == "Integrate") else a
                b = find(u[2], acc)
                if integ is not None:
                    return ("*", u[1], b) if b is not acc else u[1]
            return acc
        p = find(t, None)
        if integ is None or len(integ[2]) != 2 or integ[2][1][0] != "list":
            continue
        lim = integ[2][1][1]
        if len(lim) != 3 or lim[1] != ("num", Fraction(0)) or lim[2] != ("num", Fraction(1)):
            continue
        res[m.group(1)] = (p if p is not None else pref, integ[2][0], lim[0][1])
    return res
