"""Canonical textual rendering of expression trees (for semantic keys, tables and
evidence).  Implicit casts, parentheses, `this->`, and the namespaces std:: /
gm2calc:: are dropped; `a > b` is rendered as `b < a`; const locals can be
resolved to their initialisers."""
import re

from .facts import walk, kids, strip_all, call_args, call_object, is_call

NS = re.compile(r"\b(std|gm2calc|Eigen)::")


def _short(name):
    if name is None:
        return "?"
    name = NS.sub("", name)
    name = re.sub(r"\(anonymous namespace\)::", "", name)
    name = re.sub(r"<[^<>]*(<[^<>]*>[^<>]*)*>", "", name)
    return name


class Renderer:
    def __init__(self, f=None, resolve_locals=True):
        self.f = f
        self.resolve = resolve_locals
        self.local_init = {}
        if f is not None and resolve_locals:
            assigned = set()
            for n in walk(f["body"]):
                if n.get("k") in ("BinaryOperator", "CompoundAssignOperator") and \
                        n.get("op") in ("=", "+=", "-=", "*=", "/="):
                    l = strip_all(n["c"][0])
                    if l.get("k") == "DeclRefExpr":
                        assigned.add(l.get("id"))
            for n in walk(f["body"]):
                if n.get("k") == "DeclStmt":
                    for d in n["decls"]:
                        if d.get("init") is not None and d.get("id") not in assigned and \
                                (d.get("const") or d.get("cref")) and not d.get("static"):
                            self.local_init[d["id"]] = d["init"]

    def r(self, n, depth=0):
        if n is None:
            return ""
        n = strip_all(n)
        k = n.get("k")
        if depth > 40:
            return "..."
        if k in ("IntegerLiteral",):
            return n.get("v")
        if k == "FloatingLiteral":
            s = n.get("s") or n.get("v")
            try:
                v = float(s)
                return repr(int(v)) if v == int(v) and abs(v) < 1e15 else repr(v)
            except (TypeError, ValueError):
                return str(s)
        if k == "CXXBoolLiteralExpr":
            return "true" if n.get("v") else "false"
        if k == "StringLiteral":
            return '"%s"' % n.get("v")
        if k == "CXXNullPtrLiteralExpr":
            return "nullptr"
        if k == "CXXThisExpr":
            return "this"
        if k == "DeclRefExpr":
            if self.resolve and n.get("id") in self.local_init and n.get("rk") == "Var":
                return self.r(self.local_init[n["id"]], depth + 1)
            if n.get("rk") == "Enum":
                return _short(n.get("n"))
            return _short(n.get("n")).split("::")[-1] if n.get("rk") in ("Var", "Param") else _short(n.get("n"))
        if k == "MemberExpr":
            base = self.r(n["c"][0], depth + 1) if n.get("c") else "this"
            if base == "this":
                return n.get("sn")
            return "%s.%s" % (base, n.get("sn"))
        if k == "UnaryOperator":
            a = self.r(n["c"][0], depth + 1)
            if n.get("postfix"):
                return "(%s)%s" % (a, n["op"])
            return "%s(%s)" % (n["op"], a) if n["op"] not in ("*", "&") else "%s%s" % (n["op"], a)
        if k in ("BinaryOperator", "CompoundAssignOperator"):
            a, b = self.r(n["c"][0], depth + 1), self.r(n["c"][1], depth + 1)
            op = n["op"]
            if op == ">":
                a, b, op = b, a, "<"
            elif op == ">=":
                a, b, op = b, a, "<="
            return "(%s %s %s)" % (a, op, b)
        if k == "ConditionalOperator":
            return "(%s ? %s : %s)" % (self.r(n["cond"], depth + 1), self.r(n["then"], depth + 1), self.r(n["else"], depth + 1))
        if k == "ArraySubscriptExpr":
            return "%s[%s]" % (self.r(n["c"][0], depth + 1), self.r(n["c"][1], depth + 1))
        if k == "CXXMemberCallExpr":
            obj = call_object(n)
            o = self.r(obj, depth + 1) if obj is not None else "this"
            name = _short(n.get("fn") or "?").split("::")[-1]
            args = ", ".join(self.r(a, depth + 1) for a in call_args(n) if a.get("k") != "CXXDefaultArgExpr")
            if o == "this":
                return "%s(%s)" % (name, args)
            return "%s.%s(%s)" % (o, name, args)
        if k == "CXXOperatorCallExpr":
            ops = n["c"][1:]
            op = n.get("op")
            if op == "()":
                return "%s(%s)" % (self.r(ops[0], depth + 1), ", ".join(self.r(a, depth + 1) for a in ops[1:]))
            if op == "[]":
                return "%s[%s]" % (self.r(ops[0], depth + 1), self.r(ops[1], depth + 1))
            if len(ops) == 2:
                a, b = self.r(ops[0], depth + 1), self.r(ops[1], depth + 1)
                if op == ">":
                    a, b, op = b, a, "<"
                elif op == ">=":
                    a, b, op = b, a, "<="
                return "(%s %s %s)" % (a, op, b)
            if len(ops) == 1:
                return "%s(%s)" % (op, self.r(ops[0], depth + 1))
        if k in ("CallExpr",):
            name = _short(n.get("fn") or "?")
            name = name.split("::")[-1]
            return "%s(%s)" % (name, ", ".join(self.r(a, depth + 1) for a in call_args(n)
                                                 if a.get("k") != "CXXDefaultArgExpr"))
        if k in ("CXXConstructExpr", "CXXTemporaryObjectExpr"):
            args = [a for a in n.get("c", []) if a.get("k") != "CXXDefaultArgExpr"]
            if len(args) == 1:
                return self.r(args[0], depth + 1)
            return "%s(%s)" % (_short(n.get("fn") or "?").split("::")[-1], ", ".join(self.r(a, depth + 1) for a in args))
        if k in ("CXXFunctionalCastExpr", "CXXStaticCastExpr", "CStyleCastExpr", "CXXReinterpretCastExpr",
                 "CXXConstCastExpr"):
            return "cast<%s>(%s)" % (_short(n.get("t")), self.r(n["c"][0], depth + 1))
        if k == "LambdaExpr":
            return "lambda@%s" % n.get("l")
        if k == "CXXDefaultArgExpr":
            return "default"
        if k == "InitListExpr":
            return "{%s}" % ", ".join(self.r(a, depth + 1) for a in n.get("c", []))
        ch = list(kids(n))
        if len(ch) == 1:
            return self.r(ch[0], depth + 1)
        return "%s(%s)" % (k, ", ".join(self.r(c, depth + 1) for c in ch))


def render(n, f=None, resolve_locals=True):
    return Renderer(f, resolve_locals).r(n)
