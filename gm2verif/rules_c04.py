"""C04 -- MSSM tree-level spectrum: the mass matrices are the ones of the MSSM Lagrangian;
EWSB elimination; tachyon flags; Goldstone reordering; generation siblings."""
import re
from fractions import Fraction

from .facts import walk, kids, strip_all, call_args, call_object, is_call
from .structure import Struct, always_exits
from .render import Renderer
from .terms import Evaluator, Frame, show, num
from .poly import to_rat, Rat, Poly, NotPolynomial
from .potential import C, A, hessian, gradient, SQRT2, INV_SQRT2
from .rules_c20 import _reduce_roots
from .rules_c16 import FieldFlow
from .extract import AnalysisBroken

PID = "C04"
LEVEL = "other"
CLS = "gm2calc::MSSMNoFV_onshell_mass_eigenstates"
TH = ("this",)


def fld(n):
    return Poly.atom(("field", TH, n))


def el(n, i, k):
    return Poly.atom(("elem", ("field", TH, n), ("num", Fraction(i)), ("num", Fraction(k))))


def K(x):
    return Poly.const(Fraction(x))


def spec_matrices():
    """independent statement of the MSSM (no flavour violation) tree-level mass matrices"""
    g1, g2, vd, vu, Mu, BMu = (fld(x) for x in ("g1", "g2", "vd", "vu", "Mu", "BMu"))
    mHd2, mHu2, M1, M2, M3 = (fld(x) for x in ("mHd2", "mHu2", "MassB", "MassWB", "MassG"))
    gY2 = (g1 * g1).scale(Fraction(3, 5))
    g22 = g2 * g2
    out = {}

    def dterm(T3, Y):
        # (T3 g2^2 - (Y/2) gY^2) (vd^2 - vu^2) / 4   for a left-chiral superfield with (T3, Y)
        return (g22.scale(Fraction(T3)) - gY2.scale(Fraction(Y) / 2)) * (vd * vd - vu * vu).scale(Fraction(1, 4))

    def sfermion(name, g, softL, softR, yuk, tri, T3, YL, YRc, vsame, vother):
        y = el(yuk, g, g)
        LL = el(softL, g, g) + (y * y * vsame * vsame).scale(Fraction(1, 2)) + dterm(T3, YL)
        RR = el(softR, g, g) + (y * y * vsame * vsame).scale(Fraction(1, 2)) + dterm(0, YRc)
        LR = (vsame * el(tri, g, g) - vother * y * Mu) * INV_SQRT2
        out[name] = [[LL, LR], [LR, RR]]

    for g, nm in enumerate(("Sd", "Ss", "Sb")):
        sfermion(nm, g, "mq2", "md2", "Yd", "TYd", Fraction(-1, 2), Fraction(1, 3), Fraction(2, 3), vd, vu)
    for g, nm in enumerate(("Su", "Sc", "St")):
        sfermion(nm, g, "mq2", "mu2", "Yu", "TYu", Fraction(1, 2), Fraction(1, 3), Fraction(-4, 3), vu, vd)
    for g, nm in enumerate(("Se", "Sm", "Stau")):
        sfermion(nm, g, "ml2", "me2", "Ye", "TYe", Fraction(-1, 2), Fraction(-1), Fraction(2), vd, vu)
    for g, nm in enumerate(("SveL", "SvmL", "SvtL")):
        out[nm] = el("ml2", g, g) + dterm(Fraction(1, 2), Fraction(-1))
    # fermions
    for g, nm in enumerate(("Fd", "Fs", "Fb")):
        out[nm] = vd * el("Yd", g, g) * INV_SQRT2
    for g, nm in enumerate(("Fu", "Fc", "Ft")):
        out[nm] = vu * el("Yu", g, g) * INV_SQRT2
    for g, nm in enumerate(("Fe", "Fm", "Ftau")):
        out[nm] = vd * el("Ye", g, g) * INV_SQRT2
    for nm in ("Fve", "Fvm", "Fvt", "VG", "VP"):
        out[nm] = Poly()
    out["Glu"] = M3
    # gauge bosons
    gZ2 = g22 + gY2
    out["VWm"] = (g22 * (vd * vd + vu * vu)).scale(Fraction(1, 4))
    out["VZ"] = (gZ2 * (vd * vd + vu * vu)).scale(Fraction(1, 4))
    # neutralino (Bino, Wino, Hd, Hu) and chargino
    gY = g1 * Poly.atom(("sqrtQ", Fraction(15))).scale(Fraction(1, 5))      # sqrt(3/5) g1
    Z = Poly()
    out["Chi"] = [[M1, Z, -(gY * vd).scale(Fraction(1, 2)), (gY * vu).scale(Fraction(1, 2))],
                  [Z, M2, (g2 * vd).scale(Fraction(1, 2)), -(g2 * vu).scale(Fraction(1, 2))],
                  [-(gY * vd).scale(Fraction(1, 2)), (g2 * vd).scale(Fraction(1, 2)), Z, -Mu],
                  [(gY * vu).scale(Fraction(1, 2)), -(g2 * vu).scale(Fraction(1, 2)), -Mu, Z]]
    out["Cha"] = [[M2, g2 * vu * INV_SQRT2], [g2 * vd * INV_SQRT2, Mu]]

    # Higgs sector: Hessian of the tree-level potential
    fnames = ("phid", "phiu", "sigd", "sigu", "xd", "xu", "yd", "yu")
    phid, phiu, sigd, sigu, xd, xu, yd, yu = (A(("fluct", n)) for n in fnames)
    Hd0 = C((vd + phid) * INV_SQRT2, sigd * INV_SQRT2)
    Hu0 = C((vu + phiu) * INV_SQRT2, sigu * INV_SQRT2)
    Hdm = C(xd * INV_SQRT2, -(yd * INV_SQRT2))       # basis field Hd^-* = (xd + i yd)/sqrt2
    Hup = C(xu * INV_SQRT2, yu * INV_SQRT2)
    nd = Hd0.abs2() + Hdm.abs2()
    nu = Hu0.abs2() + Hup.abs2()
    mix = Hup * Hdm - Hu0 * Hd0                       # Hu.Hd (SU(2) invariant product)
    V = (Mu * Mu + mHd2) * nd + (Mu * Mu + mHu2) * nu + (BMu * mix.re).scale(2) \
        + (gZ2 * (nd - nu) * (nd - nu)).scale(Fraction(1, 8)) \
        + (g22 * (Hd0.conj() * Hup + Hdm.conj() * Hu0).abs2()).scale(Fraction(1, 2))
    fields = [("fluct", n) for n in fnames]
    H = hessian(V, fields)
    out["hh"] = [[H[0][0], H[0][1]], [H[1][0], H[1][1]]]
    # Feynman-gauge Goldstone terms xi MZ^2, xi MW^2 on the Goldstone directions
    gfA = [[(gZ2 * vd * vd).scale(Fraction(1, 4)), -(gZ2 * vd * vu).scale(Fraction(1, 4))],
           [-(gZ2 * vd * vu).scale(Fraction(1, 4)), (gZ2 * vu * vu).scale(Fraction(1, 4))]]
    gfP = [[(g22 * vd * vd).scale(Fraction(1, 4)), -(g22 * vd * vu).scale(Fraction(1, 4))],
           [-(g22 * vd * vu).scale(Fraction(1, 4)), (g22 * vu * vu).scale(Fraction(1, 4))]]
    out["Ah"] = [[H[2][2] + gfA[0][0], H[2][3] + gfA[0][1]], [H[3][2] + gfA[1][0], H[3][3] + gfA[1][1]]]
    out["Hpm"] = [[H[4][4] + gfP[0][0], H[4][5] + gfP[0][1]], [H[5][4] + gfP[1][0], H[5][5] + gfP[1][1]]]
    tad = gradient(V, fields)
    out["_tadpoles"] = [tad[0], tad[1]]
    return out


def code_value(F, E, name):
    f = F.fn(CLS + "::" + name)
    v, fr = E.function_value(f)
    return f, v


def as_entries(v):
    if v[0] == "mat":
        return {(i, k): t for i, k, t in v[3]}, (v[1], v[2])
    return {(0, 0): v}, (1, 1)


def equal_rat(code_term, spec_poly):
    r = to_rat(code_term)
    res = r.n - spec_poly * r.d
    for _ in range(6):
        res = _reduce_roots(res)
    return res.is_zero(), res


def run(F, R, tier):
    R.explanation = (
        "(R1) each of the 34 mass-matrix functions is folded into a matrix of exact polynomials in the "
        "Lagrangian parameters and compared, entry by entry, with an independent statement written in the "
        "checker: sfermions from superfield quantum numbers (T3, Y) and the soft/Yukawa/trilinear structure, "
        "the three Higgs sectors as the Hessian of the MSSM scalar potential (plus the Feynman-gauge Goldstone "
        "terms), neutralino/chargino/W/Z/fermions in the standard form; (R2) the three generations of every "
        "sector are the same polynomial up to the generation index; (R3) the tree-level EWSB elimination "
        "solves the tadpole equations identically and the tadpoles are the gradient of the same potential; "
        "(R4) a tachyon is flagged exactly under `m^2 < 0`, before sqrt(|m^2|), in every sector whose mass "
        "enters a_mu, and nowhere else; (R5) the Goldstone reordering runs after all sector calculations; "
        "(R6) the soft Higgs masses are restored (C19-P6).")
    R.assumptions = ["the MSSM conventions of the specification (superfield hypercharges, GUT-normalised g1, "
                     "Feynman gauge) as written in rules_c04.spec_matrices"]
    R.undecided = ["numerical eigen-decomposition: unitarity, ordering, non-negativity, sum rules as numbers"]
    E = Evaluator(F)
    spec = spec_matrices()

    # ---- R1 -----------------------------------------------------------------------
    R.rule("R1", "mass matrix functions == independent specification (polynomial identity per entry)", 60)
    folded = {}
    names = sorted(n for n in spec if not n.startswith("_"))
    code_names = sorted(f["name"].split("get_mass_matrix_")[-1] for f in F.functions.values()
                        if f["name"].startswith(CLS + "::get_mass_matrix_"))
    missing = [n for n in code_names if n not in spec]
    if missing:
        R.fail("R1", "mass matrices without specification", "", "no specification for %s" % missing, key="R1|unspecified")
    for nm in names:
        try:
            f, v = code_value(F, E, "get_mass_matrix_" + nm)
        except AnalysisBroken as ex:
            R.broken(str(ex))
        ents, dims = as_entries(v)
        folded[nm] = (f, ents, dims)
        sp = spec[nm]
        if not isinstance(sp, list):
            sp = [[sp]]
        if dims != (len(sp), len(sp[0])):
            R.fail("R1", nm, F.loc(f), "dimension %s, specification %dx%d" % (dims, len(sp), len(sp[0])), key="R1|%s|dim" % nm)
            continue
        for i in range(dims[0]):
            for k in range(dims[1]):
                t = ents.get((i, k))
                inst = "%s(%d,%d)" % (nm, i, k)
                if t is None or t[0] == "unknown":
                    R.fail("R1", inst, F.loc(f), "entry is not assigned", key="R1|%s|%d%d|unset" % (nm, i, k))
                    continue
                try:
                    ok, res = equal_rat(t, sp[i][k])
                except NotPolynomial as ex:
                    R.soft_broken("R1: %s: %s" % (inst, ex))
                    continue
                R.check("R1", ok, inst, F.loc(f), "differs from the Lagrangian: code - spec = %s" % (repr(res)[:200]),
                        key="R1|%s|%d%d" % (nm, i, k))

    # ---- R2 generation siblings -------------------------------------------------------
    R.rule("R2", "generation siblings are the same polynomial up to the generation index", 14)
    fams = [("Sd", "Ss", "Sb"), ("Su", "Sc", "St"), ("Se", "Sm", "Stau"), ("SveL", "SvmL", "SvtL"),
            ("Fd", "Fs", "Fb"), ("Fu", "Fc", "Ft"), ("Fe", "Fm", "Ftau")]

    def regen(t, g_from, g_to):
        if not isinstance(t, tuple):
            return t
        if t and t[0] == "elem" and len(t) == 4 and t[2] == ("num", Fraction(g_from)) and t[3] == ("num", Fraction(g_from)):
            return ("elem", t[1], ("num", Fraction(g_to)), ("num", Fraction(g_to)))
        return tuple(regen(x, g_from, g_to) if isinstance(x, tuple) else x for x in t)
    for fam in fams:
        base = folded.get(fam[0])
        for g, nm in enumerate(fam[1:], 1):
            cur = folded.get(nm)
            if base is None or cur is None:
                continue
            ok = True
            bad = None
            for ik, t in base[1].items():
                try:
                    a = to_rat(regen(t, 0, g))
                    b = to_rat(cur[1].get(ik, ("num", Fraction(0))))
                    if not a.equals(b):
                        ok, bad = False, ik
                except NotPolynomial:
                    ok, bad = False, ik
            R.check("R2", ok, "%s == %s with generation 0 -> %d" % (nm, fam[0], g), F.loc(cur[0]),
                    "entry %s differs from its generation-%d sibling %s" % (bad, 0, fam[0]), key="R2|%s" % nm)

    # ---- R3 EWSB ----------------------------------------------------------------------------
    R.rule("R3", "tadpole equations == gradient of the potential; the EWSB elimination solves them identically", 4)
    for i, nm in enumerate(("get_ewsb_eq_hh_1", "get_ewsb_eq_hh_2")):
        f, v = code_value(F, E, nm)
        try:
            ok, res = equal_rat(v, spec["_tadpoles"][i])
        except NotPolynomial as ex:
            R.broken("R3: %s" % ex)
        R.check("R3", ok, "%s == dV/dphi_%s" % (nm, "du"[i]), F.loc(f), "tadpole differs from the potential's gradient: %r" % res,
                key="R3|%s" % nm)
    f = F.fn(CLS + "::solve_ewsb_tree_level_via_soft_higgs_masses")
    fr = Frame(E, f, {}, TH, 0)
    fr.run()
    sol = {}
    for k_, v_ in fr.heap.items():
        if k_ in ("mHd2", "mHu2"):
            t = v_
            # the finite-check branch restores the old value: take the computed alternative
            while isinstance(t, tuple) and t[0] == "ite":
                cand = [x for x in (t[2], t[3]) if not (x[0] == "field" and x[2] in ("mHd2", "mHu2"))]
                t = cand[0] if cand else t[2]
            sol[k_] = t
    if set(sol) != {"mHd2", "mHu2"}:
        R.broken("R3: solve_ewsb does not assign mHd2 and mHu2 (found %s)" % sorted(sol))
    try:
        sub = {("field", TH, "mHd2"): None, ("field", TH, "mHu2"): None}
        rs = {k_: to_rat(v_) for k_, v_ in sol.items()}
        for i in range(2):
            tp = spec["_tadpoles"][i]
            # tadpole is linear in mHd2 / mHu2: substitute the rational solution
            aH = Poly.atom(("field", TH, "mHd2"))
            aU = Poly.atom(("field", TH, "mHu2"))
            cd = tp.coeff_of(("field", TH, "mHd2"), 1)
            rest = tp.coeff_of(("field", TH, "mHd2"), 0)
            cu = rest.coeff_of(("field", TH, "mHu2"), 1)
            rest = rest.coeff_of(("field", TH, "mHu2"), 0)
            tot = Rat(cd) * rs["mHd2"] + Rat(cu) * rs["mHu2"] + Rat(rest)
            R.check("R3", tot.is_zero(), "tadpole %d vanishes for the EWSB solution" % (i + 1), F.loc(f),
                    "substituting the solution leaves %r" % tot.n, key="R3|solution|%d" % i)
    except NotPolynomial as ex:
        R.broken("R3: %s" % ex)

    # ---- R4 tachyon flags ----------------------------------------------------------------------
    R.rule("R4", "tachyon flag <=> squared mass < 0, tested before sqrt(|m^2|), in every sector read by the a_mu code", 14)
    _check_tachyons(F, R)

    # ---- R7 / R8 freshness of the spectrum -------------------------------------------------------------
    R.guard(_fresh_all_sectors, F, R)
    R.guard(_unconditional_sectors, F, R)

    # ---- R5 order ---------------------------------------------------------------------------------
    R.rule("R5", "Goldstone reordering (index 0, by MZ / MW) runs after all sector calculations and permutes masses "
                 "and mixing-matrix rows consistently", 4)
    f = F.fn(CLS + "::calculate_DRbar_masses")
    closure_calls = []
    for s_ in f["body"].get("c", []):
        for x in walk(s_):
            if is_call(x) and (x.get("fn") or "").startswith(CLS + "::"):
                closure_calls.append((x["fn"].split("::")[-1], x))
    # flatten one level: calculate_boson/fermion masses wrappers
    def expand(fn_name, depth=0):
        g = F.fn(CLS + "::" + fn_name)
        out = []
        for s_ in g["body"].get("c", []):
            for x in walk(s_):
                if is_call(x) and (x.get("fn") or "").startswith(CLS + "::"):
                    short = x["fn"].split("::")[-1]
                    if re.match(r"^calculate_M\w+$", short) or short.startswith("reorder"):
                        out.append(short)
                    elif short.startswith("calculate_") and depth < 2:
                        out.extend(expand(short, depth + 1))
        return out
    seq = expand("calculate_DRbar_masses")
    ro = [i for i, s_ in enumerate(seq) if s_.startswith("reorder")]
    calc = [i for i, s_ in enumerate(seq) if re.match(r"^calculate_M", s_)]
    R.check("R5", len(ro) == 1 and ro[0] > max(calc), "reorder_DRbar_masses after %d calculate_M* calls" % len(calc), F.loc(f),
            "reordering is not the last step: %s" % seq, key="R5|order")
    g = F.fn(CLS + "::reorder_DRbar_masses")
    Rr = Renderer(g)
    calls = sorted(Rr.r(x) for x in walk(g["body"]) if is_call(x) and (x.get("fn") or "").endswith("move_goldstone_to"))
    R.check("R5", calls == ["move_goldstone_to(0, MVWm, MHpm, ZP)", "move_goldstone_to(0, MVZ, MAh, ZA)"],
            "Goldstones to index 0: %s" % calls, F.loc(g), "Goldstone reordering arguments changed", key="R5|goldstone")
    # move_goldstone_to permutes masses and the *rows* of the mixing matrix with the same index pair
    g = F.fns("gm2calc::move_goldstone_to")[0]
    Rr = Renderer(g, resolve_locals=False)
    swaps = sorted(Rr.r(x) for x in walk(g["body"]) if is_call(x) and (x.get("fn") or "").endswith("::swap"))
    R.check("R5", swaps == ["v.row(new_pos).swap(v.row(pos))", "z.row(new_pos).swap(z.row(pos))"],
            "move_goldstone_to swaps mass entries and mixing-matrix rows together: %s" % swaps, F.loc(g),
            "masses and mixing matrix are not permuted consistently (mass eigenstates are the rows of Z)", key="R5|swap")
    # closest_index picks the minimum |v - mass|
    g = F.fns("gm2calc::closest_index")[0]
    Rr = Renderer(g)
    txt = " ".join(Rr.r(x) for x in walk(g["body"]) if x.get("k") == "ReturnStmt" or is_call(x))
    R.check("R5", "minCoeff" in txt and "abs" in txt, "closest_index = argmin |v - mass|", F.loc(g),
            "closest_index no longer selects the entry closest to the gauge-boson mass", key="R5|closest")


def _check_tachyons(F, R, rid="R4", consumed=True):
    sites = []
    for k, f in sorted(F.functions.items()):
        for n in walk(f["body"]):
            if is_call(n) and (n.get("fn") or "").endswith("::flag_tachyon"):
                sites.append((f, n))
    if len(sites) < 8:
        R.broken(rid + ": only %d flag_tachyon sites found" % len(sites))
    flagged = set()
    for f, n in sites:
        S = Struct(f)
        Rr = Renderer(f, resolve_locals=False)
        gs = [(Rr.r(c), pol) for c, pol in [g for g in S.guards(n) if g[0] != "switch"]]
        name = call_args(n)
        label = None
        for x in walk(n):
            if x.get("k") == "StringLiteral":
                label = x.get("v")
        inst = "%s: flag_tachyon(%s) if %s" % (f["name"].split("::")[-1], label, gs)
        # `X.minCoeff() < 0`, `X < 0` (scalar) or `(X < 0).any()`: the minimum over ALL squared masses of the sector
        m_ = re.match(r"^\((\w+)(\.minCoeff\(\))? < 0\)$", gs[0][0]) or re.match(r"^\(?\((\w+) < 0\)\.any\(\)\)?$", gs[0][0]) \
            if len(gs) == 1 else None
        ok = len(gs) == 1 and gs[0][1] is True and m_ is not None
        var = m_.group(1) if ok else None
        # the tested variable is the squared mass that is subsequently replaced by sqrt(|.|)
        if ok:
            body = f["body"].get("c", [])
            ifs = S.enclosing(n, ("IfStmt",))
            idx = [i for i, s_ in enumerate(body) if s_ is ifs]
            later = " ".join(Rr.r(s_) for s_ in body[idx[0] + 1:]) if idx else ""
            ok = idx and re.search(r"sqrt\((%s\.cwiseAbs\(\)|abs\(%s\))\)" % (var, var), later) is not None
            earlier = " ".join(Rr.r(s_) for s_ in body[:idx[0]]) if idx else ""
            if ok and re.search(r"sqrt\(", earlier):
                ok = False
        R.check(rid, bool(ok), inst, F.loc(f, n),
                "tachyon flag is not `m^2 < 0` tested on the squared mass before sqrt(|m^2|)", key=rid + "|%s|%s" % (f["name"].split("::")[-1], label))
        flagged.add(f["name"])
    if not consumed:
        return
    # consumed => flagged: sectors of the MSSM whose masses are read by the a_mu code
    roots = [k for k, f in F.functions.items() if f["file"] in (
        "src/MSSMNoFV/gm2_1loop.cpp", "src/MSSMNoFV/gm2_2loop.cpp", "src/MSSMNoFV/gm2_uncertainty.cpp")]
    clo = F.closure(roots)
    read = set()
    for k in clo:
        for c in F.calls[k]:
            m = re.match(r"^gm2calc::MSSMNoFV_onshell_mass_eigenstates::get_(M\w+)$", c.get("fn") or "")
            if m:
                read.add(m.group(1))
    R.analysed = getattr(R, "analysed", {})
    R.analysed["mssm_masses_read_by_amu_code"] = sorted(read)
    for mname in sorted(read):
        calc = [f for f in F.functions.values() if f["name"] == CLS + "::calculate_" + mname]
        if not calc:
            continue
        f = calc[0]
        Rr = Renderer(f, resolve_locals=False)
        txt = " ".join(Rr.r(s_) for s_ in f["body"].get("c", []))
        scalar_sq = re.search(r"sqrt\((\w+\.cwiseAbs\(\)|abs\(\w+\))\)", txt) is not None
        if not scalar_sq:
            continue     # fermion / gauge boson: no squared-mass sign to report
        if mname in ("MAh", "MHpm"):
            pass
        R.check("R4", f["name"] in flagged, "%s is consumed by a_mu and flags tachyons" % mname, F.loc(f),
                "sqrt(|m^2|) of a sector that enters a_mu without a tachyon flag: a negative m^2 is silently used",
                key="R4|consumed|%s" % mname)


# ---------------------------------------------------------------------------
def _fresh_all_sectors(F, R):
    """typestate 'fresh': after a public operation has written a Lagrangian parameter that enters the mass matrix of a sector,
    that sector is recomputed before the operation returns -- for every sector with a get_mass_matrix_X / calculate_MX pair"""
    from .rules_c16 import FieldFlow
    FW = FieldFlow(F)
    cls = CLS + "::"
    sectors = []
    for name in sorted(F.by_name):
        m = re.match(re.escape(cls) + r"get_mass_matrix_(\w+)$", name)
        if m and F.by_name.get(cls + "calculate_M" + m.group(1)):
            sectors.append(m.group(1))
    R.rule("R7", "every operation of the model that rewrites parameters entering a sector's mass matrix (Yukawa conversions, "
                 "on-shell conversion, spectrum calculation) recomputes that sector afterwards, for all %d sectors: no reported "
                 "mass/mixing pair is stale with respect to the Lagrangian parameters" % len(sectors), 30)
    if len(sectors) < 25:
        R.broken("R7: only %d mass-matrix/calculation pairs found" % len(sectors))
        return
    inputs, calc_mg = {}, {}
    for sct in sectors:
        g = F.fn(cls + "get_mass_matrix_" + sct)
        inputs[sct] = set(FW.reads(g["body"]))
        calc_mg[sct] = F.fn(cls + "calculate_M" + sct)["mg"]
    ops = ["convert_to_non_tan_beta_resummed", "calculate_masses", "convert_to_onshell"]
    for op in ops:
        for f in F.by_name.get("gm2calc::MSSMNoFV_onshell::" + op, []):
            stmts = f["body"].get("c", [])
            clos = [FW.stmt_closure(st) for st in stmts]
            wr = [FW.writes(st) for st in stmts]
            for sct in sectors:
                last_w, who = -1, None
                for i, st in enumerate(stmts):
                    w = wr[i] & inputs[sct]
                    if w:
                        last_w, who = i, sorted(x.split("::")[-1] for x in w)
                if last_w < 0:
                    continue
                recalced = any(calc_mg[sct] in clos[j] or
                               any(n.get("mg") == calc_mg[sct] for n in walk(stmts[j]) if is_call(n))
                               for j in range(last_w, len(stmts)))
                sig = "%s(%s)" % (op, ", ".join(p["name"] or "" for p in f["params"]))
                R.check("R7", recalced, "%s: %s recomputed after the last write of %s" % (sig, sct, ", ".join(who)[:60]),
                        F.loc(f, stmts[last_w]),
                        "%s writes %s, which enter(s) the %s mass matrix, and returns without calling calculate_M%s: the reported "
                        "masses / mixing matrix of that sector no longer belong to the model's parameters"
                        % (op, ", ".join(who)[:80], sct, sct), key="R7|%s|%s|%d" % (op, sct, len(f["params"])))


def _unconditional_sectors(F, R):
    """every sector calculation of calculate_DRbar_masses (and of the wrappers it calls) runs on every path"""
    from .structure import Struct
    R.rule("R8", "calculate_DRbar_masses computes every sector unconditionally: no calculate_M* call is guarded by a condition or "
                 "preceded by an early exit (a spectrum calculation that returns early leaves stale or zero masses behind)", 20)
    seen = set()

    def visit(fn_name, depth=0):
        for g in F.by_name.get(CLS + "::" + fn_name, []):
            S = Struct(g)
            for x in walk(g["body"]):
                if not is_call(x) or not (x.get("fn") or "").startswith(CLS + "::"):
                    continue
                short = x["fn"].split("::")[-1]
                if re.match(r"^calculate_M\w+$", short) or short.startswith("reorder"):
                    gs = S.guards(x)
                    R.check("R8", not gs, "%s: %s runs on every path" % (fn_name, short), F.loc(g, x),
                            "%s is executed only under a condition (%d guard(s), e.g. an early return after the EWSB solution): "
                            "for other inputs the sector keeps its previous or zero-initialised masses" % (short, len(gs)),
                            key="R8|%s|%s" % (fn_name, short))
                elif short.startswith("calculate_") and depth < 2 and short not in seen:
                    seen.add(short)
                    gs = S.guards(x)
                    R.check("R8", not gs, "%s: %s runs on every path" % (fn_name, short), F.loc(g, x),
                            "%s is executed only under a condition" % short, key="R8|%s|%s" % (fn_name, short))
                    visit(short, depth + 1)
    visit("calculate_DRbar_masses")
