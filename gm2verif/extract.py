"""E0/E1 driver: translation-unit list, flags, parallel plugin runs, cache.

Nothing from /repo is executed: every TU is only parsed with
`clang++ -fsyntax-only -fplugin=gm2facts.so`.
"""
import hashlib
import json
import os
import re
import subprocess
import sys
import glob
from concurrent.futures import ThreadPoolExecutor

VERIF = os.path.dirname(os.path.dirname(os.path.abspath(__file__)))
REPO = os.environ.get("GM2_REPO", "/repo")
PLUGIN = os.path.join(VERIF, "build", "gm2facts.so")
CACHE = os.environ.get("GM2_CACHE") or os.path.join(VERIF, ".cache")

# source files that exist under src/ but are deliberately not part of the
# library/program build (reason per entry)
NOT_BUILT = {
}


class AnalysisBroken(Exception):
    """exit status 2: the analysis itself cannot be carried out"""


def flags(repo=None):
    repo = repo or REPO
    return ["-I%s/include" % repo, "-I%s/src" % repo, "-isystem", "/usr/include/eigen3",
            "-std=gnu++14", "-DNDEBUG", "-w"]


def tu_list(repo=None):
    """library + program translation units, parsed from src/CMakeLists.txt"""
    repo = repo or REPO
    cm = open(os.path.join(repo, "src", "CMakeLists.txt")).read()
    m = re.search(r"add_library\(\s*gm2calc\b(.*?)\)", cm, re.S)
    if not m:
        raise AnalysisBroken("src/CMakeLists.txt: add_library(gm2calc ...) not found")
    lib = [w for w in m.group(1).split() if w.endswith(".cpp")]
    m = re.search(r"add_executable\(\s*gm2calc\.x\s+(.*?)\)", cm, re.S)
    if not m:
        raise AnalysisBroken("src/CMakeLists.txt: add_executable(gm2calc.x ...) not found")
    prog = [w for w in m.group(1).split() if w.endswith(".cpp")]
    listed = set(lib + prog)
    on_disk = set(os.path.relpath(p, os.path.join(repo, "src"))
                  for p in glob.glob(os.path.join(repo, "src", "**", "*.cpp"), recursive=True))
    extra = on_disk - listed - set(NOT_BUILT)
    if extra:
        raise AnalysisBroken("source files neither built nor allow-listed: %s" % sorted(extra))
    missing = listed - on_disk
    if missing:
        raise AnalysisBroken("listed source files missing: %s" % sorted(missing))
    return ["src/" + f for f in lib], ["src/" + f for f in prog]


def tree_hash(repo=None):
    repo = repo or REPO
    h = hashlib.sha256()
    paths = []
    for sub in ("src", "include", "math"):
        for root, _dirs, files in os.walk(os.path.join(repo, sub)):
            for f in files:
                paths.append(os.path.join(root, f))
    paths.append(os.path.join(repo, "README.md"))
    for p in sorted(paths):
        h.update(p.encode())
        try:
            with open(p, "rb") as fh:
                h.update(fh.read())
        except OSError:
            pass
    with open(PLUGIN, "rb") as fh:
        h.update(fh.read())
    return h.hexdigest()[:24]


def _run_one(args):
    repo, tu, out, extra = args
    cmd = ["clang++", "-fsyntax-only", "-fplugin=" + PLUGIN,
           "-Xclang", "-plugin-arg-gm2facts", "-Xclang", "root=" + repo,
           "-Xclang", "-plugin-arg-gm2facts", "-Xclang", "out=" + out] + flags(repo) + extra + \
          [os.path.join(repo, tu)]
    r = subprocess.run(cmd, capture_output=True, text=True)
    return tu, r.returncode, r.stderr


def extract(repo=None, tus=None, outdir=None, extra_flags=(), jobs=16):
    """run the plugin over the TUs; returns {tu: path-to-json}"""
    repo = repo or REPO
    if not os.path.exists(PLUGIN):
        raise AnalysisBroken("plugin not built: run ./setup.sh")
    if tus is None:
        lib, prog = tu_list(repo)
        tus = lib + prog
    if outdir is None:
        outdir = os.path.join(CACHE, tree_hash(repo))
    os.makedirs(outdir, exist_ok=True)
    todo = []
    result = {}
    # scratch copies that differ from a base tree in a few .cpp files only re-parse those
    seed = os.environ.get("GM2_CACHE_SEED")
    changed = [c for c in os.environ.get("GM2_CHANGED", "").split(":") if c]
    reuse = bool(seed) and bool(changed) and all(c.endswith(".cpp") for c in changed)
    for tu in tus:
        out = os.path.join(outdir, tu.replace("/", "__") + ".json")
        result[tu] = out
        if reuse and tu not in changed and not os.path.exists(out + ".ok"):
            src = os.path.join(seed, tu.replace("/", "__") + ".json")
            if os.path.exists(src + ".ok"):
                import shutil
                shutil.copy(src, out)
                open(out + ".ok", "w").close()
        if not (os.path.exists(out) and os.path.getsize(out) > 0 and os.path.exists(out + ".ok")):
            todo.append((repo, tu, out, list(extra_flags)))
    if todo:
        with ThreadPoolExecutor(max_workers=jobs) as ex:
            for tu, rc, err in ex.map(_run_one, todo):
                if rc != 0:
                    raise AnalysisBroken("clang failed on %s:\n%s" % (tu, err[-3000:]))
                open(result[tu] + ".ok", "w").close()
        if not os.environ.get("GM2_CACHE"):
            _prune_cache(outdir)
    return result


def _prune_cache(keep):
    """keep only the three most recent cache generations"""
    try:
        dirs = [os.path.join(CACHE, d) for d in os.listdir(CACHE)]
        dirs = [d for d in dirs if os.path.isdir(d) and d != keep]
        dirs.sort(key=os.path.getmtime, reverse=True)
        import shutil
        for d in dirs[2:]:
            shutil.rmtree(d, ignore_errors=True)
    except OSError:
        pass


if __name__ == "__main__":
    import time
    t = time.time()
    r = extract()
    print(len(r), "TUs", "%.1fs" % (time.time() - t))
    tot = sum(os.path.getsize(p) for p in r.values())
    print("total json bytes", tot)
