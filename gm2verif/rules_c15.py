"""C15 -- every reported number is consistent with every other report of the same quantity."""
import re
from fractions import Fraction

from .facts import walk, kids, strip_all, call_args, call_object, is_call, in_macro
from .terms import Evaluator, Frame, show, subst_fold, subterms, num, MatVal
from .poly import to_rat, Rat, Poly, NotPolynomial
from . import readme
from .extract import AnalysisBroken

PID = "C15"
LEVEL = "other"

AN = "(anonymous namespace)::"

# documented sums of parts (D3): function -> list of opaque part names; `same` = all parts take the same argument
TOTALS = [
    ("gm2calc::calculate_amu_1loop", "gm2calc::MSSMNoFV_onshell", ["amu1LChi0", "amu1LChipm"], None),
    ("gm2calc::calculate_amu_1loop_non_tan_beta_resummed", "gm2calc::MSSMNoFV_onshell", ["amu1LChi0", "amu1LChipm"],
     "convert_to_non_tan_beta_resummed"),
    ("gm2calc::calculate_amu_2loop", "gm2calc::MSSMNoFV_onshell",
     ["amu2LFSfapprox", "amu2LChipmPhotonic", "amu2LChi0Photonic", "amu2LaSferm", "amu2LaCha"], None),
    ("gm2calc::calculate_amu_2loop_non_tan_beta_resummed", "gm2calc::MSSMNoFV_onshell",
     ["amu2LFSfapprox_non_tan_beta_resummed", "amu2LChipmPhotonic", "amu2LChi0Photonic", "amu2LaSferm", "amu2LaCha"],
     "convert_to_non_tan_beta_resummed"),
    ("gm2calc::calculate_amu_2loop", "gm2calc::THDM", ["calculate_amu_2loop_bosonic", "calculate_amu_2loop_fermionic"], None),
    ("gm2calc::thdm::amu2L_B", None, ["amu2L_B_EWadd", "amu2L_B_nonYuk", "amu2L_B_Yuk"], None),
    ("gm2calc::thdm::amu2L_F", None, ["amu2L_F_neutral", "amu2L_F_charged"], None),
    ("gm2calc::amu1Lapprox_non_tan_beta_resummed", "gm2calc::MSSMNoFV_onshell",
     ["amu1LWHnu", "amu1LWHmuL", "amu1LBHmuL", "amu1LBHmuR", "amu1LBmuLmuR"], None),
    ("gm2calc::amu2LFSfapprox_non_tan_beta_resummed", "gm2calc::MSSMNoFV_onshell",
     ["amu2LWHnu", "amu2LWHmuL", "amu2LBHmuL", "amu2LBHmuR", "amu2LBmuLmuR"], None),
]


def _pick(F, name, model):
    fs = F.fns(name)
    if model:
        fs = [f for f in fs if model in (f["params"][0]["t"] or "")]
    if len(fs) != 1:
        raise AnalysisBroken("anchor %s(%s): %d definitions" % (name, model, len(fs)))
    return fs[0]


def _addends(t):
    if t[0] == "+":
        return _addends(t[1]) + _addends(t[2])
    return [t]


def run(F, R, tier):
    R.explanation = (
        "Consistency of the reported numbers decided on the program text: (D1) the two dispatch functions are "
        "folded into terms and evaluated over their complete finite domain (resummation x loop order) against "
        "the documented selection of library totals; (D2) the value the minimal and SLHA writers emit is the "
        "result of those dispatchers on the same (model, options), in the block/entry the README documents for "
        "each format, and the uncertainty entry is written exactly under options.calculate_uncertainty; (D3) "
        "every library total is the documented sum of its parts evaluated on one and the same model object; "
        "(D4) in both detailed writers each 'sum' equals the sum of the printed parts of its group and each "
        "percentage equals 100 * own component / the reference named in the following text (polynomial "
        "identity over opaque a_mu atoms); (D5) defaults agree with the README table.")
    R.assumptions = ["README.md is the statement of the documented behaviour (tables parsed, not hard-coded)"]
    R.undecided = ["printed digits / rounding", "echo of the input blocks (SLHAea)"]

    # ---------------- D3 totals ---------------------------------------------------
    R.rule("D3", "each library total is the documented sum of parts, all evaluated on the same model object", len(TOTALS))
    keep = lambda n, g: False
    for name, model, parts, conv in TOTALS:
        f = _pick(F, name, model)
        E = Evaluator(F, inline=keep)
        v, fr = E.function_value(f)
        inst = "%s(%s)" % (name.split("::")[-1], (model or "").split("::")[-1])
        adds = _addends(v)
        got = []
        args = set()
        ok = True
        why = ""
        for a in adds:
            if a[0] != "call" or len(a[2]) < 1:
                ok, why = False, "addend %s is not a call of a part on the model" % show(a)[:80]
                break
            got.append(str(a[1]).split("::")[-1])
            args.add(a[2][0])
        if ok and sorted(got) != sorted(parts):
            ok, why = False, "sum of [%s], documented: [%s]" % (", ".join(got), ", ".join(parts))
        if ok and len(args) != 1:
            ok, why = False, "parts are evaluated on different objects: %s" % "; ".join(show(a)[:60] for a in args)
        if ok:
            arg = list(args)[0]
            if conv:
                good = arg[0] == "obj" and arg[2] == ("sym", f["params"][0]["name"]) and \
                    [m[0] for m in arg[3]] == [conv]
                if not good:
                    ok, why = False, "parts must be evaluated on a copy of the model after %s(): got %s" % (conv, show(arg)[:100])
            else:
                if arg != ("sym", f["params"][0]["name"]):
                    ok, why = False, "parts are not evaluated on the argument itself: %s" % show(arg)[:100]
        R.check("D3", ok, inst + " = " + " + ".join(got), F.loc(f), why, key="D3|" + inst)
    # resummed approximations = non-resummed * tan_beta_cor
    for nm in ("gm2calc::amu1Lapprox", "gm2calc::amu2LFSfapprox"):
        f = _pick(F, nm, "gm2calc::MSSMNoFV_onshell")
        E = Evaluator(F, inline=keep)
        v, fr = E.function_value(f)
        s = show(v)
        pn0 = f["params"][0]["name"]
        want = "(%s_non_tan_beta_resummed(%s) * tan_beta_cor(%s))" % (nm.split("::")[-1], pn0, pn0)
        R.check("D3", s == want, nm.split("::")[-1] + " = " + s[:100], F.loc(f), "expected " + want, key="D3|" + nm)

    # ---------------- D1 dispatch ------------------------------------------------------
    R.rule("D1", "dispatch on (resummation, loop order) selects exactly the documented library totals "
                 "(complete finite domain evaluated on the folded term)", 6 + 3 + 6)
    lib_only = lambda n, g: not n.startswith("gm2calc::")
    for f in F.fns(AN + "calculate_amu"):
        model = "MSSM" if "MSSMNoFV" in f["params"][0]["t"] else "THDM"
        E = Evaluator(F, inline=lib_only)
        v, fr = E.function_value(f)
        opt = ("sym", f["params"][1]["name"])
        for tanb in ((0, 1) if model == "MSSM" else (None,)):
            for lo in (0, 1, 2):
                mp = {("field", opt, "loop_order"): num(lo)}
                if tanb is not None:
                    mp[("field", opt, "tanb_resummation")] = num(tanb)
                r = subst_fold(v, mp)
                got = sorted(show(a) for a in _addends(r) if a != ("num", Fraction(0)))
                suffix = "" if (model == "THDM" or tanb) else "_non_tan_beta_resummed"
                want = sorted(["calculate_amu_%dloop%s(%s)" % (k, suffix, f["params"][0]["name"]) for k in range(1, lo + 1)])
                inst = "calculate_amu<%s>(resum=%s, order=%d) = %s" % (model, tanb, lo, " + ".join(got) or "0")
                R.check("D1", got == want, inst, F.loc(f), "documented: %s" % (" + ".join(want) or "0"),
                        key="D1|%s|%s|%d" % (model, tanb, lo))
    for f in F.fns(AN + "calculate_uncertainty"):
        model = "MSSM" if "MSSMNoFV" in f["params"][0]["t"] else "THDM"
        E = Evaluator(F, inline=lib_only)
        v, fr = E.function_value(f)
        opt = ("sym", f["params"][1]["name"])
        for lo in (0, 1, 2):
            r = subst_fold(v, {("field", opt, "loop_order"): num(lo)})
            want = "calculate_uncertainty_amu_%dloop(%s)" % (lo, f["params"][0]["name"])
            R.check("D1", show(r) == want, "calculate_uncertainty<%s>(order=%d) = %s" % (model, lo, show(r)[:80]), F.loc(f),
                    "documented: " + want, key="D1|unc|%s|%d" % (model, lo))

    # ---------------- D2 origin and location -----------------------------------------------
    R.rule("D2", "minimal and SLHA writers emit the dispatcher's value for the same (model, options) in the "
                 "documented block/entry per format; the uncertainty is written exactly when requested, where documented", 10)
    fmts = readme.output_formats(F.repo)
    unc_block, unc_key = readme.uncertainty_location(F.repo)
    en = None
    for e in F.enums.values():
        if e["name"].endswith("Config_options::E_output_format"):
            en = {v["name"]: int(v["v"]) for v in e["values"]}
    if en is None:
        R.broken("enum E_output_format not found")
    disp = lambda n, g: not (n.startswith("gm2calc::") or n.startswith(AN + "calculate_"))
    for k, f in sorted(F.functions.items()):
        m = re.match(r"^\(anonymous namespace\)::Minimal_writer<gm2calc::(\w+)>::operator\(\)$", f["name"])
        if m:
            E = Evaluator(F, inline=disp)
            v, fr = E.function_value(f)
            outs = [t for c, t, n in E.effects if "cout" in show(t)]
            want = "(options.calculate_uncertainty ? calculate_uncertainty(model, options) : calculate_amu(model, options))"
            ok = len(outs) == 1 and want in show(outs[0])
            R.check("D2", ok, "Minimal_writer<%s> prints %s" % (m.group(1), want), F.loc(f),
                    "minimal output does not print the dispatcher value: %s" % "; ".join(show(o)[:160] for o in outs),
                    key="D2|minimal|" + m.group(1))
        m = re.match(r"^\(anonymous namespace\)::SLHA_writer<gm2calc::(\w+)>::operator\(\)$", f["name"])
        if m:
            E = Evaluator(F, inline=disp)
            v, fr = E.function_value(f)
            fills = [(c, t) for c, t, n in E.effects if str(t[1]).endswith("fill_block_entry") and len(t[2]) == 5]
            if len(fills) != 2:
                R.broken("D2: SLHA_writer<%s>: expected two numeric fill_block_entry effects, found %d" % (m.group(1), len(fills)))
            opt = ("sym", "options")
            # a_mu entry
            c0, t0 = fills[0]
            R.check("D2", c0 is None, "SLHA_writer<%s>: a_mu entry written unconditionally" % m.group(1), F.loc(f),
                    "a_mu entry is conditional on %s" % show(c0), key="D2|slha|%s|cond" % m.group(1))
            for fmt in (2, 3, 4):
                r = subst_fold(t0, {("field", opt, "output_format"): num(fmt)})
                blk, key, val = _entry(r)
                want = fmts[fmt]
                R.check("D2", (blk, key) == want and val == "calculate_amu(model, options)",
                        "SLHA_writer<%s> format %d -> %s[%s] = %s" % (m.group(1), fmt, blk, key, val), F.loc(f),
                        "README documents %s[%d] = a_mu for format %d" % (want[0], want[1], fmt),
                        key="D2|slha|%s|%d" % (m.group(1), fmt))
            c1, t1 = fills[1]
            blk, key, val = _entry(t1)
            R.check("D2", show(c1) == "options.calculate_uncertainty" and (blk, key) == (unc_block, unc_key) and
                    val == "calculate_uncertainty(model, options)",
                    "SLHA_writer<%s>: [%s] %s[%s] = %s" % (m.group(1), show(c1), blk, key, val), F.loc(f),
                    "README documents the uncertainty in %s[%d], written iff requested" % (unc_block, unc_key),
                    key="D2|slha|%s|unc" % m.group(1))
    # writer selection per format
    for nm in (AN + "make_mssmnofv_setup", AN + "make_thdm_setup"):
        f = F.fn(nm)
        lam = [n for n in walk(f["body"]) if n.get("k") == "LambdaExpr"]
        got = {}
        # the selection may live in a lambda of the setup function or in a file-local function it (or its lambdas) calls
        cand = [F.functions.get(L.get("mg")) for L in lam]
        for src_ in [f] + [c_ for c_ in cand if c_ is not None]:
            for x in walk(src_["body"]):
                if is_call(x) and x.get("mg") in F.functions and F.functions[x["mg"]].get("file") == f["file"] and \
                        F.functions[x["mg"]] not in cand and F.functions[x["mg"]] is not f:
                    cand.append(F.functions[x["mg"]])
        for g in cand:
            if g is None:
                continue
            sws = [n for n in walk(g["body"]) if n.get("k") == "SwitchStmt"]
            if not sws or "output_format" not in show(Frame(Evaluator(F), g, {}, ("this",), 0).e(sws[0]["cond"])):
                continue
            from .structure import switch_arms
            for labels, stmts in switch_arms(sws[0]):
                for st in stmts:
                    for x in walk(st):
                        if x.get("k") in ("CXXTemporaryObjectExpr", "CXXConstructExpr") and "_writer<" in (x.get("t") or ""):
                            for lab in labels:
                                got[lab] = re.search(r"(\w+_writer)<", x["t"]).group(1)
            rest = [x for x in walk(g["body"]) if x.get("k") in ("CXXTemporaryObjectExpr", "CXXConstructExpr")
                    and "_writer<" in (x.get("t") or "")]
            got["other"] = re.search(r"(\w+_writer)<", rest[-1]["t"]).group(1) if rest else None
        want = {str(en["Minimal"]): "Minimal_writer", str(en["Detailed"]): "Detailed_writer", "other": "SLHA_writer"}
        sel = {k: v for k, v in got.items() if k in want}
        R.check("D2", sel == want, "%s selects %s" % (nm.split("::")[-1], sel), F.loc(f),
                "writer selection differs from the documented formats (0 minimal, 1 detailed, 2-4 SLHA)",
                key="D2|select|" + nm)

    # ---------------- D2k keyed store ---------------------------------------------------------
    R.rule("D2k", "fill_block_entry replaces-or-creates the entry by key (data[block][entry] = ...); the only "
                  "append is of a fresh empty block when the block does not exist", 4)
    for f in F.fns("gm2calc::GM2_slha_io::fill_block_entry"):
        # file-local free helpers (a factory of the empty block, a formatting function) are looked through
        E = Evaluator(F, inline=lambda n, g, f=f: g.get("file") == f["file"] and not g.get("method") and not g.get("externC"))
        v, fr = E.function_value(f)
        inst = "fill_block_entry(%s)" % ", ".join((p["t"] or "").replace("const std::basic_string<char> &", "string")
                                                    for p in f["params"])
        asg = [(c, t) for c, t, n in E.effects if t[1] == "assign"]
        ok = len(asg) == 1 and asg[0][0] is None and \
            re.match(r"^operator\[\]\(operator\[\]\(data, block_name\), entry\)$", show(asg[0][1][2][0])) is not None
        R.check("D2k", ok, inst + ": " + (show(asg[0][1][2][0]) if asg else "no keyed store") + " = ...", F.loc(f),
                "the entry is not stored by key (block name, entry): %s" % "; ".join(show(t)[:80] for c, t in asg),
                key="D2k|%s|store" % inst)
        for c, t, n in E.effects:
            nm = str(t[1]).split("::")[-1]
            if nm in ("push_back", "push_front", "insert", "emplace_back"):
                tgt = show(t[2][0]) if t[2] else "?"
                arg = t[2][1] if len(t[2]) > 1 else None
                fresh = arg is not None and arg[0] == "obj" and all(m[0] == "str" for m in arg[3])
                cond_ok = c is not None and re.match(r"^\(find\(data, block_name\) == c?end\(data\)\)$", show(c)) is not None
                R.check("D2k", tgt == "data" and fresh and cond_ok, inst + ": %s(%s) if %s" % (nm, tgt, show(c) if c else "always"),
                        F.loc(f, n), "append of a non-fresh object or outside the block-missing branch: duplicates an "
                        "existing (block, key) entry instead of replacing it", key="D2k|%s|%s" % (inst, nm))

    R.guard(_thdm_config_plumbing, F, R)

    # ---------------- D6 echo of the input -----------------------------------------------------------
    R.rule("D6", "SLHA output echoes the input: the SLHAea container is written only by the readers (clear + read) and by "
                 "fill_block_entry; every reader/filler of a model is a const member; the program hands fill_block_entry only "
                 "the documented output blocks (SPINFO, GM2CalcOutput, LOWEN, SPhenoLowEnergy)", 4)
    from .rules_c16 import FieldFlow
    FW = FieldFlow(F)
    writers, readers_const = set(), []
    for k, f in sorted(F.functions.items()):
        if not f["name"].startswith("gm2calc::GM2_slha_io::"):
            continue
        short = f["name"].split("::")[-1]
        w = FW.direct_writes(f["body"])
        if any(x.endswith("GM2_slha_io::data") for x in w) or \
                any(n.get("k") == "CXXConstCastExpr" and any(y.get("k") == "MemberExpr" and str(y.get("n")).endswith("GM2_slha_io::data")
                                                             for y in walk(n)) for n in walk(f["body"])):
            writers.add(short)
    allowed = {"read_from_file", "read_from_source", "read_from_stream", "fill_block_entry"}
    R.check("D6", writers <= allowed and "fill_block_entry" in writers, "writers of GM2_slha_io::data: %s" % sorted(writers),
            "src/gm2_slha_io.cpp", "the SLHA container is also modified by %s: input blocks may not be echoed unchanged"
            % sorted(writers - allowed), key="D6|writers")
    for k, f in sorted(F.functions.items()):
        if f["name"].startswith("gm2calc::GM2_slha_io::fill") and not f["name"].endswith("fill_block_entry") and \
                f["file"].startswith("src/gm2_slha_io"):
            is_const = bool((f.get("method") or {}).get("const"))
            readers_const.append((f["name"].split("::")[-1], is_const, f))
    nonconst = sorted({n for n, c_, f_ in readers_const if not c_})
    R.check("D6", readers_const and not nonconst, "%d fill* readers are const member functions" % len(readers_const),
            "src/gm2_slha_io.hpp", "non-const readers: %s" % nonconst, key="D6|const")
    blocks = {}
    for k, f in sorted(F.functions.items()):
        if f["file"] != "src/gm2calc.cpp":
            continue
        for n in walk(f["body"]):
            if is_call(n) and str(n.get("fn") or "").endswith("GM2_slha_io::fill_block_entry"):
                a0 = call_args(n)[0]
                lits = [x.get("v") for x in walk(a0) if x.get("k") == "StringLiteral"]
                nm = lits[0] if lits else None
                if nm is None:
                    # block name taken from the format table (std::get<0>(entry)): resolved by D2
                    nm = "<format table>"
                blocks.setdefault(nm, []).append(F.loc(f, n))
    documented = {"SPINFO", "GM2CalcOutput", "LOWEN", "SPhenoLowEnergy", "<format table>"}
    for nm, locs in sorted(blocks.items()):
        R.check("D6", nm in documented, "gm2calc.cpp writes block %s (%d site(s))" % (nm, len(locs)), locs[0],
                "the program writes into block %s, which is not a documented output block: an input block would be altered" % nm,
                key="D6|block|%s" % nm)
    if not blocks:
        R.soft_broken("D6: no fill_block_entry call found in gm2calc.cpp")

    # ---------------- D4 detailed output -------------------------------------------------------
    R.rule("D4", "detailed writers: every printed 'sum' equals the sum of the printed parts of its group and every "
                 "percentage equals 100 * own component / stated reference", 12)
    for k, f in sorted(F.functions.items()):
        m = re.match(r"^\(anonymous namespace\)::Detailed_writer<gm2calc::(\w+)>::operator\(\)$", f["name"])
        if m:
            _check_detailed(F, R, f, m.group(1))

    # ---------------- D5 defaults ----------------------------------------------------------------
    R.rule("D5", "default configuration equals the README table", 8)
    tab = readme.config_table(F.repo)
    rec = None
    for t, r in F.records.items():
        if r["name"] == "gm2calc::Config_options":
            rec = r
    if rec is None:
        R.broken("Config_options record not found")
    fr0 = Frame(Evaluator(F), {"file": rec["file"], "params": [], "body": {"k": "CompoundStmt"}}, {}, ("this",), 0)
    defaults = {fl["name"]: show(fr0.e(fl["init"])) if "init" in fl else None for fl in rec["fields"]}
    field_of = {1: "loop_order", 2: "tanb_resummation", 3: "force_output", 4: "verbose_output",
                5: "calculate_uncertainty", 6: "running_couplings"}
    for entry, fld in field_of.items():
        dm = re.search(r"`(\d+)`", tab[entry][2])
        R.check("D5", dm is not None and defaults.get(fld) == dm.group(1),
                "GM2CalcConfig[%d] %s default %s" % (entry, fld, defaults.get(fld)), "%s:%s" % (rec["file"], rec["line"]),
                "README default is %s" % tab[entry][2], key="D5|%d" % entry)
    # output format default per input type
    f = F.fn(AN + "set_to_default")
    E = Evaluator(F)
    v, fr = E.function_value(f)
    ft = fr.heap.get(("field", ("sym", "config_options"), "output_format"))
    it = None
    for e in F.enums.values():
        if e["name"].endswith("Gm2_cmd_line_options::E_input_type"):
            it = {v["name"]: int(v["v"]) for v in e["values"]}
    dm = re.search(r"`(\d)` for SLHA input, `(\d)` for GM2Calc input", tab[0][2])
    if ft is None or it is None or dm is None:
        R.broken("D5: set_to_default / README default of the output format not recognised")
    for nm, want in (("SLHA", int(dm.group(1))), ("GM2Calc", int(dm.group(2)))):
        r = subst_fold(ft, {("field", ("sym", "options"), "input_type"): num(it[nm])})
        R.check("D5", r == num(want), "default output format for %s input = %s" % (nm, show(r)), F.loc(f),
                "README: %d" % want, key="D5|format|" + nm)


def _entry(t):
    """(block, key, value) of a fill_block_entry(slha_io, get<0>(e), get<1>(e), get<2>(e), get<3>(e)) effect"""
    args = t[2][1:]
    parts = []
    for i, a in enumerate(args[:3]):
        # a = get(tuple-construct(...)) -> the i-th constructor argument
        inner = a
        while inner[0] == "call" and str(inner[1]).endswith("get") and len(inner[2]) == 1:
            inner = inner[2][0]
        if inner[0] == "call" and len(inner[2]) >= 3 and ("construct" in str(inner[1]) or "tuple" in str(inner[1])
                                                         or "basic_string" in str(inner[1])):
            parts.append(inner[2][i])
        else:
            parts.append(inner)
    blk = parts[0][1] if parts[0][0] == "str" else show(parts[0])
    key = int(parts[1][1]) if parts[1][0] == "num" else show(parts[1])
    return blk, key, show(parts[2])


def _chain_items(F, f):
    """flatten the `std::cout << ...` statement of a detailed writer into items
    ('lit', text) | ('AMU'|'DEL'|'PCT'|'VAL', node)"""
    best = None
    for n in walk(f["body"]):
        if n.get("k") == "CXXOperatorCallExpr" and n.get("op") == "<<":
            cnt = sum(1 for x in walk(n) if x.get("k") == "CXXOperatorCallExpr" and x.get("op") == "<<")
            if best is None or cnt > best[0]:
                has_cout = any(x.get("k") == "DeclRefExpr" and x.get("n") == "std::cout" for x in walk(n))
                if has_cout:
                    best = (cnt, n)
    if best is None:
        raise AnalysisBroken("no std::cout chain found in %s" % f["name"])
    ops = []
    cur = best[1]
    while True:
        c0 = strip_all(cur)
        if c0.get("k") == "CXXOperatorCallExpr" and c0.get("op") == "<<":
            ops.append(c0["c"][2])
            cur = c0["c"][1]
            continue
        break
    ops.reverse()
    items = []
    for o in ops:
        o0 = strip_all(o)
        if o0.get("k") == "StringLiteral":
            items.append(("lit", o0.get("v")))
            continue
        if o0.get("k") == "CharacterLiteral":
            items.append(("lit", chr(int(o0.get("v")))))
            continue
        t = (o0.get("t") or "")
        if "_Set" in t or "ios_base" in t or o0.get("k") == "DeclRefExpr" and o0.get("rk") == "Func":
            continue
        kind = "VAL"
        for mk_ in ("FORMAT_AMU", "FORMAT_DEL", "FORMAT_PCT"):
            if in_macro(o, mk_) or in_macro(o0, mk_):
                kind = mk_[-3:]
        items.append((kind, o))
    return items


def _check_detailed(F, R, f, model):
    items = _chain_items(F, f)
    E = Evaluator(F, inline=lambda n, g: not n.startswith("gm2calc::"))
    fr = Frame(E, f, {p["id"]: ("sym", p["name"]) for p in f["params"]}, ("this",), 0)
    fr.run()
    # totals inlined one level for the group sums
    Ein = Evaluator(F, inline=lambda n, g: n in ("gm2calc::calculate_amu_1loop", "gm2calc::calculate_amu_2loop",
                                                 "gm2calc::amu1Lapprox", "gm2calc::amu2LFSfapprox",
                                                 "gm2calc::amu1Lapprox_non_tan_beta_resummed",
                                                 "gm2calc::amu2LFSfapprox_non_tan_beta_resummed") or _delegates(g))
    fin = Frame(Ein, f, {p["id"]: ("sym", p["name"]) for p in f["params"]}, ("this",), 0)
    fin.run()

    # every value printed must be the same library computation in the try and in the fallback branch
    Ecmp = Evaluator(F, inline=lambda n, g: bool(re.match(
        r"^gm2calc::calculate_amu_[12]loop(_non_tan_beta_resummed)?$", n)))
    fcmp = Frame(Ecmp, f, {p["id"]: ("sym", p["name"]) for p in f["params"]}, ("this",), 0)
    fcmp.run()
    for it in items:
        if it[0] in ("AMU", "DEL", "PCT"):
            t = fcmp.fz(fcmp.e(it[1]))
            for st in subterms(t):
                if len(st) == 4 and st[0] == "ite" and isinstance(st[1], tuple) and st[1] and st[1][0] == "caught":
                    a, b = _norm_obj(st[2]), _norm_obj(st[3])
                    R.check("D4", a == b, "Detailed<%s>: %s computed identically in try and fallback branch" % (
                        model, show(a)[:70]), F.loc(f, it[1]),
                        "the fallback (catch) branch computes %s but the normal branch %s" % (show(st[2])[:110], show(st[3])[:110]),
                        key="D4|%s|fallback|%s" % (model, show(b)[:40]))

    guard_issues = []

    def rat(frame, node):
        t = frame.fz(frame.e(node))
        # try/catch merges: both branches assign the same expression shape; unknowns are reported
        t1 = _strip_ite(t)
        # a division guard `ref != 0 ? 100 x / ref : 0`: accepted only if it is blind to the sign of the reference
        for u in subterms(t1):
            if isinstance(u, tuple) and len(u) == 4 and u[0] == "ite" and u[1][0] != "caught":
                c = u[1]
                sym_ok = (c[0] == "cmp" and c[1] == "!=") or \
                    (c[0] == "cmp" and c[1] in ("<", "<=") and any(isinstance(w, tuple) and w[:2] == ("call", "abs") for w in (c[2], c[3]))) or \
                    (c[0] == "not" and c[1][0] == "call" and str(c[1][1]).split("::")[-1] == "is_zero") or \
                    (c[0] == "call" and str(c[1]).split("::")[-1] in ("isfinite",))
                if not sym_ok:
                    guard_issues.append((node, "the printed value is guarded by `%s`, which is not symmetric in the sign of the tested "
                                               "quantity: for the other sign `%s` is printed instead" % (show(c)[:80], show(u[3])[:30])))
        return to_rat(_strip_guards(t1)), t

    # split into lines
    lines = [[]]
    for it in items:
        if it[0] == "lit":
            segs = it[1].split("\n")
            for i, s in enumerate(segs):
                if i > 0:
                    lines.append([])
                if s:
                    lines[-1].append(("lit", s))
        else:
            lines[-1].append(it)
    total_1l = to_rat(("call", "gm2calc::calculate_amu_1loop", (("sym", "model"),)))
    total_2l = to_rat(("call", "gm2calc::calculate_amu_2loop", (("sym", "model"),)))
    refs = {"of full 1L + 2L result": total_1l + total_2l, "of 2L result": total_2l}
    n_pct = n_sum = 0
    for li, line in enumerate(lines):
        amu = [x for x in line if x[0] == "AMU"]
        text = " ".join(x[1] for x in line if x[0] == "lit")
        for j, it in enumerate(line):
            if it[0] != "PCT":
                continue
            n_pct += 1
            own = [x for x in line[:j] if x[0] == "AMU"]
            after = " ".join(x[1] for x in line[j + 1:] if x[0] == "lit")
            inst = "Detailed<%s> line '%s': pct" % (model, text.strip()[:40])
            where = F.loc(f, it[1])
            if not own:
                R.fail("D4", inst, where, "percentage without a component on its line", key="D4|%s|%s|own" % (model, text.strip()[:30]))
                continue
            try:
                p, pt = rat(fr, it[1])
                o, ot = rat(fr, own[-1][1])
            except NotPolynomial as e:
                R.broken("D4: %s: %s" % (inst, e))
            ref = None
            for label, r in refs.items():
                if label in after:
                    ref = (label, r)
            if ref is not None:
                want = Rat(Poly.const(100)) * o / ref[1]
                R.check("D4", p.equals(want), inst + " = 100*%s / [%s]" % (show(ot)[:50], ref[0]), where,
                        "printed percentage is %s, but the line shows %s and the text says '%% %s'" % (
                            show(pt)[:120], show(ot)[:60], ref[0]),
                        key="D4|%s|%s|pct" % (model, text.strip()[:30]))
            else:
                # no stated reference: numerator must still be the line's own component
                q = p * Rat(Poly.const(1), Poly.const(100))
                den = o / q if not q.is_zero() else None
                ok = den is not None and not any(a in o.n.atoms() for a in ()) and _is_ratio_of(p, o)
                R.check("D4", ok, inst + " = 100*%s / (unstated reference)" % show(ot)[:50], where,
                        "percentage is not 100 * own component / something: %s" % show(pt)[:120],
                        key="D4|%s|%s|pct" % (model, text.strip()[:30]))
        if re.search(r"\bsum\b", text) and amu:
            n_sum += 1
            # group: AMU items of the preceding lines up to a line without AMU (separators skipped)
            grp = []
            for pl in reversed(lines[:li]):
                pa = [x for x in pl if x[0] == "AMU"]
                ptxt = " ".join(x[1] for x in pl if x[0] == "lit")
                if not pa:
                    if re.match(r"^\s*-+\s*$", ptxt):
                        continue
                    break
                grp.extend(pa)
            inst = "Detailed<%s> '%s' group of %d" % (model, _heading(lines, li)[:40], len(grp))
            where = F.loc(f, amu[0][1])
            try:
                s, st = rat(fin, amu[0][1])
                tot = Rat(Poly.const(0))
                for g in grp:
                    tot = tot + rat(fin, g[1])[0]
            except NotPolynomial as e:
                R.broken("D4: %s: %s" % (inst, e))
            R.check("D4", bool(grp) and s.equals(tot), inst + ": sum = " + show(st)[:60], where,
                    "printed sum %s is not the sum of the %d printed parts of its group" % (show(st)[:100], len(grp)),
                    key="D4|%s|%s|sum" % (model, _heading(lines, li)[:30]))
    seen_gi = set()
    for node_, msg_ in guard_issues:
        if msg_ in seen_gi:
            continue
        seen_gi.add(msg_)
        R.fail("D4", "Detailed<%s>: guarded value" % model, F.loc(f, node_), msg_, key="D4|%s|guard|%s" % (model, msg_[:60]))
    if n_pct < 2 or n_sum < 1:
        R.broken("D4: detailed writer for %s: only %d percentages / %d sums recognised" % (model, n_pct, n_sum))


def _delegates(g):
    """body is `return <same-named overload>(...)`"""
    body = g["body"].get("c", [])
    if len(body) != 1 or body[0].get("k") != "ReturnStmt" or not body[0].get("c"):
        return False
    e = strip_all(body[0]["c"][0])
    return is_call(e) and (e.get("fn") or "").split("::")[-1] == g["name"].split("::")[-1] and \
        e.get("mg") != g.get("mg")


def _heading(lines, li):
    for pl in reversed(lines[:li]):
        ptxt = " ".join(x[1] for x in pl if x[0] == "lit")
        if ptxt.strip().endswith(":"):
            return ptxt.strip()
    return " ".join(x[1] for x in lines[li] if x[0] == "lit").strip()


def _norm_obj(t):
    """forget the name of local model copies and their force-output switch"""
    if not isinstance(t, tuple) or not t:
        return t
    if t[0] == "obj":
        src = _norm_obj(t[2])
        meth = tuple(m for m in t[3] if m[0] != "do_force_output")
        if isinstance(src, tuple) and src and src[0] == "obj":      # copy of a copy
            return ("obj", "*", src[2], src[3] + meth)
        return ("obj", "*", src, meth)
    return tuple(_norm_obj(x) if isinstance(x, tuple) else x for x in t)


def _strip_guards(t):
    """`cond ? value : fallback` division guards: the algebra of the line is that of `value` (the guard itself is judged in rat())"""
    if t[0] == "ite":
        return _strip_guards(t[2])
    if t[0] in ("+", "-", "*", "/"):
        return (t[0], _strip_guards(t[1]), _strip_guards(t[2]))
    if t[0] == "neg":
        return ("neg", _strip_guards(t[1]))
    return t


def _strip_ite(t):
    """values assigned in both arms of the try/catch fallback are the same expression on different
    model copies; for the algebra of the output line the first alternative is used"""
    if t[0] == "ite" and t[1][0] == "caught":
        return _strip_ite(t[3])
    if t[0] == "ite":
        return ("ite", t[1], _strip_ite(t[2]), _strip_ite(t[3]))
    if t[0] in ("+", "-", "*", "/"):
        return (t[0], _strip_ite(t[1]), _strip_ite(t[2]))
    if t[0] == "neg":
        return ("neg", _strip_ite(t[1]))
    return t


def _is_ratio_of(p, o):
    """p = 100 * o / D for some D not containing o's atoms: p.n * ? ... checked as p.n divisible shape:
    p/o must not depend on the atoms of o's numerator"""
    q = p / o
    # q = 100 / D: numerator constant after cross-cancellation is hard without gcd; test p.n * o.d vs o.n * X
    # sufficient structural test: o.n * p.d * c == p.n * o.d * D  with D free of o's atoms -> check linearity:
    # p.n*o.d must be a multiple of o.n
    lhs = p.n * o.d
    rest = _divide(lhs, o.n)
    return rest is not None


def _divide(a, b):
    """exact polynomial division a / b when b is a single monomial or a == b * const; else None"""
    if len(b.t) == 1:
        (mb, cb), = b.t.items()
        out = {}
        for m, c in a.t.items():
            d = dict(m)
            for atom, e in mb:
                if d.get(atom, 0) < e:
                    return None
                d[atom] -= e
            key = tuple(sorted(((x, e) for x, e in d.items() if e), key=lambda x: repr(x[0])))
            out[key] = c / cb
        return Poly(out)
    # general: try a = b * q with q found by matching leading structure is out of scope; accept equality up to const
    for m, c in b.t.items():
        if m in a.t:
            k = a.t[m] / c
            if (a - b.scale(k)).is_zero():
                return Poly.const(k)
        break
    # a = b * (linear poly)? try dividing by treating one atom of b's first monomial
    return _long_division(a, b)


def _long_division(a, b):
    """multivariate division with a graded-lex leading term; returns quotient if remainder is zero"""
    def lead(p):
        return max(p.t.items(), key=lambda mc: (sum(e for _, e in mc[0]), repr(mc[0])))
    q = Poly()
    r = a.copy()
    lb_m, lb_c = lead(b)
    for _ in range(200):
        if r.is_zero():
            return q
        lm, lc = lead(r)
        d = dict(lm)
        ok = True
        for atom, e in lb_m:
            if d.get(atom, 0) < e:
                ok = False
                break
            d[atom] -= e
        if not ok:
            return None
        mono = tuple(sorted(((x, e) for x, e in d.items() if e), key=lambda x: repr(x[0])))
        t = Poly({mono: lc / lb_c})
        q = q + t
        r = r - t * b
    return None


def _thdm_config_plumbing(F, R):
    """D7: the THDM the program prints results for is configured with the options' own flags: every field of thdm::Config
    receives the same-named field of the program options (by named assignment, or by position in a braced initialiser,
    matched against the declaration order of the struct)"""
    from .render import Renderer
    rec = F.records.get("gm2calc::thdm::Config")
    fs = [f for f in F.functions.values() if re.search(r"THDM_reader::operator\(\)$", f["name"])]
    R.rule("D7", "THDM_reader configures the model with the selected flags: each field of thdm::Config is set from the same-named "
                 "program option (named assignment, or braced initialiser matched by the struct's declaration order)", 2)
    if rec is None or not fs:
        R.broken("D7: thdm::Config or THDM_reader::operator() not found")
        return
    f = fs[0]
    Rr = Renderer(f, resolve_locals=False)
    names = [fl["name"] for fl in rec["fields"]]
    got = {}
    var_ids = set()
    for n in walk(f["body"]):
        if n.get("k") == "DeclStmt":
            for d in n.get("decls", ()):
                if "thdm::Config" in str(d.get("t") or ""):
                    var_ids.add(d.get("id"))
                    ini = strip_all(d.get("init")) if d.get("init") is not None else None
                    while ini is not None and ini.get("k") in ("CXXConstructExpr", "CXXFunctionalCastExpr") and len(ini.get("c", [])) == 1:
                        ini = strip_all(ini["c"][0])
                    if ini is not None and ini.get("k") == "InitListExpr":
                        for nm, c in zip(names, ini.get("c", [])):
                            got[nm] = (Rr.r(c), n)
    for n in walk(f["body"]):
        if n.get("k") == "BinaryOperator" and n.get("op") == "=":
            l = strip_all(n["c"][0])
            if l is not None and l.get("k") == "MemberExpr" and l.get("mk") == "Field" and l.get("c"):
                b = strip_all(l["c"][0])
                if b is not None and b.get("k") == "DeclRefExpr" and b.get("id") in var_ids:
                    got[l["sn"]] = (Rr.r(n["c"][1]), n)
    # a temporary handed to the constructor directly: THDM(basis, sm, thdm::Config{a, b})
    for n in walk(f["body"]):
        if n.get("k") in ("CXXTemporaryObjectExpr", "CXXFunctionalCastExpr", "InitListExpr") and "thdm::Config" in str(n.get("t") or ""):
            ini = n if n.get("k") == "InitListExpr" else (strip_all(n["c"][0]) if n.get("c") else None)
            if ini is not None and ini.get("k") == "InitListExpr":
                for nm, c in zip(names, ini.get("c", [])):
                    got.setdefault(nm, (Rr.r(c), n))
    for nm in names:
        val = got.get(nm)
        R.check("D7", val is not None and val[0] == "options." + nm, "thdm::Config.%s <- %s" % (nm, val[0] if val else "(default)"),
                F.loc(f, val[1]) if val else F.loc(f),
                "the model's %s flag is %s, not the option of that name: the program prints the result of another configuration "
                "than the one selected (GM2CalcConfig)" % (nm, ("set from " + val[0]) if val else "left at its default"),
                key="D7|" + nm)
