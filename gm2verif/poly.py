"""Exact polynomial / rational-function normal forms over opaque atoms (E3, polynomial
domain).  Coefficients are Fractions; atoms are hashable terms.  Square roots of rationals are
algebraic atoms ('sqrtQ', r) with the reduction sqrtQ(r)^2 = r.  No floating point, no solver."""
from fractions import Fraction
import math

from .terms import show


class Poly:
    __slots__ = ("t",)

    def __init__(self, t=None):
        self.t = t or {}       # monomial (tuple of (atom, exp) sorted by repr) -> Fraction

    # -- construction --------------------------------------------------------
    @staticmethod
    def const(c):
        c = Fraction(c)
        return Poly({(): c} if c != 0 else {})

    @staticmethod
    def atom(a):
        return Poly({((a, 1),): Fraction(1)})

    def copy(self):
        return Poly(dict(self.t))

    # -- arithmetic ------------------------------------------------------------
    def __add__(self, o):
        r = dict(self.t)
        for m, c in o.t.items():
            v = r.get(m, 0) + c
            if v == 0:
                r.pop(m, None)
            else:
                r[m] = v
        return Poly(r)

    def __neg__(self):
        return Poly({m: -c for m, c in self.t.items()})

    def __sub__(self, o):
        return self + (-o)

    def scale(self, k):
        k = Fraction(k)
        if k == 0:
            return Poly()
        return Poly({m: c * k for m, c in self.t.items()})

    def __mul__(self, o):
        r = {}
        for m1, c1 in self.t.items():
            for m2, c2 in o.t.items():
                m, k = _mulmono(m1, m2)
                v = r.get(m, 0) + c1 * c2 * k
                if v == 0:
                    r.pop(m, None)
                else:
                    r[m] = v
        return Poly(r)

    def __pow__(self, n):
        r = Poly.const(1)
        for _ in range(n):
            r = r * self
        return r

    def is_zero(self):
        return not self.t

    def is_const(self):
        return all(m == () for m in self.t)

    def const_value(self):
        return self.t.get((), Fraction(0))

    def __eq__(self, o):
        return isinstance(o, Poly) and self.t == o.t

    def __hash__(self):
        return hash(frozenset(self.t.items()))

    def atoms(self):
        out = set()
        for m in self.t:
            for a, e in m:
                out.add(a)
        return out

    def subs(self, mapping):
        """substitute atoms by polynomials"""
        r = Poly()
        for m, c in self.t.items():
            term = Poly.const(c)
            for a, e in m:
                term = term * ((mapping[a] ** e) if a in mapping else Poly({((a, e),): Fraction(1)}))
            r = r + term
        return r

    def diff(self, a):
        r = {}
        for m, c in self.t.items():
            for i, (b, e) in enumerate(m):
                if b == a:
                    nm = m[:i] + (((b, e - 1),) if e > 1 else ()) + m[i + 1:]
                    r[nm] = r.get(nm, 0) + c * e
        return Poly({m: c for m, c in r.items() if c != 0})

    def coeff_of(self, a, e):
        """polynomial coefficient of atom a to the power e"""
        r = {}
        for m, c in self.t.items():
            ea = 0
            rest = []
            for b, eb in m:
                if b == a:
                    ea = eb
                else:
                    rest.append((b, eb))
            if ea == e:
                r[tuple(rest)] = r.get(tuple(rest), 0) + c
        return Poly({m: c for m, c in r.items() if c != 0})

    def degree_in(self, a):
        d = 0
        for m in self.t:
            for b, e in m:
                if b == a:
                    d = max(d, e)
        return d

    def __repr__(self):
        if not self.t:
            return "0"
        parts = []
        for m, c in sorted(self.t.items(), key=lambda x: repr(x[0])):
            mono = "*".join(("%s^%d" % (_an(a), e)) if e != 1 else _an(a) for a, e in m)
            parts.append(("%s*%s" % (c, mono)) if mono and c != 1 else (mono or str(c)))
        return " + ".join(parts)


def _an(a):
    if isinstance(a, tuple):
        if a and a[0] == "sqrtQ":
            return "sqrt(%s)" % a[1]
        return show(a)
    return str(a)


def _key(a):
    return repr(a)


def _mulmono(m1, m2):
    d = dict(m1)
    for a, e in m2:
        d[a] = d.get(a, 0) + e
    k = Fraction(1)
    out = []
    for a, e in d.items():
        if isinstance(a, tuple) and a and a[0] == "sqrtQ" and e >= 2:
            k *= a[1] ** (e // 2)
            e = e % 2
        if e:
            out.append((a, e))
    out.sort(key=lambda x: _key(x[0]))
    return tuple(out), k


class Rat:
    """rational function num/den (not reduced); equality by cross-multiplication"""
    __slots__ = ("n", "d")

    def __init__(self, n, d=None):
        self.n = n
        self.d = d if d is not None else Poly.const(1)

    def __add__(self, o):
        if self.d == o.d:
            return Rat(self.n + o.n, self.d)
        return Rat(self.n * o.d + o.n * self.d, self.d * o.d)

    def __neg__(self):
        return Rat(-self.n, self.d)

    def __sub__(self, o):
        return self + (-o)

    def __mul__(self, o):
        return Rat(self.n * o.n, self.d * o.d)

    def inv(self):
        return Rat(self.d, self.n)

    def __truediv__(self, o):
        return Rat(self.n * o.d, self.d * o.n)

    def equals(self, o):
        return (self.n * o.d - o.n * self.d).is_zero()

    def is_zero(self):
        return self.n.is_zero()

    def __repr__(self):
        if self.d.is_const() and self.d.const_value() == 1:
            return repr(self.n)
        return "(%r)/(%r)" % (self.n, self.d)


# ---- algebraic constants -------------------------------------------------------
def _sqrt_table():
    tab = []
    for r in (Fraction(2), Fraction(1, 2), Fraction(3), Fraction(3, 5), Fraction(5, 3), Fraction(3, 10),
              Fraction(3, 20), Fraction(5), Fraction(6), Fraction(10), Fraction(15), Fraction(1, 3),
              Fraction(2, 3), Fraction(3, 2), Fraction(1, 5), Fraction(1, 10), Fraction(1, 20), Fraction(3, 40)):
        tab.append((math.sqrt(r), r))
    return tab


_SQRTS = _sqrt_table()
PI = ("const", "pi")


def literal_poly(fr):
    """a decimal literal: exact rational, or -- if it matches q*sqrt(r) / q*pi^k to 1e-15 relative --
    the algebraic/transcendental constant it abbreviates"""
    v = float(fr)
    if fr.denominator <= 10 ** 6 or v == 0:
        return Poly.const(fr)
    # many-digit literal: try q * sqrt(r) and q * pi, q * pi^2 with small rational q
    for root, r in _SQRTS:
        q = _small_rational(v / root)
        if q is not None:
            base, k = _squarefree(r)
            return Poly.atom(("sqrtQ", base)).scale(q * k)
    for name, val in (("pi", math.pi), ("pi2", math.pi ** 2), ("1/pi", 1 / math.pi), ("1/pi2", 1 / math.pi ** 2)):
        q = _small_rational(v / val)
        if q is not None:
            if name == "pi":
                return Poly.atom(PI).scale(q)
            if name == "pi2":
                return (Poly.atom(PI) ** 2).scale(q)
            return None  # handled by the caller as a rational function
    return Poly.const(fr)


def _small_rational(x, maxden=1024, tol=2e-15):
    if x == 0:
        return None
    f = Fraction(x).limit_denominator(maxden)
    if f != 0 and abs(float(f) - x) <= tol * abs(x):
        return f
    return None


def _squarefree(r):
    """sqrt(r) = k * sqrt(base) with base a square-free integer: returns (base, k)"""
    n, d = r.numerator, r.denominator
    # sqrt(n/d) = sqrt(n*d)/d
    m = n * d
    k = Fraction(1, d)
    f = 2
    while f * f <= m:
        while m % (f * f) == 0:
            m //= f * f
            k *= f
        f += 1
    return Fraction(m), k


class NotPolynomial(Exception):
    pass


def to_rat(t, atomize=None, depth=0):
    """term -> Rat. Opaque calls / fields / elems become atoms. `atomize(t)` may map special terms."""
    h = t[0]
    if atomize is not None:
        r = atomize(t)
        if r is not None:
            return r
    if h == "num":
        p = literal_poly(t[1])
        if p is None:
            v = float(t[1])
            for name, val, e in (("1/pi", 1 / math.pi, 1), ("1/pi2", 1 / math.pi ** 2, 2)):
                q = _small_rational(v / val)
                if q is not None:
                    return Rat(Poly.const(q), Poly.atom(PI) ** e)
            p = Poly.const(t[1])
        return Rat(p)
    if h in ("+", "-", "*", "/"):
        a, b = to_rat(t[1], atomize, depth + 1), to_rat(t[2], atomize, depth + 1)
        if h == "+":
            return a + b
        if h == "-":
            return a - b
        if h == "*":
            return a * b
        return a / b
    if h == "neg":
        return -to_rat(t[1], atomize, depth + 1)
    if h == "call":
        name = str(t[1])
        if name == "sqrt" and len(t[2]) == 1 and t[2][0][0] == "num" and t[2][0][1] > 0:
            base, k = _squarefree(t[2][0][1])
            if base == 1:
                return Rat(Poly.const(k))
            return Rat(Poly.atom(("sqrtQ", base)).scale(k))
        # normalise arguments of opaque calls so that equal calls give equal atoms
        return Rat(Poly.atom(t))
    if h in ("sym", "field", "elem", "this", "enum"):
        return Rat(Poly.atom(t))
    if h == "mat":
        raise NotPolynomial("matrix value in scalar context")
    raise NotPolynomial("term %s is not polynomial: %s" % (h, show(t)[:120]))
